#!/bin/bash
# Offline setup: nothing to build (pure-Python monitors); verify the interpreter and imports, from /repo's working tree.
set -e
HERE="$(cd "$(dirname "${BASH_SOURCE[0]}")" && pwd)"
cd "$HERE"
chmod +x check tools/*.py 2>/dev/null || true
mkdir -p evidence replays .work
OMP_NUM_THREADS=1 PYTHONPATH="${VERIF_REPO:-/repo}:$HERE" /venv/bin/python -B - <<'PY'
import os, torch, numpy, scipy, xitorch, vf.harness
root = os.path.realpath(os.environ.get("VERIF_REPO", "/repo"))
assert os.path.realpath(xitorch.__file__).startswith(root), xitorch.__file__
print("setup ok: torch", torch.__version__, "numpy", numpy.__version__, "scipy", scipy.__version__, "xitorch from", xitorch.__file__)
PY
