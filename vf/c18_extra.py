"""C18, additional workload dimensions.

* OPTIONS THAT THE FUNCTIONAL ITSELF CONSUMES, MIXED WITH THE OPTIONS FOR THE CALLER'S CALLABLE (group `special`, kind `bck_strict_opts`).
  Every functional with a backward-method slot is called with ``bck_options = {"method": <recording callable>, <the callable's own
  options>, <options the functional reads itself>}``:

  - symeig / svd: the backward linear solver + ``degen_atol`` / ``degen_rtol`` (documented as options "for computing the backward
    derivatives", i.e. of the derivative formula, not of the solver),
  - solve / rootfinder / equilibrium / minimize: the backward linear solver + its own options,
  - solve_ivp / quad / mcquad: the backward method + its own options, on top of forward options ("Unspecified fields will be taken
    from fwd_options": the callable legitimately receives the forward options overlaid by the backward ones - and nothing else).

  The callables have STRICT signatures (keyword-only parameters with a sentinel default, no ``**kwargs``): an option that the caller
  never addressed to the callable raises TypeError like it does for any user function, and the recorder knows which keywords were
  really passed.  Oracle per call of the callable (first-order backward AND the solves nested in the differentiated backward):
  received keywords == the caller's options for it, values included; gradient recording off; the callable did run in both orders;
  first / second-order gradients equal the built-in reference; the caller's dictionary is left as it was.

* CALLABLES WHOSE CLOSED-FORM ANSWER IS ONE OF THEIR INPUTS, with leaves whose derivative is NOT identically zero (kind
  `returns_input_leaf`): solve on an identity operator given as a leaf (the callable returns ``B`` itself; with ``E`` = zeros leaf
  and an arbitrary M the answer is still ``B``), quad of a constant integrand over a unit interval (the callable returns
  ``params[0]`` itself), symeig of a diagonal operator (eigenvalues = a view of the operator's parameter), solve_ivp with a vanishing
  right-hand side (expanded view of ``y0``).  Oracle: value, first- and second-order gradients equal those of the same call with a
  callable that returns a copy, and of the built-in.
"""
import random

import torch

from vf.common import HarnessBug, WarnLog

DT = torch.float64
_MISSING = object()          # "this keyword was not passed"

# the callable's own options (names a user would pick; `rtol` / `verbose` are also names of options of built-in solvers: when the caller's
# callable is the method they are the callable's)
OWN_SETS = [
    {},
    {"rcond": 1e-10},
    {"my_flag": 3, "my_none": None},
    {"verbose": False, "my_list": (1, 2)},
    {"rtol": 1e-9, "rcond": 1e-11},
    {"my_none": None},
]
# options that symeig / svd consume themselves, given in the same dictionary
ALG_SETS = [
    {"degen_atol": 1e-8, "degen_rtol": 1e-8},
    {"degen_atol": 1e-9},
    {"degen_rtol": 1e-10},
    {"degen_atol": None, "degen_rtol": 1e-9},
    {"degen_atol": 0.0, "degen_rtol": 0.0},
    {},
]
FWD_KINDS = {
    "solve": ["bicgstab", "closed", "cg"],
    "symeig": ["davidson", "closed"],
    "svd": ["closed", "davidson"],
    "rootfinder": ["builtin", "closed"],
    "equilibrium": ["closed", "builtin"],
    "minimize": ["builtin", "closed"],
    "solve_ivp": ["rk45", "closed", "rk4"],
    "quad": ["leggauss", "closed"],
    "mcquad": ["_dummy1d", "closed"],
}
SLOT = {"solve": "linear", "symeig": "eig", "svd": "eig", "rootfinder": "linear", "equilibrium": "linear", "minimize": "linear",
        "solve_ivp": "ivp", "quad": "quad", "mcquad": "mc"}
FWD_EXTRA = {"my_fwd_flag": 5}       # extra option of a forward CALLABLE (inherited by the backward of solve_ivp / quad / mcquad as documented)


class Recorder(object):
    def __init__(self):
        self.calls = []

    def add(self, got, ok_args):
        self.calls.append({"kwargs": got, "ok_args": bool(ok_args), "grad_enabled": torch.is_grad_enabled()})


def _passed(**kw):
    return {k: v for k, v in kw.items() if v is not _MISSING}


def make_strict(slot, rec):
    """a recording method with a strict signature for the given backward slot"""
    import xitorch

    if slot in ("linear", "eig"):
        singular = slot == "eig"      # the systems of the symeig backward are singular but consistent

        def strict_solver(A, B, E=None, M=None, *, rcond=_MISSING, my_flag=_MISSING, my_none=_MISSING, my_list=_MISSING, verbose=_MISSING,
                          rtol=_MISSING):
            rec.add(_passed(rcond=rcond, my_flag=my_flag, my_none=my_none, my_list=my_list, verbose=verbose, rtol=rtol),
                    isinstance(A, xitorch.LinearOperator) and isinstance(B, torch.Tensor) and (E is None or isinstance(E, torch.Tensor))
                    and (M is None or isinstance(M, xitorch.LinearOperator)))
            Ad = A.fullmatrix()
            if E is None:
                return torch.linalg.solve(Ad, B)
            Md = M.fullmatrix() if M is not None else torch.eye(Ad.shape[-1], dtype=Ad.dtype)
            cols = []
            for c in range(B.shape[-1]):
                S = Ad - E[..., c] * Md
                cols.append(torch.matmul(torch.linalg.pinv(S, rcond=1e-10), B[..., c]) if singular else torch.linalg.solve(S, B[..., c]))
            return torch.stack(cols, dim=-1)
        return strict_solver
    if slot == "ivp":
        def strict_ivp(fcn, ts, y0, params, *, atol=_MISSING, rtol=_MISSING, rcond=_MISSING, my_flag=_MISSING, my_none=_MISSING,
                       my_list=_MISSING, verbose=_MISSING, my_fwd_flag=_MISSING):
            from xitorch._impls.integrate.ivp.adaptive_rk import rk45_adaptive
            rec.add(_passed(atol=atol, rtol=rtol, rcond=rcond, my_flag=my_flag, my_none=my_none, my_list=my_list, verbose=verbose,
                            my_fwd_flag=my_fwd_flag), callable(fcn) and isinstance(ts, torch.Tensor) and len(ts) == 2)
            return rk45_adaptive(fcn, ts, y0, params, atol=1e-11, rtol=1e-10)
        return strict_ivp
    if slot == "quad":
        def strict_quad(fcn, xl, xu, params, *, n=_MISSING, rtol=_MISSING, rcond=_MISSING, my_flag=_MISSING, my_none=_MISSING,
                        my_list=_MISSING, verbose=_MISSING, my_fwd_flag=_MISSING):
            from xitorch._impls.integrate.fixed_quad import leggauss
            rec.add(_passed(n=n, rtol=rtol, rcond=rcond, my_flag=my_flag, my_none=my_none, my_list=my_list, verbose=verbose,
                            my_fwd_flag=my_fwd_flag), callable(fcn))
            return leggauss(fcn, xl, xu, params, n=40)
        return strict_quad
    if slot == "mc":
        def strict_sampler(log_pfcn, x0, pparams, *, nsamples=_MISSING, lb=_MISSING, ub=_MISSING, rtol=_MISSING, rcond=_MISSING,
                           my_flag=_MISSING, my_none=_MISSING, my_list=_MISSING, verbose=_MISSING, my_fwd_flag=_MISSING):
            from xitorch._impls.integrate.mcsamples.mcmc import dummy1d
            rec.add(_passed(nsamples=nsamples, lb=lb, ub=ub, rtol=rtol, rcond=rcond, my_flag=my_flag, my_none=my_none, my_list=my_list,
                            verbose=verbose, my_fwd_flag=my_fwd_flag), callable(log_pfcn))
            return dummy1d(log_pfcn, x0, pparams, nsamples=30, lb=-6.0, ub=6.0)
        return strict_sampler
    raise HarnessBug("unknown slot %r" % (slot,))


def extra_cases(seed, tier, sub_seed, names):
    out = []
    nrep = 6 if tier == "quick" else 30
    for name in names:
        for r in range(nrep):
            rng = random.Random(sub_seed(seed, "c18bs", name, r))
            out.append({"group": "special", "kind": "bck_strict_opts", "functional": name, "n": rng.choice([3, 4, 6, 7]),
                        # the first repetitions enumerate forward kinds / the "both thresholds" set, the others draw
                        "fwd": r if r < 4 else rng.randrange(12), "own": (r + 1) % len(OWN_SETS) if r < 4 else rng.randrange(len(OWN_SETS)),
                        "alg": r % len(ALG_SETS) if r < 3 else rng.randrange(len(ALG_SETS)),
                        "seed": sub_seed(seed, "c18bss", name, r)})
    for r in range(3 if tier == "quick" else 16):
        for name in ("solve", "quad", "symeig", "solve_ivp"):
            out.append({"group": "special", "kind": "returns_input_leaf", "functional": name, "n": [3, 4, 6][r % 3], "withE": r % 2,
                        "seed": sub_seed(seed, "c18ril", name, r)})
    return out


def _contract_steps(outs, leaves, tg, after_first=None):
    """same random contraction as c18._contract, with a hook between the first- and the second-order pass; exceptions carry the order"""
    cots = [torch.randn(o.shape, generator=tg, dtype=o.dtype) for o in outs]
    L = sum((o * c).sum() for o, c in zip(outs, cots))
    req = [l for l in leaves if l.requires_grad]
    try:
        g = torch.autograd.grad(L, req, create_graph=True, allow_unused=True)
    except Exception as e:
        e._c18_order = "first"
        raise
    if after_first is not None:
        after_first()
    g1 = [torch.zeros_like(l) if gi is None else gi for gi, l in zip(g, req)]
    cots2 = [torch.randn(l.shape, generator=tg, dtype=l.dtype) for l in req]
    L2 = sum((gi * c).sum() for gi, c in zip(g1, cots2) if gi.requires_grad)
    g2 = None
    if isinstance(L2, torch.Tensor) and L2.requires_grad:
        try:
            gg = torch.autograd.grad(L2, req, allow_unused=True)
        except Exception as e:
            e._c18_order = "second"
            raise
        g2 = [torch.zeros_like(l) if gi is None else gi.detach() for gi, l in zip(gg, req)]
    return [x.detach() for x in g1], g2


def _same_options(got, want):
    if set(got) != set(want):
        return False
    for k in want:
        a, b = got[k], want[k]
        if a is None or b is None:
            if a is not b:
                return False
        elif type(a) is not type(b) or a != b:
            return False
    return True


def run_bck_strict(desc, obs, PROBLEMS):
    name = desc["functional"]
    slot = SLOT[name]
    P = PROBLEMS[name](desc["seed"], desc["n"])
    kinds = FWD_KINDS[name]
    fwd = kinds[desc["fwd"] % len(kinds)]
    own = dict(OWN_SETS[desc["own"] % len(OWN_SETS)])
    alg = dict(ALG_SETS[desc["alg"] % len(ALG_SETS)]) if slot == "eig" else {}
    mech = "%s:%s" % (name, fwd if fwd in ("closed", "builtin") else "builtin")
    obs.note(forward=fwd, own_options=sorted(own), alg_options=sorted(alg))
    rec = Recorder()
    strict = make_strict(slot, rec)
    # ---- forward method and options of the two runs
    ref_method, ref_fwd_opts = P.reference, dict(P.ref_opts)
    if fwd == "closed":
        method, fwd_opts = P.closed(), dict(FWD_EXTRA)
        if name == "mcquad":
            fwd_opts.update(P.ref_opts)
    elif fwd == "builtin":
        method, fwd_opts = P.reference, dict(P.ref_opts)
    else:
        method, fwd_opts = fwd, (dict(P.ref_opts) if fwd == P.reference else {})
        if name == "solve_ivp":
            ref_method, ref_fwd_opts = fwd, {}       # a fixed-step scheme reaches its own solution: compare with itself
    # ---- backward options: the caller's dictionary / the equivalent built-in
    bck = {"method": strict}
    bck.update(own)
    bck.update(alg)
    bck_before = dict(bck)
    if slot in ("linear", "eig"):
        ref_bck = dict(P.bck_default)
        ref_bck.update(alg)
        expected = dict(own)
    else:
        ref_bck = {"ivp": {"method": "rk45", "atol": 1e-11, "rtol": 1e-10}, "quad": {"method": "leggauss", "n": 40}, "mc": {}}[slot]
        expected = None      # forward options as the method received them, overlaid by the backward ones (filled in below)
    lv_c = P.leaves()
    lv_r = {k: v.detach().clone().requires_grad_() for k, v in lv_c.items()}
    # ---- built-in reference
    try:
        with WarnLog():
            outs_r = P.call(lv_r, ref_method, ref_fwd_opts, ref_bck)
            tg = torch.Generator().manual_seed(desc["seed"] + 1)
            g1_r, g2_r = _contract_steps(P.gauge(outs_r), list(lv_r.values()), tg)
    except Exception as e:
        raise HarnessBug("built-in reference %s(%s) failed: %s: %s" % (name, ref_method, type(e).__name__, e))
    # ---- the call under observation
    marks = {}
    # the solves that solve's own backward starts (they carry the options on to the next order) are observed through the name bound in the module
    import sys as _sys
    import xitorch.linalg       # noqa: F401
    smod = _sys.modules["xitorch.linalg.solve"]
    orig_solve = smod.solve
    nested = []

    def spy_solve(*a, **kw):
        nested.append(dict(kw))
        return orig_solve(*a, **kw)
    smod.solve = spy_solve
    try:
        return _observe(desc, obs, P, name, slot, fwd, mech, method, fwd_opts, bck, bck_before, own, alg, expected, rec, strict, nested,
                        lv_c, lv_r, outs_r, g1_r, g2_r, ref_method, marks)
    finally:
        smod.solve = orig_solve


def _observe(desc, obs, P, name, slot, fwd, mech, method, fwd_opts, bck, bck_before, own, alg, expected, rec, strict, nested,
             lv_c, lv_r, outs_r, g1_r, g2_r, ref_method, marks):
    with WarnLog():
        try:
            outs_c = P.call(lv_c, method, dict(fwd_opts), bck)
        except Exception as e:
            obs.exc_violation("bck_strict:forward:" + mech, e)
            obs.nontrivial = True
            return
        marks["n0"] = len(rec.calls)
        if expected is None:
            # the caller's forward options, incl. the tolerances that the problem class adds for the adaptive built-ins
            base = dict(fwd_opts)
            if name == "solve_ivp" and fwd in ("rk45", "rk23"):
                base.setdefault("atol", 1e-11)
                base.setdefault("rtol", 1e-10)
            expected = dict(base)
            expected.update(own)
        go_c, go_r = P.gauge(outs_c), P.gauge(outs_r)
        scale = max(1.0, max(float(o.detach().abs().max()) for o in go_r))
        dist = max(float((a.detach() - b.detach()).abs().max()) for a, b in zip(go_c, go_r))
        if dist > 1e-7 * scale:
            raise HarnessBug("forward %s and built-in %s do not reach the same solution (distance %.2e)" % (fwd, ref_method, dist))
        try:
            tg = torch.Generator().manual_seed(desc["seed"] + 1)
            g1_c, g2_c = _contract_steps(go_c, list(lv_c.values()), tg, after_first=lambda: marks.__setitem__("n1", len(rec.calls)))
        except Exception as e:
            order = getattr(e, "_c18_order", "first")
            obs.count("bck_strict_calls_before_raise", len(rec.calls))
            obs.exc_violation("bck_strict:%s:%s" % (order, mech), e, received=[sorted(c["kwargs"]) for c in rec.calls[-2:]])
            obs.nontrivial = True
            return
    n0, n1, n2 = marks["n0"], marks.get("n1", marks["n0"]), len(rec.calls)
    obs.note(calls_forward=n0, calls_first=n1 - n0, calls_second=n2 - n1, forward_distance=dist)
    obs.check(n0 == 0, "bck_strict:called_in_forward:" + mech, "the backward method ran %d time(s) during the forward call" % n0)
    for i, c in enumerate(rec.calls):
        order = "forward" if i < n0 else ("first" if i < n1 else "second")
        obs.check(_same_options(c["kwargs"], expected), "bck_strict:options:%s:%s" % (order, mech),
                  "the caller's backward method received the keywords %s, the caller addressed %s to it (bck_options also held %s for the "
                  "functional itself)" % (sorted(c["kwargs"]), sorted(expected), sorted(alg)), received=repr(c["kwargs"])[:200])
        obs.check(c["ok_args"], "bck_strict:args:%s:%s" % (order, mech), "the caller's backward method was not called with the documented positional arguments")
        obs.check(not c["grad_enabled"], "bck_strict:grad_enabled:%s:%s" % (order, mech), "gradient recording was enabled while the caller's backward method ran")
    if slot in ("linear", "eig"):
        want_bck = dict(expected)
        want_bck["method"] = strict
        for kw in nested:
            rest = {k: v for k, v in kw.items() if k not in ("method", "bck_options")}
            nb = dict(kw.get("bck_options", {}))
            ok = kw.get("method") is strict and _same_options(rest, expected) and nb.get("method") is strict and \
                _same_options({k: v for k, v in nb.items() if k != "method"}, expected)
            obs.check(ok, "bck_strict:nested_call:" + mech,
                      "a solve started inside solve's own backward was given method=%s, options %s, bck_options %s instead of the caller's callable with %s"
                      % (getattr(kw.get("method"), "__name__", kw.get("method")), sorted(rest), sorted(nb), sorted(expected)))
        obs.count("bck_strict_nested_solves_observed", len(nested))
    if slot != "mc":       # (the backward of mcquad re-uses the samples of the forward: its method is never run)
        obs.check(n1 > n0, "bck_strict:not_called:first:" + mech, "the callable given as bck_options['method'] was not called in the first-order backward")
        if g2_c is not None:
            obs.check(n2 > n1, "bck_strict:not_called:second:" + mech,
                      "the callable given as bck_options['method'] ran in the first-order backward but not while that backward was differentiated again")
    obs.count("bck_strict_first_calls", n1 - n0)
    obs.count("bck_strict_nested_calls", n2 - n1)
    same_dict = set(bck) == set(bck_before) and all(bck[k] is bck_before[k] for k in bck_before)
    obs.check(same_dict, "bck_strict:caller_dict:" + mech, "the caller's bck_options dictionary was modified: keys %s -> %s" % (sorted(bck_before), sorted(bck)))
    # ---- gradients
    names = [k for k, v in lv_c.items() if v.requires_grad]
    tol = P.tol + 50 * dist
    gs = max(1.0, max(float(g.abs().max()) for g in g1_r))
    obs.note(grad1_error_over_bound=max(float((a - b).abs().max()) for a, b in zip(g1_c, g1_r)) / (tol * gs))
    for nme, a, b in zip(names, g1_c, g1_r):
        err = float((a - b).abs().max())
        obs.check(err <= tol * gs, "bck_strict:grad1:" + mech, "first-order gradient w.r.t. %s with the caller's backward method differs from the built-in's by %.3e (scale %.2e)" % (nme, err, gs), leaf=nme)
    obs.check((g2_c is None) == (g2_r is None), "bck_strict:grad2_presence:" + mech, "second-order graph present for one of custom / built-in only")
    if g2_c is not None and g2_r is not None:
        gs2 = max(1.0, max(float(g.abs().max()) for g in g2_r))
        obs.note(grad2_error_over_bound=max(float((a - b).abs().max()) for a, b in zip(g2_c, g2_r)) / (20 * tol * gs2))
        for nme, a, b in zip(names, g2_c, g2_r):
            err = float((a - b).abs().max())
            obs.check(err <= 20 * tol * gs2, "bck_strict:grad2:" + mech, "second-order gradient w.r.t. %s with the caller's backward method differs from the built-in's by %.3e (scale %.2e)" % (nme, err, gs2), leaf=nme)
        obs.count("second_order_compared", len(names))
    obs.count("bck_strict_checked")
    obs.count("bck_strict_%s" % slot)
    if alg and any(v is not None for v in alg.values()):
        obs.count("bck_strict_alg_options_mixed")
    if own:
        obs.count("bck_strict_own_options_given")
    obs.nontrivial = True


# ====================================================================================================== returns_input_leaf
def run_returns_input_leaf(desc, obs, PROBLEMS):
    import xitorch
    name, n, seed = desc["functional"], desc["n"], desc["seed"]
    tg0 = torch.Generator().manual_seed(seed)
    withE = bool(desc.get("withE", 0))

    if name == "solve":
        from xitorch.linalg import solve
        base = {"A": torch.eye(n, dtype=DT), "B": torch.randn(n, 2, generator=tg0, dtype=DT)}
        if withE:
            base["E"] = torch.zeros(2, dtype=DT)
            base["Q"] = torch.randn(n, n, generator=tg0, dtype=DT)
        builtin = "exactsolve"       # (differentiated by torch itself: independent of solve's own backward)

        def call(lv, method):
            A = xitorch.LinearOperator.m(lv["A"] * 1.0 if seed % 2 else lv["A"])
            kw = {}
            if withE:
                Q = lv["Q"]
                M = xitorch.LinearOperator.m(0.5 * (Q + Q.transpose(-2, -1)) / n + 2.0 * torch.eye(n, dtype=DT), is_hermitian=True)
                return [solve(A, lv["B"], lv["E"], M, method=method, bck_options={"method": "exactsolve"}, **kw)]
            return [solve(A, lv["B"], method=method, bck_options={"method": "exactsolve"}, **kw)]
        same = lambda A, B, E=None, M=None, **o: B
        copy = lambda A, B, E=None, M=None, **o: B.clone()
    elif name == "quad":
        from xitorch.integrate import quad
        xl0 = float(torch.randn((), generator=tg0, dtype=DT))
        base = {"a": torch.randn(n, generator=tg0, dtype=DT), "xl": torch.tensor(xl0, dtype=DT), "xu": torch.tensor(xl0 + 1.0, dtype=DT)}
        builtin = "leggauss"

        def call(lv, method):
            f = lambda x, a: a + 0 * x
            return [quad(f, lv["xl"], lv["xu"], params=(lv["a"],), method=method, bck_options={"method": "leggauss", "n": 5})]
        same = lambda fcn, xl, xu, params, **o: params[0]           # integral of a constant over an interval of length one
        copy = lambda fcn, xl, xu, params, **o: params[0].clone()
    elif name == "symeig":
        from xitorch.linalg import symeig
        base = {"d": torch.sort(torch.randn(n, generator=tg0, dtype=DT) + 2.0 * torch.arange(n, dtype=DT))[0]}
        builtin = "exacteig"

        def call(lv, method):
            A = xitorch.LinearOperator.m(torch.diag(lv["d"]) if seed % 2 else torch.diag_embed(lv["d"]), is_hermitian=True)
            ev, vec = symeig(A, neig=2, mode="lowest", method=method, bck_options={"method": "exactsolve"})
            return [ev, torch.matmul(vec, vec.transpose(-2, -1))]
        same = lambda A, neig, mode, M=None, **o: (torch.diagonal(A.fullmatrix())[:neig], torch.eye(A.shape[-1], dtype=DT)[:, :neig])
        copy = lambda A, neig, mode, M=None, **o: (torch.diagonal(A.fullmatrix())[:neig].clone(), torch.eye(A.shape[-1], dtype=DT)[:, :neig])
    elif name == "solve_ivp":
        from xitorch.integrate import solve_ivp
        base = {"y0": torch.randn(n, generator=tg0, dtype=DT), "p": torch.randn(n, generator=tg0, dtype=DT),
                "ts": torch.tensor([0.0, 0.4, 1.1], dtype=DT)}
        builtin = "rk4"

        def call(lv, method):
            f = lambda t, y, p: 0 * p * y
            return [solve_ivp(f, lv["ts"], lv["y0"], params=(lv["p"],), method=method, bck_options={"method": "rk4"})]
        same = lambda fcn, ts, y0, params, **o: y0.unsqueeze(0).expand(len(ts), *y0.shape)     # the state never moves
        copy = lambda fcn, ts, y0, params, **o: y0.unsqueeze(0).expand(len(ts), *y0.shape).clone()
    else:
        raise HarnessBug("returns_input_leaf: no construction for %s" % name)

    def leaves():
        return {k: v.detach().clone().requires_grad_() for k, v in base.items()}
    res = {}
    for label, method in (("builtin", builtin), ("copy", copy), ("same", same)):
        lv = leaves()
        try:
            with WarnLog():
                outs = call(lv, method)
                tg = torch.Generator().manual_seed(seed + 1)
                # a quadratic contraction on top of the random linear one: the second order must see the dependence of the output on the inputs
                outs2 = list(outs) + [o * o for o in outs]
                g1, g2 = _contract_steps(outs2, list(lv.values()), tg)
        except Exception as e:
            if label != "same":
                raise HarnessBug("returns_input_leaf reference %s/%s failed: %s: %s" % (name, label, type(e).__name__, e))
            obs.exc_violation("returns_input_leaf:%s:%s" % (getattr(e, "_c18_order", "forward"), name), e)
            obs.nontrivial = True
            return
        res[label] = ([o.detach() for o in outs], g1, g2)
    # the two references must agree, otherwise the construction is at fault
    for i, (a, b) in enumerate(zip(res["builtin"][1], res["copy"][1])):
        if float((a - b).abs().max()) > 1e-7 * max(1.0, float(a.abs().max())):
            raise HarnessBug("returns_input_leaf %s: built-in and copying callable disagree in the first order" % name)
    mech = "%s%s" % (name, ":E" if (withE and name == "solve") else "")
    for ref in ("copy", "builtin"):
        o_s, g1_s, g2_s = res["same"]
        o_r, g1_r, g2_r = res[ref]
        dist = max(float((a - b).abs().max()) for a, b in zip(o_s, o_r))
        obs.check(dist <= 1e-9, "returns_input_leaf:value:" + mech, "value differs from the %s run by %.2e" % (ref, dist))
        for order, gc, gr in (("grad1", g1_s, g1_r), ("grad2", g2_s, g2_r)):
            if gc is None or gr is None:
                obs.check((gc is None) == (gr is None), "returns_input_leaf:%s_presence:%s" % (order, mech),
                          "%s-order graph present for one of {callable returning its input, %s} only" % (order, ref))
                continue
            sc = max([1.0] + [float(x.abs().max()) for x in gr])
            err = max(float((a - b).abs().max()) for a, b in zip(gc, gr))
            obs.check(err <= 1e-6 * sc, "returns_input_leaf:%s:%s" % (order, mech),
                      "%s with a callable that returns one of its input tensors differs from the %s run by %.3e (scale %.2e)" % (order, ref, err, sc))
    obs.count("returns_input_leaf_compared")
    obs.count("returns_input_leaf_%s" % name)
    obs.nontrivial = True
