"""Extra C09 scenarios (group "history"): the same function object / the same holder objects used over a HISTORY of calls.

* refreeze      - a sibling function is made ONCE (xitorch.make_sibling on the method), then the requires_grad flags of the tensors held by the
                  object are changed (fine-tuning: frozen backbone, later un-frozen) and the same sibling is used again: every stage must agree with
                  the pure-function form given the same values and flags (value, first- and second-order gradients).
* abort_reuse   - a call whose user function raises at its k-th evaluation (in the forward or in the backward pass) is caught, and the whole
                  computation is repeated on the same objects: the repetition must agree with the pure-function form.  (That the objects are left
                  untouched by the failing call is C10's subject; here the observable is the RESULT of the next use.)

Both found missing through seeded changes C09-r3-a / C09-r3-b / C08-r3-a (DESIGN 6b)."""
import random

import torch

from vf import funcs
from vf.common import Obs, sub_seed, WarnLog, HarnessBug

REFREEZE_REPS = ("nn_flat", "nn_nested", "nn_dup", "nn_method_mixed", "nn_tied", "em_flat", "em_container", "em_nn", "em_mixed", "sib_multi_nn",
                 "sib_multi", "sib_multi_plainmid")
ABORT_REPS = ("nn_flat", "nn_nested", "nn_dup", "nn_tied", "em_flat", "em_container", "em_alias", "em_nn_reordered", "em_mixed", "sib_single",
              "sib_single_nn", "sib_multi", "sib_multi_nn", "nn_memalias")
FNAMES = [f for f in funcs.FUNCTIONALS if not f.startswith(("jac", "hess"))] + ["jacsolve:bicgstab", "hesssolve:cg"]


class Injected(Exception):
    pass


SPECIAL_REPS = ("nn_tied", "nn_dup", "pure_dup", "em_alias", "em_alias_pairs", "em_infmask", "em_infbound", "dual_nn_em", "em_memalias")


def delegated_cases(seed, tier, prefixes, tag):
    """cases of C09's own monitors (representation comparison on the special representations; failing call followed by a normal one) restricted
    to the functionals whose names start with one of `prefixes` - used by the checks of the properties that own those functionals"""
    out = []
    k = 0
    fns = [f for f in funcs.FUNCTIONALS if f.split(":")[0] in prefixes]
    for fname in fns:
        for rep in SPECIAL_REPS:
            for r in range(1 if tier == "quick" else 4):
                rng = random.Random(sub_seed(seed, tag, fname, rep, r))
                if tier == "quick" and rng.random() < 0.5:
                    continue
                out.append({"group": "c09rep", "functional": fname, "rep": rep, "derived": (rep not in funcs.NN_REPS) and rng.random() < 0.5, "rg": [1, 1, 1],
                            "d": rng.choice([2, 3, 4]), "s": rng.choice([0.3, 0.4]), "seed": sub_seed(seed, tag + "s", k)})
                k += 1
        for j, rep in enumerate(ABORT_REPS):
            if (j + len(fname)) % 4 != 0 and tier == "quick":
                continue
            rng = random.Random(sub_seed(seed, tag + "a", fname, rep))
            out.append({"group": "c09abort", "kind": "abort_reuse", "functional": fname, "rep": rep, "phase": rng.choice(["fwd", "bwd", "bwd", "bwd2"]),
                        "kfrac": rng.random(), "d": rng.choice([2, 3]), "s": 0.4, "seed": sub_seed(seed, tag + "as", k)})
            k += 1
    return out


def run_delegated(desc):
    if desc["group"] == "c09abort":
        return run_abort(desc)
    from vf.props import c09
    return c09.run_case(dict(desc, group=desc["functional"].split(":")[0]))


def cases(seed, tier):
    out = []
    k = 0
    fn = sorted(set(FNAMES))
    reps = 1 if tier == "quick" else 6
    for fname in fn:
        for r in range(reps):
            for j, rep in enumerate(REFREEZE_REPS):
                if tier == "quick" and (j + len(fname)) % 3 != 0:
                    continue
                rng = random.Random(sub_seed(seed, "c09hx", fname, rep, r))
                rgA = [rng.random() < 0.5 for _ in range(3)]
                if all(rgA):
                    rgA[rng.randrange(3)] = False
                if not any(rgA):
                    rgA[rng.randrange(3)] = True
                rgB = [True, True, True] if rng.random() < 0.6 else [not x for x in rgA]
                out.append({"group": "history", "kind": "refreeze", "functional": fname, "rep": rep, "rgA": [int(x) for x in rgA], "rgB": [int(x) for x in rgB],
                            "d": rng.choice([2, 3, 7]), "s": 0.4, "seed": sub_seed(seed, "c09hs", k)})
                k += 1
            for j, rep in enumerate(ABORT_REPS):
                if tier == "quick" and (j + len(fname)) % 3 != 1:
                    continue
                rng = random.Random(sub_seed(seed, "c09ha", fname, rep, r))
                out.append({"group": "history", "kind": "abort_reuse", "functional": fname, "rep": rep, "phase": rng.choice(["fwd", "bwd", "bwd", "bwd2"]),
                            "kfrac": rng.random(), "d": rng.choice([2, 3, 7]), "s": 0.4, "seed": sub_seed(seed, "c09hs", k)})
                k += 1
    # one object, two calls with the holders REBOUND in between, and only then one backward pass through both results
    for fname in fn:
        for j, holder in enumerate(("list", "dict", "subobject", "nnmodule", "attribute")):
            for r in range(reps):
                if tier == "quick" and (j + len(fname)) % 2 != 0:
                    continue
                rng = random.Random(sub_seed(seed, "c09hl", fname, holder, r))
                out.append({"group": "history", "kind": "late_backward", "functional": fname, "rep": "rebind_" + holder, "holder": holder,
                            "d": rng.choice([2, 3, 7]), "s": 0.4, "seed": sub_seed(seed, "c09hs", k)})
                k += 1
    # a user-held sibling (made ONCE) used again after the object was given other tensors / another sharing of tensors between its slots
    for fname in fn:
        for j, mode in enumerate(("rebind", "split", "merge")):
            for r in range(reps):
                if tier == "quick" and (j + len(fname)) % 2 != 0:
                    continue
                rng = random.Random(sub_seed(seed, "c09hb", fname, mode, r))
                out.append({"group": "history", "kind": "sibling_rebind", "functional": fname, "rep": "sibling_" + mode, "mode": mode,
                            "late": rng.random() < 0.5, "d": rng.choice([2, 3, 7]), "s": 0.4, "seed": sub_seed(seed, "c09hs", k)})
                k += 1
    return out


def _outs(o):
    return list(o) if isinstance(o, (tuple, list)) else [o]


def _grads(outs, leaves, cots, cots2, second=True):
    L = sum((o * c).sum() for o, c in zip(outs, cots))
    req = [l for l in leaves if l.requires_grad]
    if not req or not (isinstance(L, torch.Tensor) and L.requires_grad):
        return {}, {}
    g = torch.autograd.grad(L, req, create_graph=second, allow_unused=True)
    g1 = {id(l): (torch.zeros_like(l) if gi is None else gi) for gi, l in zip(g, req)}
    g2 = {}
    if second:
        L2 = sum((g1[id(l)] * c).sum() for l, c in zip(leaves, cots2) if id(l) in g1 and g1[id(l)].requires_grad)
        if isinstance(L2, torch.Tensor) and L2.requires_grad:
            gg = torch.autograd.grad(L2, req, allow_unused=True)
            g2 = {id(l): (torch.zeros_like(l) if gi is None else gi.detach()) for gi, l in zip(gg, req)}
    return {k: v.detach() for k, v in g1.items()}, g2


def _compare(obs, mech, stage, tol, outs_ref, outs, leaves_ref, leaves, gref, g):
    scale = max(1.0, max(float(o.detach().abs().max()) for o in outs_ref))
    verr = max(float((a.detach() - b.detach()).abs().max()) for a, b in zip(outs_ref, outs))
    obs.check(verr <= tol * scale, "history:value:%s:%s" % (stage, mech), "value differs from the pure-function form by %.3e (%s)" % (verr, stage))
    for order, (gr, gx), fac in zip(("grad1", "grad2"), zip(gref, g), (1.0, 10.0)):
        if not gr and not gx:
            continue
        gs = max([1.0] + [float(v.abs().max()) for v in gr.values()])
        for nm, lr, lx in zip(funcs.LEAF_NAMES, leaves_ref, leaves):
            a = gr.get(id(lr))
            b = gx.get(id(lx))
            if a is None and b is None:
                continue
            a = torch.zeros_like(lr) if a is None else a
            b = torch.zeros_like(lx) if b is None else b
            err = float((a - b).abs().max())
            obs.check(err <= fac * tol * gs, "history:%s:%s:%s" % (order, stage, mech),
                      "%s w.r.t. leaf %s differs from the pure-function form by %.3e (%s; requires_grad=%s)" % (order, nm, err, stage, lx.requires_grad), leaf=nm)
        obs.count("history_%s_compared" % order)


def run_case(desc):
    if desc["kind"] == "refreeze":
        return run_refreeze(desc)
    if desc["kind"] == "late_backward":
        return run_late(desc)
    if desc["kind"] == "sibling_rebind":
        return run_sibling_rebind(desc)
    return run_abort(desc)


def run_sibling_rebind(desc):
    """one EditableModule with slots a, a2, b, W (the function uses 0.5 (a + a2)); a sibling of its method is made once; the object is then given a
    second generation of tensors (mode rebind), or the sharing between a and a2 changes (split: one tensor -> two; merge: two -> one); the same
    sibling is used again.  With `late` the first result is differentiated only after the change."""
    import xitorch
    obs = Obs(desc)
    fname, mode, d, s = desc["functional"], desc["mode"], desc["d"], desc["s"]
    dtype = torch.float64
    tg = torch.Generator().manual_seed(desc["seed"])
    F = funcs.FUNCTIONALS[fname]
    mech = "%s:sibling_%s%s" % (fname, mode, ":late" if desc["late"] else "")
    tol = 1e-6 if F.iterative else 1e-8
    core, nlead = F.core, F.nlead

    class E(xitorch.EditableModule):
        def __init__(self, a, a2, b, W):
            self.a, self.a2, self.b, self.W = a, a2, b, W

        def fwd(self, *lead):
            return core(*lead, 0.5 * (self.a + self.a2), self.b, self.W, s)

        def getparamnames(self, methodname, prefix=""):
            return [prefix + "a", prefix + "a2", prefix + "b", prefix + "W"]

    def pure(*args):
        lead, (pa, pa2, pb, pW) = args[:nlead], args[nlead:]
        return core(*lead, 0.5 * (pa + pa2), pb, pW, s)

    def generations(l):
        a, b, W = funcs.effective(l, True)
        other = 1.1 * a + 0.3
        if mode == "rebind":
            return [(a, a, b, W), (other, other, b + 0.05, W * 0.9)]
        if mode == "split":
            return [(a, a, b, W), (a, other, b, W)]
        return [(a, other, b, W), (a, a, b, W)]
    lv = {k: v.detach().clone().requires_grad_() for k, v in funcs.make_leaves(d, tg, dtype).items()}
    lv_ref = {k: v.detach().clone().requires_grad_() for k, v in lv.items()}
    leaves, leaves_ref = [lv[k] for k in funcs.LEAF_NAMES], [lv_ref[k] for k in funcs.LEAF_NAMES]
    try:
        with WarnLog():
            outs_ref = []
            for g_ in generations(lv_ref):
                outs_ref += _outs(F.run(funcs.Built(pure, g_, [], ()), d, dtype, None))
    except Exception as e:
        raise HarnessBug("reference run failed for %s: %s: %s" % (fname, type(e).__name__, e))
    cots = [torch.randn(o.shape, generator=tg, dtype=dtype) for o in outs_ref]
    cots2 = [torch.randn(l.shape, generator=tg, dtype=dtype) for l in leaves]
    nout1 = len(outs_ref) // 2
    gens = generations(lv)
    obj = E(*gens[0])

    @xitorch.make_sibling(obj.fwd)
    def sib(*lead):
        return obj.fwd(*lead) * 1.0
    built = funcs.Built(sib, (), [("e", obj)], ())
    try:
        with WarnLog():
            outs1 = _outs(F.run(built, d, dtype, None))
            obj.a, obj.a2, obj.b, obj.W = gens[1]
            outs2 = _outs(F.run(built, d, dtype, None))
            held_ok = obj.a is gens[1][0] and obj.a2 is gens[1][1] and obj.b is gens[1][2] and obj.W is gens[1][3]
            if desc["late"]:
                outs = outs1 + outs2
                g = _grads(outs, leaves, cots, cots2)
                held_ok = held_ok and obj.a is gens[1][0] and obj.a2 is gens[1][1]
            else:
                g = _grads(outs2, leaves, cots[nout1:], cots2)
    except Exception as e:
        obs.exc_violation("history:sibling_rebind:" + mech, e)
        obs.nontrivial = True
        return obs.result()
    obs.check(held_ok and obj.a is gens[1][0] and obj.a2 is gens[1][1], "history:object_changed:" + mech,
              "after the calls the object does not hold the tensors assigned to it last (a kept: %s, a2 kept: %s)" % (obj.a is gens[1][0], obj.a2 is gens[1][1]))
    if desc["late"]:
        gref = _grads(outs_ref, leaves_ref, cots, cots2)
        _compare(obs, mech, "sibling_reused", tol, outs_ref, outs1 + outs2, leaves_ref, leaves, gref, g)
    else:
        gref = _grads(outs_ref[nout1:], leaves_ref, cots[nout1:], cots2)
        _compare(obs, mech, "sibling_reused", tol, outs_ref[nout1:], outs2, leaves_ref, leaves, gref, g)
    obs.count("sibling_rebind_compared")
    obs.nontrivial = True
    return obs.result()


def run_late(desc):
    """call 1 on generation-1 tensors, holders rebound to generation 2, call 2, then ONE backward through both results: the first result must be
    differentiated for the tensors the object held at ITS call"""
    from vf.props import c09
    obs = Obs(desc)
    fname, holder, d, s = desc["functional"], desc["holder"], desc["d"], desc["s"]
    dtype = torch.float64
    tg = torch.Generator().manual_seed(desc["seed"])
    F = funcs.FUNCTIONALS[fname]
    mech = "%s:late_%s" % (fname, holder)
    tol = 1e-6 if F.iterative else 1e-8
    lv = {k: v.detach().clone().requires_grad_() for k, v in funcs.make_leaves(d, tg, dtype).items()}
    lv_ref = {k: v.detach().clone().requires_grad_() for k, v in lv.items()}

    def gens(l):
        a, b, W = funcs.effective(l, True)
        return (a * 1.1, b + 0.05, W * 0.9), funcs.effective(l, True)
    try:
        with WarnLog():
            outs_ref = []
            for g_ in gens(lv_ref):
                outs_ref += _outs(F.run(funcs.build("pure", F.core, F.nlead, g_, s), d, dtype, None))
    except Exception as e:
        raise HarnessBug("reference run failed for %s: %s: %s" % (fname, type(e).__name__, e))
    obj = c09._rebind_object(holder, F.core, F.nlead, s)
    built = funcs.Built(obj.fwd, (), [("e", obj)], ())
    leaves, leaves_ref = [lv[k] for k in funcs.LEAF_NAMES], [lv_ref[k] for k in funcs.LEAF_NAMES]
    cots = [torch.randn(o.shape, generator=tg, dtype=dtype) for o in outs_ref]
    cots2 = [torch.randn(l.shape, generator=tg, dtype=dtype) for l in leaves]
    gref = _grads(outs_ref, leaves_ref, cots, cots2)
    try:
        with WarnLog():
            outs = []
            for g_ in gens(lv):
                obj.rebind(*g_)
                outs += _outs(F.run(built, d, dtype, None))
            g = _grads(outs, leaves, cots, cots2)
    except Exception as e:
        obs.exc_violation("history:late_backward:" + mech, e)
        obs.nontrivial = True
        return obs.result()
    _compare(obs, mech, "late_backward", tol, outs_ref, outs, leaves_ref, leaves, gref, g)
    obs.count("late_backward_compared")
    obs.nontrivial = True
    return obs.result()


def _reference(F, lv, d, s, dtype, cots_gen):
    built = funcs.build("pure", F.core, F.nlead, funcs.effective(lv, False), s)
    with WarnLog():
        outs = _outs(F.run(built, d, dtype, None))
    return outs


def run_refreeze(desc):
    import xitorch
    obs = Obs(desc)
    fname, rep, d, s = desc["functional"], desc["rep"], desc["d"], desc["s"]
    dtype = torch.float64
    tg = torch.Generator().manual_seed(desc["seed"])
    F = funcs.FUNCTIONALS[fname]
    mech = "%s:%s" % (fname, rep)
    tol = 1e-6 if F.iterative else 1e-8
    as_param = rep in funcs.NN_REPS
    lv = funcs.make_leaves(d, tg, dtype, rg=desc["rgA"], as_parameter=True)
    if not as_param:
        lv = {k: v.detach().clone().requires_grad_(v.requires_grad) for k, v in lv.items()}
    inner = funcs.build(rep, F.core, F.nlead, funcs.effective(lv, False), s)

    # the sibling is made ONCE, while some tensors are frozen
    @xitorch.make_sibling(inner.fcn)
    def sib(*args):
        return inner.fcn(*args) * 1.0
    built = funcs.Built(sib, inner.params, inner.objs, inner.tensor_param_idx)
    leaves = [lv[k] for k in funcs.LEAF_NAMES]
    for stage, flags in (("stageA", desc["rgA"]), ("stageB", desc["rgB"]), ("stageC", desc["rgA"])):
        for l, f in zip(leaves, flags):
            l.requires_grad_(bool(f))
        lv_ref = {k: v.detach().clone().requires_grad_(v.requires_grad) for k, v in lv.items()}
        leaves_ref = [lv_ref[k] for k in funcs.LEAF_NAMES]
        try:
            outs_ref = _reference(F, lv_ref, d, s, dtype, tg)
        except Exception as e:
            raise HarnessBug("reference run failed for %s: %s: %s" % (fname, type(e).__name__, e))
        cots = [torch.randn(o.shape, generator=tg, dtype=dtype) for o in outs_ref]
        cots2 = [torch.randn(l.shape, generator=tg, dtype=dtype) for l in leaves_ref]
        gref = _grads(outs_ref, leaves_ref, cots, cots2)
        try:
            with WarnLog():
                outs = _outs(F.run(built, d, dtype, None))
                g = _grads(outs, leaves, cots, cots2)
        except Exception as e:
            obs.exc_violation("history:refreeze:%s:%s" % (stage, mech), e)
            obs.nontrivial = True
            return obs.result()
        _compare(obs, "refreeze:" + mech, stage, tol, outs_ref, outs, leaves_ref, leaves, gref, g)
        obs.count("refreeze_stages")
    obs.nontrivial = True
    return obs.result()


def run_abort(desc):
    obs = Obs(desc)
    fname, rep, d, s = desc["functional"], desc["rep"], desc["d"], desc["s"]
    dtype = torch.float64
    tg = torch.Generator().manual_seed(desc["seed"])
    F = funcs.FUNCTIONALS[fname]
    mech = "%s:%s:%s" % (fname, rep, desc["phase"])
    tol = 1e-6 if F.iterative else 1e-8
    state = {"n": 0, "raise_at": None}
    core0 = F.core

    def core(*a):
        state["n"] += 1
        if state["raise_at"] is not None and state["n"] == state["raise_at"]:
            raise Injected("injected failure at evaluation %d" % state["n"])
        return core0(*a)
    as_param = rep in funcs.NN_REPS
    lv = funcs.make_leaves(d, tg, dtype, as_parameter=True)
    if not as_param:
        lv = {k: v.detach().clone().requires_grad_() for k, v in lv.items()}
    built = funcs.build(rep, core, F.nlead, funcs.effective(lv, False), s)
    leaves = [lv[k] for k in funcs.LEAF_NAMES]
    lv_ref = {k: v.detach().clone().requires_grad_() for k, v in lv.items()}
    leaves_ref = [lv_ref[k] for k in funcs.LEAF_NAMES]
    try:
        outs_ref = _reference(F, lv_ref, d, s, dtype, tg)
    except Exception as e:
        raise HarnessBug("reference run failed for %s: %s: %s" % (fname, type(e).__name__, e))
    cots = [torch.randn(o.shape, generator=tg, dtype=dtype) for o in outs_ref]
    cots2 = [torch.randn(l.shape, generator=tg, dtype=dtype) for l in leaves_ref]
    gref = _grads(outs_ref, leaves_ref, cots, cots2)

    def full():
        marks = {}
        with WarnLog():
            outs = _outs(F.run(built, d, dtype, None))
            marks["fwd"] = state["n"]
            L = sum((o * c).sum() for o, c in zip(outs, cots))
            g = torch.autograd.grad(L, leaves, create_graph=True, allow_unused=True)
            marks["bwd"] = state["n"]
            L2 = sum((gi * c).sum() for gi, c in zip(g, cots2) if gi is not None and gi.requires_grad)
            if isinstance(L2, torch.Tensor) and L2.requires_grad:
                torch.autograd.grad(L2, leaves, allow_unused=True)
            marks["bwd2"] = state["n"]
        return marks
    # ---- run 1: count the evaluations of each phase
    try:
        state["n"] = 0
        marks = full()
    except Exception as e:
        obs.exc_violation("history:abort:clean_run:" + mech, e)
        obs.nontrivial = True
        return obs.result()
    lo = {"fwd": 0, "bwd": marks["fwd"], "bwd2": marks["bwd"]}[desc["phase"]]
    hi = marks[desc["phase"]]
    if hi <= lo:
        obs.skip("no evaluation of the user function in phase %s" % desc["phase"])
        return obs.result()
    k = lo + 1 + int(desc["kfrac"] * (hi - lo - 1e-9))
    # ---- run 2: the k-th evaluation raises; the caller catches it
    state["n"], state["raise_at"] = 0, k
    raised = False
    try:
        full()
    except Injected:
        raised = True
    except Exception as e:
        # another exception type may legitimately wrap the user's; anything else from xitorch on top of an injected failure is noted only
        raised = "injected failure" in str(e) or state["n"] >= k
        obs.note(wrapped_exception="%s: %s" % (type(e).__name__, str(e)[:120]))
    state["raise_at"] = None
    if not raised:
        obs.skip("the injected failure was not reached (evaluation %d of %d)" % (k, marks["bwd2"]))
        return obs.result()
    obs.count("abort_injected_%s" % desc["phase"])
    # ---- run 3: the same objects are used again
    try:
        with WarnLog():
            outs = _outs(F.run(built, d, dtype, None))
            g = _grads(outs, leaves, cots, cots2)
    except Exception as e:
        obs.exc_violation("history:abort:reuse:" + mech, e)
        obs.nontrivial = True
        return obs.result()
    _compare(obs, "abort:" + mech, "reuse", tol, outs_ref, outs, leaves_ref, leaves, gref, g)
    obs.count("abort_reuse_compared")
    obs.nontrivial = True
    return obs.result()
