"""Extra C08 scenarios (added after seeded changes C08-a / C08-b were missed by the family-based workload):

* ``switch``   - a right-hand side with Python control flow on t that uses one tensor only on part of the time range
                 (dy/dt = -(a + b*[t < tc]) y): every tensor that enters the dynamics *somewhere* must get its sensitivity, whatever
                 the right-hand side looks like at the last requested time;
* ``sharedbck`` - a history: ONE ``bck_options`` dict (tolerances only, no method) reused over several solve_ivp calls with
                 different forward methods; the gradients of every call must be those of its own forward / documented backward
                 configuration (and the caller's dict must still say what the caller put there)."""
import math
import random

import torch

from vf.common import Obs, sub_seed

DT = torch.float64


def cases(seed, tier):
    out = []
    k = 0
    nsw = 60 if tier == "quick" else 500
    for i in range(nsw):
        rng = random.Random(sub_seed(seed, "c08x", i))
        out.append({"group": "extra", "kind": "switch", "seed": sub_seed(seed, "c08xs", i), "method": ["rk45", "rk45", "rk23", "rk45"][i % 4],
                    "holder": ["explicit", "nn", "em"][(i // 4) % 3], "decreasing": rng.random() < 0.4, "nt": rng.choice([2, 3, 5]),
                    "where": rng.choice(["early", "middle", "late"]), "cot": rng.choice(["last", "all", "cancel"]), "order": 2 if i % 5 == 4 else 1,
                    "cg": i % 2, "dead": i % 3 == 2})
    nsh = 24 if tier == "quick" else 200
    for i in range(nsh):
        rng = random.Random(sub_seed(seed, "c08y", i))
        out.append({"group": "extra", "kind": "sharedbck", "seed": sub_seed(seed, "c08ys", i),
                    "first": ["euler", "rk4", "euler", "rk23"][i % 4], "preview_nograd": i % 3 != 2, "decreasing": rng.random() < 0.4,
                    "ncalls": rng.choice([2, 3])})
    # long horizons in units of the contraction rate (rate x T = 15 .. 40) with many requested times: the backward pass must restart from the
    # STORED forward state at every requested time (re-integrating y backwards over the whole span amplifies errors like exp(rate x T))
    nst = 20 if tier == "quick" else 160
    for i in range(nst):
        rng = random.Random(sub_seed(seed, "c08w", i))
        out.append({"group": "extra", "kind": "long_horizon", "seed": sub_seed(seed, "c08ws", i), "method": ["rk45", "rk45", "rk23", "rk4"][i % 4],
                    "rate": rng.choice([6.0, 8.0, 10.0]), "T": rng.choice([2.5, 3.0, 4.0]), "nt": rng.choice([11, 21, 41]), "decreasing": rng.random() < 0.3,
                    "cot": rng.choice(["all", "one_interior", "last"]), "bck": rng.choice(["same", "rk23", "rk45"])})
    nab = 36 if tier == "quick" else 300
    for i in range(nab):
        rng = random.Random(sub_seed(seed, "c08z", i))
        out.append({"group": "extra", "kind": "abort_reuse", "seed": sub_seed(seed, "c08zs", i), "method": ["rk45", "rk4", "rk23", "euler", "rk38"][i % 5],
                    "holder": ["nn", "em", "nn_nested"][(i // 5) % 3], "decreasing": rng.random() < 0.4, "nt": rng.choice([2, 3, 5]),
                    "phase": rng.choice(["fwd", "bwd", "bwd", "bwd_cg"]), "kfrac": rng.random()})
    return out


def _grid(rng, nt, decreasing, t0=None, T=None):
    t0 = rng.uniform(-0.5, 0.5) if t0 is None else t0
    T = rng.uniform(0.6, 1.4) if T is None else T
    fr = sorted([0.0, 1.0] + [rng.uniform(0.1, 0.9) for _ in range(nt - 2)])
    ts = [t0 + T * f for f in fr]
    if decreasing:
        ts = [t0 + T - (t - t0) for t in ts]
    return ts, t0, T


def run_switch(desc):
    import xitorch
    from xitorch.integrate import solve_ivp
    obs = Obs(desc)
    rng = random.Random(desc["seed"])
    tg = torch.Generator().manual_seed(desc["seed"])
    ts_l, t0, T = _grid(rng, desc["nt"], desc["decreasing"])
    # the switching time lies strictly inside the covered range and away from every requested time
    lo, hi = min(ts_l), max(ts_l)
    for _ in range(50):
        frac = {"early": rng.uniform(0.1, 0.3), "middle": rng.uniform(0.4, 0.6), "late": rng.uniform(0.7, 0.9)}[desc["where"]]
        tc = lo + frac * (hi - lo)
        if min(abs(tc - t) for t in ts_l) > 0.03 * (hi - lo):
            break
    m = 2
    a = (0.3 + torch.rand(m, generator=tg, dtype=DT)).requires_grad_()
    b = (0.5 + torch.rand(m, generator=tg, dtype=DT)).requires_grad_()
    y0 = (0.5 + torch.rand(m, generator=tg, dtype=DT)).requires_grad_()
    ts = torch.tensor(ts_l, dtype=DT)
    ncall = [0]

    def rhs(t, y, pa, pb):
        ncall[0] += 1
        if float(t) < tc:            # python control flow on t: the tensor pb is used only before the switching time
            return -(pa + pb) * y
        if desc.get("dead"):
            return torch.zeros_like(y)      # switched off: this evaluation depends on none of t, y and the parameters
        return -pa * y

    holder = desc["holder"]
    if holder == "explicit":
        fcn, params = rhs, (a, b)
    elif holder == "nn":
        class M(torch.nn.Module):
            def __init__(self, a, b):
                super().__init__()
                self.a, self.b = torch.nn.Parameter(a.detach().clone()), torch.nn.Parameter(b.detach().clone())

            def forward(self, t, y):
                return rhs(t, y, self.a, self.b)
        mod = M(a, b)
        a, b = mod.a, mod.b
        fcn, params = mod.forward, ()
    else:
        class E(xitorch.EditableModule):
            def __init__(self, a, b):
                self.a, self.held = a, [b]

            def forward(self, t, y):
                return rhs(t, y, self.a, self.held[0])

            def getparamnames(self, methodname, prefix=""):
                return [prefix + "a", prefix + "held[0]"]
        mod = E(a, b)
        fcn, params = mod.forward, ()
    method = desc["method"]
    mech = "switch%s:%s:%s:%s" % ("_dead" if desc.get("dead") else "", method, holder, "dec" if desc["decreasing"] else "inc")
    if method == "rk4":
        # fixed step: refine the grid so that the discretisation error is far below the tolerance; the switching time is made a grid point
        fine = []
        for i in range(len(ts_l) - 1):
            seg = [ts_l[i] + (ts_l[i + 1] - ts_l[i]) * j / 40 for j in range(40)]
            fine += seg
        fine.append(ts_l[-1])
        fine = sorted(set(fine + [tc]), reverse=desc["decreasing"])
        ts_run = torch.tensor(fine, dtype=DT)
        idx = [min(range(len(fine)), key=lambda j: abs(fine[j] - t)) for t in ts_l]
        opts = {}
        tol = 2e-3
    else:
        ts_run, idx = ts, list(range(len(ts_l)))
        opts = {"atol": 1e-10, "rtol": 1e-10} if method == "rk45" else {"atol": 1e-9, "rtol": 1e-9}
        tol = 3e-6 if method == "rk45" else 1e-4

    def exact(y0_, a_, b_):
        def cum(t):     # int_{ts[0]}^{t} [s < tc] ds
            return min(t, tc) - min(ts_l[0], tc)
        if desc.get("dead"):
            rows = [y0_ * torch.exp(-(a_ + b_) * cum(t)) for t in ts_l]
        else:
            rows = [y0_ * torch.exp(-a_ * (t - ts_l[0]) - b_ * cum(t)) for t in ts_l]
        return torch.stack(rows)
    try:
        yt = solve_ivp(fcn, ts_run, y0, params=params, method=method, **opts)[idx]
    except Exception as e:
        obs.exc_violation("forward:" + mech, e)
        obs.nontrivial = True
        return obs.result()
    ref = exact(y0, a, b)
    verr = float((yt.detach() - ref.detach()).abs().max())
    obs.check(verr <= tol, "value:" + mech, "trajectory differs from the closed form by %.3e" % verr)
    C = torch.randn(ref.shape, generator=tg, dtype=DT)
    if desc["cot"] == "last":
        C[:-1] = 0
    elif desc["cot"] == "cancel":
        C = torch.zeros_like(C)          # entries cancelling exactly at every time: L = sum_t (y_0(t) - y_1(t))
        C[:, 0], C[:, 1] = 1.0, -1.0
    leaves = [y0, a, b]
    names = ["y0", "a", "b_used_only_before_tc"]
    n_before = ncall[0]
    try:
        g = torch.autograd.grad((yt * C).sum(), leaves, create_graph=bool(desc["cg"] or desc["order"] == 2), allow_unused=True)
    except Exception as e:
        obs.exc_violation("backward:" + mech, e)
        obs.nontrivial = True
        return obs.result()
    obs.count("rhs_calls_backward", ncall[0] - n_before)
    gr = torch.autograd.grad((ref * C).sum(), leaves, create_graph=desc["order"] == 2)
    scale = max(float(x.abs().max()) for x in gr)
    for nme, gi, ri in zip(names, g, gr):
        gi = torch.zeros_like(ri) if gi is None else gi
        err = float((gi.detach() - ri.detach()).abs().max())
        obs.check(err <= tol * 10 * max(scale, 1e-3), "grad1:%s:%s" % (nme, mech),
                  "dL/d%s differs from the closed-form sensitivity by %.3e (largest sensitivity %.3e; tc=%.3f inside [%g, %g])" % (nme, err, scale, tc, lo, hi))
    obs.count("switch_gradients_compared", 3)
    if desc["order"] == 2 and method != "rk4":
        V = [torch.randn(x.shape, generator=tg, dtype=DT) for x in leaves]
        g = [torch.zeros_like(l) if gi is None else gi for gi, l in zip(g, leaves)]
        L2 = sum((gi * v).sum() for gi, v in zip(g, V) if gi.requires_grad)
        L2r = sum((ri * v).sum() for ri, v in zip(gr, V))
        try:
            gg = torch.autograd.grad(L2, leaves, allow_unused=True) if isinstance(L2, torch.Tensor) and L2.requires_grad else [None] * 3
        except Exception as e:
            obs.exc_violation("backward2:" + mech, e)
            obs.nontrivial = True
            return obs.result()
        ggr = torch.autograd.grad(L2r, leaves, allow_unused=True)
        sc2 = max(float(x.abs().max()) for x in ggr if x is not None)
        for nme, gi, ri, l in zip(names, gg, ggr, leaves):
            gi = torch.zeros_like(l) if gi is None else gi
            ri = torch.zeros_like(l) if ri is None else ri
            err = float((gi - ri).abs().max())
            obs.check(err <= 100 * tol * max(sc2, 1e-3), "grad2:%s:%s" % (nme, mech), "second-order gradient w.r.t. %s differs by %.3e (scale %.3e)" % (nme, err, sc2))
        obs.count("switch_second_order_compared", 3)
    obs.nontrivial = True
    return obs.result()


def run_sharedbck(desc):
    from xitorch.integrate import solve_ivp
    obs = Obs(desc)
    rng = random.Random(desc["seed"])
    tg = torch.Generator().manual_seed(desc["seed"])
    shared = {"atol": 1e-10, "rtol": 1e-10}          # the caller's dict: tolerances only, reused for every call
    snapshot = dict(shared)
    r = (0.8 + torch.rand((), generator=tg, dtype=DT)).requires_grad_()
    K = (1.0 + torch.rand((), generator=tg, dtype=DT)).requires_grad_()
    y0 = (0.2 + 0.5 * torch.rand(2, generator=tg, dtype=DT)).requires_grad_()
    f = lambda t, y, r_, K_: r_ * y * (1 - y / K_)         # logistic

    def exact(tsv, y0_, r_, K_):
        return torch.stack([K_ / (1 + (K_ / y0_ - 1) * torch.exp(-r_ * (t - tsv[0]))) for t in tsv])
    methods = [desc["first"]] + ["rk45"] * (desc["ncalls"] - 1)
    for ci, method in enumerate(methods):
        ts_l, _, _ = _grid(rng, 4, desc["decreasing"], T=rng.uniform(0.8, 1.6))
        ts = torch.tensor(ts_l, dtype=DT)
        mech = "sharedbck:call%d_%s_after_%s" % (min(ci, 1), method, methods[ci - 1] if ci else "nothing")
        opts = {"atol": 1e-10, "rtol": 1e-10} if method in ("rk45", "rk23") else {}
        try:
            if ci == 0 and desc["preview_nograd"]:
                with torch.no_grad():
                    solve_ivp(f, ts, y0, params=(r, K), method=method, bck_options=shared, **opts)
                continue
            yt = solve_ivp(f, ts, y0, params=(r, K), method=method, bck_options=shared, **opts)
            g = torch.autograd.grad(yt[-1].sum() + 0.3 * yt.sum(), [y0, r, K])
        except Exception as e:
            obs.exc_violation(mech, e)
            continue
        if method != "rk45":
            continue        # a coarse fixed-step forward is not compared with the closed form
        ref = exact(ts_l, y0, r, K)
        gr = torch.autograd.grad(ref[-1].sum() + 0.3 * ref.sum(), [y0, r, K])
        sc = max(float(x.abs().max()) for x in gr)
        for nme, gi, ri in zip(("y0", "r", "K"), g, gr):
            err = float((gi - ri).abs().max())
            obs.check(err <= 1e-5 * max(sc, 1e-3), "grad1:%s:%s" % (nme, mech),
                      "rk45 at 1e-10 with a bck_options dict that was used before with method %s: dL/d%s off by %.3e (scale %.3e)"
                      % (methods[ci - 1] if ci else "-", nme, err, sc))
        obs.count("sharedbck_gradients_compared", 3)
    # observation only (the property does not speak about the caller's dict): was it modified?
    obs.note(callers_dict_modified=(shared != snapshot))
    if shared != snapshot:
        obs.count("callers_bck_options_dict_modified")
    obs.nontrivial = True
    return obs.result()


def run_long_horizon(desc):
    """logistic growth dy/dt = r y (1 - y): closed form y(t) = 1 / (1 + (1/y0 - 1) exp(-r (t - t0))); gradients w.r.t. y0, r and every time"""
    from xitorch.integrate import solve_ivp
    obs = Obs(desc)
    rng = random.Random(desc["seed"])
    tg = torch.Generator().manual_seed(desc["seed"])
    r0, T, nt, method = desc["rate"], desc["T"], desc["nt"], desc["method"]
    t0 = rng.uniform(-0.3, 0.3)
    ts_l = [t0 + T * k / (nt - 1) for k in range(nt)]
    y0v = torch.tensor([rng.uniform(0.02, 0.1), rng.uniform(0.3, 0.6)], dtype=DT)
    sgn = 1.0
    if desc["decreasing"]:
        # decreasing times with the sign of the right-hand side flipped: still contracting in the direction of integration
        ts_l = ts_l[::-1]
        sgn = -1.0
    r = torch.tensor(r0, dtype=DT, requires_grad=True)
    y0 = y0v.clone().requires_grad_()
    ts = torch.tensor(ts_l, dtype=DT, requires_grad=True)
    fixed = method == "rk4"
    opts = {} if fixed else dict(rtol=1e-9, atol=1e-11)
    bck = {}
    if desc["bck"] != "same" and not fixed:
        bck = dict(method=desc["bck"], rtol=1e-9, atol=1e-11)
    C = torch.zeros(nt, 2, dtype=DT)
    if desc["cot"] == "all":
        C = torch.randn(nt, 2, generator=tg, dtype=DT)
    elif desc["cot"] == "one_interior":
        C[rng.randrange(1, nt - 1)] = torch.randn(2, generator=tg, dtype=DT)
    else:
        C[-1] = torch.randn(2, generator=tg, dtype=DT)
    mech = "long_horizon:%s:%s:%s" % (method, desc["cot"], "dec" if desc["decreasing"] else "inc")
    if fixed:
        # a fixed-step scheme on this grid is only compared with itself on a refined grid: here, with the adaptive reference at loose tolerance
        obs.skip("fixed-step schemes are not accurate enough on this grid for a closed-form comparison")
        return obs.result()
    try:
        yt = solve_ivp(lambda t, y, rr: sgn * rr * y * (1.0 - y), ts, y0, params=(r,), method=method, bck_options=bck, **opts)
        g = torch.autograd.grad((yt * C).sum(), (y0, r, ts), allow_unused=True)
    except Exception as e:
        obs.exc_violation("extra:" + mech, e)
        obs.nontrivial = True
        return obs.result()
    y02, r2, ts2 = y0.detach().clone().requires_grad_(), r.detach().clone().requires_grad_(), ts.detach().clone().requires_grad_()
    yref = 1.0 / (1.0 + (1.0 / y02 - 1.0) * torch.exp(-sgn * r2 * (ts2.unsqueeze(-1) - ts2[0])))
    gr = torch.autograd.grad((yref * C).sum(), (y02, r2, ts2), allow_unused=True)
    verr = float((yt.detach() - yref.detach()).abs().max())
    obs.check(verr <= 1e-6, "extra:value:" + mech, "trajectory differs from the closed form by %.3e" % verr)
    for nm, gi, ri, leaf in zip(("y0", "r", "ts"), g, gr, (y0, r, ts)):
        gi = torch.zeros_like(leaf) if gi is None else gi
        ri = torch.zeros_like(leaf) if ri is None else ri
        err = float((gi - ri).abs().max())
        sc = 1.0 + float(ri.abs().max())
        obs.check(err <= 1e-5 * sc, "extra:grad:%s:%s" % (nm, mech),
                  "gradient w.r.t. %s over a horizon of rate x T = %.0f with %d requested times differs from the closed form by %.3e (scale %.2e)" % (nm, r0 * T, nt, err, sc))
    obs.count("long_horizon_compared")
    obs.nontrivial = True
    return obs.result()


class _Injected(Exception):
    pass


def run_abort_reuse(desc):
    """history on one object: a solve_ivp (+ backward) whose right-hand side raises at its k-th evaluation is caught, then the same object is
    used for a fresh solve_ivp + backward: sensitivities w.r.t. the object's tensors, y0 and ts against the closed form of
    dy/dt = -(a + c t) y  (y = y0 exp(-a (t - t0) - c (t^2 - t0^2) / 2))"""
    import xitorch
    from xitorch.integrate import solve_ivp
    obs = Obs(desc)
    rng = random.Random(desc["seed"])
    tg = torch.Generator().manual_seed(desc["seed"])
    ts_l, t0, T = _grid(rng, desc["nt"], desc["decreasing"])
    state = {"n": 0, "raise_at": None}

    def rhs(t, y, a, c):
        state["n"] += 1
        if state["raise_at"] is not None and state["n"] == state["raise_at"]:
            raise _Injected("injected failure at evaluation %d" % state["n"])
        return -(a + c * t) * y
    a0 = 0.4 + 0.6 * torch.rand(2, generator=tg, dtype=DT)
    c0 = 0.2 + 0.5 * torch.rand(2, generator=tg, dtype=DT)
    holder = desc["holder"]
    if holder == "em":
        class E(xitorch.EditableModule):
            def __init__(self, a, c):
                self.a, self.lst = a, [c]

            def f(self, t, y):
                return rhs(t, y, self.a, self.lst[0])

            def getparamnames(self, methodname, prefix=""):
                return [prefix + "a", prefix + "lst[0]"]
        a, c = a0.clone().requires_grad_(), c0.clone().requires_grad_()
        obj = E(a, c)
        fcn = obj.f
    else:
        class Inner(torch.nn.Module):
            def __init__(self, c):
                super().__init__()
                self.c = torch.nn.Parameter(c.clone())

        class M(torch.nn.Module):
            def __init__(self, a, c):
                super().__init__()
                self.a = torch.nn.Parameter(a.clone())
                if holder == "nn_nested":
                    self.inner = Inner(c)
                else:
                    self.c = torch.nn.Parameter(c.clone())

            def forward(self, t, y):
                return rhs(t, y, self.a, self.inner.c if holder == "nn_nested" else self.c)
        obj = M(a0, c0)
        a, c = obj.a, (obj.inner.c if holder == "nn_nested" else obj.c)
        fcn = obj.forward
    y0 = (0.5 + torch.rand(2, generator=tg, dtype=DT)).requires_grad_()
    ts = torch.tensor(ts_l, dtype=DT, requires_grad=True)
    method = desc["method"]
    opts = dict(rtol=1e-10, atol=1e-12) if method in ("rk45", "rk23") else {}
    C = torch.randn(len(ts_l), 2, generator=tg, dtype=DT)
    leaves = [a, c, y0, ts]
    mech = "%s:%s:%s" % (method, holder, desc["phase"])

    def full(create_graph):
        marks = {}
        yt = solve_ivp(fcn, ts, y0, method=method, **opts)
        marks["fwd"] = state["n"]
        g = torch.autograd.grad((yt * C).sum(), leaves, create_graph=create_graph, allow_unused=True)
        marks["bwd"] = state["n"]
        return yt, g, marks
    cg = desc["phase"] == "bwd_cg"
    try:
        state["n"] = 0
        yt1, g1, marks = full(cg)
        yt1, g1 = yt1.detach(), [None if x is None else x.detach() for x in g1]
    except Exception as e:
        obs.exc_violation("abort:clean_run:" + mech, e)
        obs.nontrivial = True
        return obs.result()
    lo, hi = (0, marks["fwd"]) if desc["phase"] == "fwd" else (marks["fwd"], marks["bwd"])
    if hi <= lo:
        obs.skip("no evaluation in the chosen phase")
        return obs.result()
    k = lo + 1 + int(desc["kfrac"] * (hi - lo - 1e-9))
    state["n"], state["raise_at"] = 0, k
    raised = False
    try:
        full(cg)
    except _Injected:
        raised = True
    except Exception as e:
        raised = state["n"] >= k
        obs.note(wrapped="%s: %s" % (type(e).__name__, str(e)[:100]))
    state["raise_at"] = None
    if not raised:
        obs.skip("injected failure not reached")
        return obs.result()
    obs.count("abort_injected_" + ("fwd" if desc["phase"] == "fwd" else "bwd"))
    # ---- the same object again
    try:
        yt, g, _ = full(False)
    except Exception as e:
        obs.exc_violation("abort:reuse:" + mech, e)
        obs.nontrivial = True
        return obs.result()
    a2, c2, y02, ts2 = [t.detach().clone().requires_grad_() for t in leaves]
    tt = ts2.unsqueeze(-1)
    yref = y02 * torch.exp(-a2 * (tt - ts2[0]) - 0.5 * c2 * (tt * tt - ts2[0] * ts2[0]))
    gref = torch.autograd.grad((yref * C).sum(), [a2, c2, y02, ts2])
    # (a) the repetition equals the clean first run on the same object (same deterministic computation)
    err = float((yt.detach() - yt1).abs().max())
    obs.check(err <= 1e-12 * (1 + float(yt1.abs().max())), "abort:value_vs_first_run:" + mech, "trajectory after an aborted call differs from the one before it by %.3e" % err)
    for nm, gi, ri in zip(("a_obj", "c_obj", "y0", "ts"), g, g1):
        if gi is None or ri is None:
            continue
        err = float((gi - ri).abs().max())
        obs.check(err <= 1e-10 * (1 + float(ri.abs().max())), "abort:grad_vs_first_run:%s:%s" % (nm, mech),
                  "after an aborted call, the gradient w.r.t. %s differs from the one of the identical call before it by %.3e" % (nm, err))
    # (b) adaptive methods: also against the closed form
    tolv = {"rk45": 1e-7, "rk23": 1e-6, "rk4": None, "rk38": None, "euler": None}[method]
    if tolv is not None:
        err = float((yt.detach() - yref.detach()).abs().max())
        obs.check(err <= tolv * (1 + float(yref.detach().abs().max())), "abort:value:" + mech, "trajectory after an aborted call differs from the closed form by %.3e" % err)
    for nm, gi, ri in zip(("a_obj", "c_obj", "y0", "ts"), g, gref):
        obs.check(gi is not None, "abort:nograd:%s:%s" % (nm, mech), "after an aborted call, a fresh solve_ivp on the same object gives no gradient to %s" % nm)
        if gi is None or tolv is None:
            continue
        err = float((gi - ri).abs().max())
        sc = 1.0 + float(ri.abs().max())
        obs.check(err <= 50 * tolv * sc, "abort:grad:%s:%s" % (nm, mech), "after an aborted call, the gradient w.r.t. %s differs from the closed form by %.3e (scale %.2e)" % (nm, err, sc))
    obs.count("abort_reuse_compared")
    obs.nontrivial = True
    return obs.result()


def run_case(desc):
    if desc["kind"] == "switch":
        return run_switch(desc)
    if desc["kind"] == "abort_reuse":
        return run_abort_reuse(desc)
    if desc["kind"] == "long_horizon":
        return run_long_horizon(desc)
    return run_sharedbck(desc)
