"""C10, additional dimension: caller's objects that hold tensors of MIXED dtypes / kinds.

The representations of vf/funcs.py hold float64 tensors only (plus python scalars / strings).  Real objects also hold complex
constants (phase factors), integer index tensors, bool masks, float32 / float16 tables, float64 tensors that belong to another
method, leaves that are not parameters of the method - as attributes, in lists / dicts / tuples, in plain sub-objects, in inner
nn.Modules, in any attribute order.  xitorch's traversals (the debug-mode parameter check of EditableModule, parameter listing of
nn.Module) select tensors by dtype / registration, so the ORDER in which selected and non-selected tensors alternate matters.

`gen_layout(rng, family, ...)` draws a layout (JSON: list of [holder, [items]]), `build_layout(desc, core, nlead, eff, s, dtype)`
returns a vf.funcs.Built whose function has the same value as `core(*lead, a, b, W, s)` (the additional tensors enter with weight
zero, as an identity permutation or as a mask that selects between equal values)."""
import torch

from vf import funcs

# additional tensors: kind -> (dtype, requires_grad, used by the method, real floating point)
EXTRA_KINDS = {
    "c128": (torch.complex128, False, True, False),    # complex constant (phase factor)
    "c64": (torch.complex64, False, True, False),
    "c128g": (torch.complex128, True, True, False),    # complex leaf that is not a parameter of the method
    "i64": (torch.int64, False, True, False),          # index tensor (identity permutation applied to a)
    "i32": (torch.int32, False, False, False),         # counters, not used by the method
    "bool": (torch.bool, False, True, False),          # mask
    "f32": (torch.float32, False, True, True),         # single precision table next to double precision parameters
    "f32g": (torch.float32, True, True, True),         # single precision leaf
    "f16": (torch.float16, False, True, True),
    "f64c": (torch.float64, False, False, True),       # double constant that belongs to another method (not used)
    "f64u": (torch.float64, False, True, True),        # double constant used by the method, not differentiable
}
NONFLOAT = tuple(k for k, v in EXTRA_KINDS.items() if not v[3])
EM_HOLDERS = ("attr", "list", "dict", "sub", "mod")
NN_HOLDERS = ("param", "buf", "plain", "sub")
PARAMS = ("a", "b", "W")


# ------------------------------------------------------------------------------------------------ layouts
def gen_layout(rng, family, with_tuple=False, with_none=False):
    """layout = [[holder, [item, ...]], ...]: the three parameters and 1-4 additional tensors in random order, grouped into holders"""
    kinds = list(EXTRA_KINDS)
    if family == "nn":
        kinds = [k for k in kinds if k != "f16"]
    nextra = rng.choice([1, 2, 2, 3, 4])
    # at least one tensor of a dtype that is not real floating point in two thirds of the layouts
    extras = rng.sample(kinds, nextra)
    if rng.random() < 0.67 and not any(k in NONFLOAT for k in extras):
        extras[0] = rng.choice(NONFLOAT)
    items = list(PARAMS) + extras
    rng.shuffle(items)
    if rng.random() < 0.5:
        # a tensor that the traversals do not select comes first (ahead of the parameters in attribute order)
        nf = [k for k in items if k in NONFLOAT]
        if nf:
            items.remove(nf[0])
            items.insert(rng.randrange(0, 2), nf[0])
    holders = EM_HOLDERS if family == "em" else NN_HOLDERS
    layout = []
    i = 0
    while i < len(items):
        h = rng.choice(holders)
        n = 1 if h in ("attr", "param", "buf", "plain") else rng.choice([1, 2, 2, 3])
        grp = items[i:i + n]
        if family == "nn":
            # registered parameters are what an nn.Module's function depends on: the three parameters are always registered
            if h in ("buf", "plain") and grp[0] in PARAMS:
                h = "param"
            if h == "buf" and EXTRA_KINDS[grp[0]][1]:
                h = "plain"
        layout.append([h, grp])
        i += n
    if with_tuple:
        # a tuple (immutable container) holding additional tensors; the parameters are never held in a tuple (they could not be substituted)
        tk = [k for k in EXTRA_KINDS if k not in items and (family == "em" or k != "f16")]
        grp = rng.sample(tk, rng.choice([1, 2]))
        if not any(EXTRA_KINDS[k][3] for k in grp):
            grp[0] = rng.choice([k for k in tk if EXTRA_KINDS[k][3]])
        layout.insert(rng.randrange(0, len(layout) + 1), ["tuple", sorted(set(grp), key=grp.index)])
    if with_none:
        # parameters registered as None (torch.nn.Linear(bias=False) does that), in the root module and / or in a child
        pos = [j for j, (h, g) in enumerate(layout) if h == "sub"]
        if pos and rng.random() < 0.6:
            g = layout[rng.choice(pos)][1]
            g.insert(rng.randrange(0, len(g) + 1), "none")
        else:
            layout.insert(rng.randrange(0, len(layout) + 1), ["param", ["none"]])
        if rng.random() < 0.4:
            layout.insert(rng.randrange(0, len(layout) + 1), ["param", ["none"]])
    return layout


def layout_items(layout):
    return [it for _, grp in layout for it in grp]


def rep_label(family, layout):
    """deterministic class name for mechanism keys: family + the kinds of additional tensors + special holders"""
    its = layout_items(layout)
    extra = sorted(set(k for k in its if k not in PARAMS))
    special = "".join("_" + h for h in ("tuple",) if any(hh == h for hh, _ in layout))
    if "none" in extra:
        extra.remove("none")
        special += "_none"
    return "mixed_%s%s(%s)" % (family, special, "+".join(extra))


def nonfloat_ahead_of_float(layout):
    """a tensor that is not real floating point precedes a real floating point tensor in traversal order"""
    seen_nf = False
    for it in layout_items(layout):
        if it in NONFLOAT:
            seen_nf = True
        elif it != "none" and seen_nf:
            return True
    return False


# ------------------------------------------------------------------------------------------------ tensors
def _make_extra(kind, d, tg):
    dt, rg, used, _ = EXTRA_KINDS[kind]
    if kind in ("c128", "c128g"):
        ph = torch.rand(2, generator=tg, dtype=torch.float64) * 3.0
        t = torch.exp(1j * ph).to(dt)
    elif kind == "c64":
        ph = torch.rand(d, generator=tg, dtype=torch.float64) * 3.0
        t = torch.exp(1j * ph).to(dt)
    elif kind == "i64":
        t = torch.arange(d, dtype=dt)
    elif kind == "i32":
        t = torch.randint(0, 9, (3,), generator=tg).to(dt)
    elif kind == "bool":
        t = torch.rand(d, generator=tg) < 0.5
    elif kind in ("f32", "f32g", "f16"):
        t = (torch.randn(d, generator=tg, dtype=torch.float64) * 0.5).to(dt)
    else:
        t = torch.randn(d + 1, generator=tg, dtype=torch.float64)
    if rg:
        t = t.clone().requires_grad_()
    return t


def _use_extras(core, s, get, kinds, dtype):
    """the function of the leading arguments: core(*lead, a, b, W, s) with the additional tensors entering without changing the value"""
    def value(*lead):
        a, b, W = get("a"), get("b"), get("W")
        z = None
        for k in kinds:
            if not EXTRA_KINDS[k][2]:
                continue
            t = get(k)
            if k in ("c128", "c64", "c128g"):
                add = 0.0 * ((t * t.conj()).real.sum().to(dtype) - float(t.numel()))
            elif k == "i64":
                a = a[t]
                continue
            elif k == "bool":
                b = torch.where(t, b, 1.0 * b)
                continue
            else:
                add = 0.0 * t.to(dtype).sum()
            z = add if z is None else z + add
        out = core(*lead, a, b, W, s)
        return out if z is None else out + z
    return value


class _Holder(object):
    """a plain sub-object"""


# ------------------------------------------------------------------------------------------------ builders
def build_layout(desc, core, nlead, eff, s, dtype):
    family, layout, d = desc["family"], desc["layout"], desc["d"]
    tg = torch.Generator().manual_seed(desc["seed"] % (2 ** 31) + 17)
    tens = {"a": eff[0], "b": eff[1], "W": eff[2]}
    for it in layout_items(layout):
        if it not in tens and it != "none":
            tens[it] = _make_extra(it, d, tg)
    kinds = [it for it in layout_items(layout) if it not in PARAMS and it != "none"]
    if family == "em":
        return _build_em(desc, layout, tens, kinds, core, s, dtype)
    return _build_nn(desc, layout, tens, kinds, core, s, dtype)


def _as_param(t):
    return t if isinstance(t, torch.nn.Parameter) else torch.nn.Parameter(t.detach(), requires_grad=t.requires_grad)


def _build_em(desc, layout, tens, kinds, core, s, dtype):
    import xitorch
    paths = {}
    getters = {}

    class E(xitorch.EditableModule):
        def __init__(self):
            for j, (h, grp) in enumerate(layout):
                if h == "attr":
                    name = "x%d" % j
                    setattr(self, name, tens[grp[0]])
                    paths[grp[0]] = name
                    getters[grp[0]] = (lambda n: (lambda o: getattr(o, n)))(name)
                elif h in ("list", "tuple"):
                    name = ("l%d" if h == "list" else "t%d") % j
                    seq = ["tag"] if (j % 2 == 1) else []
                    off = len(seq)
                    seq = seq + [tens[it] for it in grp]
                    setattr(self, name, seq if h == "list" else tuple(seq))
                    for i, it in enumerate(grp):
                        paths[it] = "%s[%d]" % (name, off + i)
                        getters[it] = (lambda n, i_: (lambda o: getattr(o, n)[i_]))(name, off + i)
                elif h == "dict":
                    name = "d%d" % j
                    dct = {"n": 2} if (j % 2 == 0) else {}
                    for i, it in enumerate(grp):
                        dct["k%d" % i] = tens[it]
                        paths[it] = "%s['k%d']" % (name, i)
                        getters[it] = (lambda n, k_: (lambda o: getattr(o, n)[k_]))(name, "k%d" % i)
                    setattr(self, name, dct)
                elif h == "sub":
                    name = "s%d" % j
                    sub = _Holder()
                    sub.note = "sub"
                    for i, it in enumerate(grp):
                        setattr(sub, "t%d" % i, tens[it])
                        paths[it] = "%s.t%d" % (name, i)
                        getters[it] = (lambda n, k_: (lambda o: getattr(getattr(o, n), k_)))(name, "t%d" % i)
                    setattr(self, name, sub)
                elif h == "mod":
                    # an inner torch.nn.Module: leaves are registered as Parameters, derived tensors are plain attributes
                    name = "m%d" % j
                    mod = torch.nn.Module()
                    for i, it in enumerate(grp):
                        t = tens[it]
                        if it in PARAMS and not isinstance(t, torch.nn.Parameter):
                            setattr(mod, "p%d" % i, t)
                        else:
                            t = _as_param(t)
                            tens[it] = t
                            mod.register_parameter("p%d" % i, t)
                        paths[it] = "%s.p%d" % (name, i)
                        getters[it] = (lambda n, k_: (lambda o: getattr(getattr(o, n), k_)))(name, "p%d" % i)
                    setattr(self, name, mod)
                else:
                    raise ValueError(h)

        def h(self, *lead):
            return value(*lead)

        def getparamnames(self, methodname, prefix=""):
            if methodname == "h":
                return [prefix + n for n in listed]
            raise KeyError(methodname)
    e = E()
    value = _use_extras(core, s, lambda k: getters[k](e), kinds, dtype)
    names = [paths[k] for k in PARAMS]
    if desc.get("list_real"):
        # real floating point tensors used by the method are listed as well (tuple-held ones cannot be substituted: never listed)
        tup = set(it for h, grp in layout if h == "tuple" for it in grp)
        names += [paths[k] for k in kinds if EXTRA_KINDS[k][3] and EXTRA_KINDS[k][2] and k not in tup]
    order = desc.get("order", 0)
    listed = names[order % len(names):] + names[:order % len(names)]
    if order % 2:
        listed = listed[::-1]
    objs = [("e", e)] + [("e.%s" % n, getattr(e, n)) for n in vars(e) if n.startswith("m")]
    return funcs.Built(e.h, (), objs, ())


def _build_nn(desc, layout, tens, kinds, core, s, dtype):
    getters = {}

    def put(mod, name, holder, it):
        if it == "none":
            mod.register_parameter(name, None)
            return
        t = tens[it]
        if holder == "buf":
            mod.register_buffer(name, t)
        elif holder == "plain":
            setattr(mod, name, t)            # a tensor that is not a Parameter: kept in the module's __dict__
        else:
            t = _as_param(t)
            tens[it] = t
            mod.register_parameter(name, t)

    class M(torch.nn.Module):
        def __init__(self):
            super().__init__()
            for j, (h, grp) in enumerate(layout):
                if h == "sub":
                    child = torch.nn.Module()
                    for i, it in enumerate(grp):
                        put(child, "p%d" % i, "param", it)
                        getters[it] = (lambda n, k_: (lambda o: getattr(getattr(o, n), k_)))("c%d" % j, "p%d" % i)
                    setattr(self, "c%d" % j, child)
                else:
                    name = "%s%d" % ({"param": "w", "buf": "u", "plain": "q"}[h], j)
                    put(self, name, h, grp[0])
                    getters[grp[0]] = (lambda n: (lambda o: getattr(o, n)))(name)

        def forward(self, *lead):
            return value(*lead)
    m = M()
    value = _use_extras(core, s, lambda k: getters[k](m), kinds, dtype)
    return funcs.Built(m.forward, (), [("m", m)], ())
