"""C04, additional workload dimensions.

* THE OBJECT'S SET OF TENSORS CHANGES BETWEEN TWO CALLS (group `hist`): one torch.nn.Module OBJECT is solved (rootfinder / equilibrium /
  minimize, first- and second-order backward), then mutated the way user code mutates a module between two uses - a parameter registered
  on the module or on an existing / new (nested) sub-module (`add_param`, `add_submodule`: adapter, later bias, gain), a parameter or
  sub-module deleted (`remove`), a parameter replaced by another Parameter object under the same name or a whole sub-module replaced by
  a fresh one (`replace`, `replace_sub`), `requires_grad` toggled (`toggle`) - and solved again, up to three phases per object.  The
  module's method reads whatever tensors the module holds at the time of the call.  Oracle: the 3-Newton-step implicit-function
  reference of the main group evaluated on the module's CURRENT parameters (first and second order, leaf by leaf; a leaf that has no
  gradient while the reference is non-zero fails the comparison as well).  Only nn.Module is generated: `EditableModule.getparamnames`
  is documented as a function of the method name ("list tensor names that affect the output of the method"), xitorch caches its result
  per object, and nothing promises that the list may depend on the object's state.
* THE METHOD READS ITS TENSORS THROUGH THE MODULE'S REGISTRY (group `selfiter`): an nn.Module method that iterates over
  `self.parameters()` / `self.named_parameters()` (a weight-decay / norm term summed over all parameters) next to direct attribute access.
"""
import itertools
import random

import torch

from vf.common import Obs, sub_seed, WarnLog, HarnessBug

_cls_counter = itertools.count()

TASKS = ["rootfinder", "equilibrium", "minimize"]
RF = ["newton", "broyden1", "broyden2", "linearmixing"]
METHODS = {"rootfinder": RF, "equilibrium": RF + ["anderson_acc"], "minimize": RF}
KINDS = ["add_param", "add_submodule", "remove", "replace", "replace_sub", "toggle"]
FEATURES = {"UV": ["U", "V"], "b2": ["b2"], "g": ["g"]}
BATCHES = [(), (3,)]
BCKS = ["exactsolve", "default", "bicgstab", "default"]
BCK = {"default": {}, "exactsolve": {"method": "exactsolve"}, "bicgstab": {"method": "bicgstab", "rtol": 1e-10, "atol": 1e-12}}
REQUIRED = {
    "quick": {"hist_cases": 80, "hist_phase_compared": 200, "hist_later_phase_compared": 100, "hist_new_leaf_first_order": 40,
              "hist_new_leaf_second_order": 40, "hist_second_order_compared": 150, "hist_add_param": 12, "hist_add_submodule": 12,
              "hist_remove": 12, "hist_replace": 12, "hist_replace_sub": 12, "hist_toggle": 12, "hist_new_in_nested_submodule": 4},
    "thorough": {"hist_cases": 500, "hist_phase_compared": 1300, "hist_later_phase_compared": 700, "hist_new_leaf_first_order": 250,
                 "hist_new_leaf_second_order": 250, "hist_second_order_compared": 1000, "hist_add_param": 80, "hist_add_submodule": 80,
                 "hist_remove": 80, "hist_replace": 80, "hist_replace_sub": 80, "hist_toggle": 80, "hist_new_in_nested_submodule": 25},
}


def hist_cases(seed, tier):
    out = []
    N = 108 if tier == "quick" else 648
    for i in range(N):
        rng = random.Random(sub_seed(seed, "c04h", i))
        task = TASKS[i % 3]
        k1 = KINDS[(i // 3) % len(KINDS)]
        kinds = [k1] + ([rng.choice(KINDS)] if rng.random() < 0.4 else [])
        out.append({"group": "hist", "task": task, "kinds": "+".join(kinds), "seed": sub_seed(seed, "c04hs", i),
                    "n": rng.choice([2, 3, 5, 6, 8]), "batch": rng.randrange(len(BATCHES)), "q": rng.choice([0.2, 0.4]),
                    "layout": "lin" if k1 == "replace_sub" else rng.choice(["flat", "lin"]), "bck": BCKS[(i // 18) % len(BCKS)],
                    "methods": [rng.choice(METHODS[task]) for _ in range(len(kinds) + 1)]})
    return out


# ------------------------------------------------------------------------------------------------ the mathematics (plain torch)
def _logcosh(z):
    return z + torch.nn.functional.softplus(-2.0 * z) - 0.6931471805599453


class HistProblem:
    """th: role -> tensor.  Roles W, b always; optional features UV (low-rank adapter), b2 (second bias), g (gain / extra diagonal)."""

    def __init__(self, task, q):
        self.task, self.q = task, q

    def _z(self, y, th):
        return torch.matmul(torch.matmul(y, th["V"].transpose(-2, -1)), th["U"].transpose(-2, -1))

    def hmap(self, y, th):
        h = self.q * torch.tanh(torch.matmul(y, th["W"].transpose(-2, -1)) + th["b"])
        if "U" in th:
            h = h + 0.2 * torch.tanh(self._z(y, th))
        if "b2" in th:
            h = h + th["b2"]
        if "g" in th:
            h = th["g"] * h
        return h

    def objective(self, y, th):
        As = 0.5 * (th["W"] + th["W"].transpose(-2, -1))
        F = 0.5 * (y * torch.matmul(y, As)).sum() - (th["b"] * y).sum()
        if "U" in th:
            F = F + 0.2 * _logcosh(self._z(y, th)).sum()
        if "b2" in th:
            F = F - (th["b2"] * y).sum()
        if "g" in th:
            F = F + 0.5 * (th["g"] * y * y).sum()
        return F

    def gradF(self, y, th):
        As = 0.5 * (th["W"] + th["W"].transpose(-2, -1))
        g = torch.matmul(y, As) - th["b"]
        if "U" in th:
            g = g + 0.2 * torch.matmul(torch.matmul(torch.tanh(self._z(y, th)), th["U"]), th["V"])
        if "b2" in th:
            g = g - th["b2"]
        if "g" in th:
            g = g + th["g"] * y
        return g

    def residual(self, y, th):
        return self.gradF(y, th) if self.task == "minimize" else y - self.hmap(y, th)

    def user_value(self, y, th):
        if self.task == "rootfinder":
            return y - self.hmap(y, th)
        if self.task == "equilibrium":
            return self.hmap(y, th)
        return self.objective(y, th)


def _gen_role(role, task, n, batch, q, tgen):
    dt = torch.float64

    def rn(*s):
        return torch.randn(*s, dtype=dt, generator=tgen)
    if role == "W":
        if task == "minimize":
            Q, _ = torch.linalg.qr(rn(n, n))
            ev = 1.0 + q * (2 * torch.rand(n, dtype=dt, generator=tgen) - 1)
            A = (Q * ev) @ Q.T
            return 0.5 * (A + A.T)
        m = rn(n, n)
        return m / torch.linalg.matrix_norm(m, ord=2)
    if role == "b":
        return (0.4 if task == "minimize" else 1.0) * rn(*batch, n)
    if role == "U":
        m = rn(n, 1 + (n > 3))
        return m / torch.linalg.matrix_norm(m, ord=2)
    if role == "V":
        m = rn(1 + (n > 3), n)
        return m / torch.linalg.matrix_norm(m, ord=2)
    if role == "b2":
        return 0.3 * rn(n)
    if role == "g":
        u = torch.rand(n, dtype=dt, generator=tgen)
        return 0.3 * u if task == "minimize" else 0.5 + 0.5 * u
    raise HarnessBug("role %s" % role)


# ------------------------------------------------------------------------------------------------ the module and its mutations
def _walk(obj, path):
    for part in path.split("."):
        obj = getattr(obj, part)
    return obj


def _owner(obj, path):
    parts = path.split(".")
    for part in parts[:-1]:
        obj = getattr(obj, part)
    return obj, parts[-1]


def _make_module(prob):
    class Holder(torch.nn.Module):
        pass

    def forward(self, y):
        # reads whatever tensors the module holds now (attribute access by registered name)
        th = {role: _walk(self, path) for role, path in self._where.items()}
        return prob.user_value(y, th)
    cls = type("VfHistModule%d" % next(_cls_counter), (torch.nn.Module,), {"forward": forward})
    return cls(), Holder


class History:
    def __init__(self, desc, obs):
        self.desc, self.obs = desc, obs
        self.task, self.n, self.q = desc["task"], desc["n"], desc["q"]
        self.batch = BATCHES[desc["batch"]]
        self.tgen = torch.Generator().manual_seed(desc["seed"])
        self.rng = random.Random(desc["seed"])
        self.prob = HistProblem(self.task, self.q)
        self.mod, self.Holder = _make_module(self.prob)
        self.where = {}
        self.mod._where = self.where
        self.new_roles = set()

    def gen(self, role):
        return _gen_role(role, self.task, self.n, self.batch, self.q, self.tgen)

    def features_present(self):
        return [f for f, roles in FEATURES.items() if roles[0] in self.where]

    def register(self, role, path, requires_grad=True):
        owner, name = _owner(self.mod, path)
        p = torch.nn.Parameter(self.gen(role), requires_grad=requires_grad)
        if self.rng.random() < 0.5:
            setattr(owner, name, p)
        else:
            owner.register_parameter(name, p)
        self.where[role] = path

    def build(self, kinds):
        m = self.mod
        if self.desc["layout"] == "lin":
            m.lin = self.Holder()
            base = "lin."
        else:
            base = ""
        self.register("W", base + "W")
        self.register("b", base + "b")
        feats = list(FEATURES)
        self.rng.shuffle(feats)
        k = self.rng.randrange(0, 3)
        if "remove" in kinds:
            k = max(k, 1)
        if any(x.startswith("add") for x in kinds):
            k = min(k, 1)
        for f in feats[:k]:
            self.add_feature(f, self.rng.choice(["flat", "sub"]), initial=True)
        if self.rng.random() < 0.3:
            self.param(self.rng.choice(sorted(self.where))).requires_grad_(False)
        self.ensure_grad()

    def param(self, role):
        return _walk(self.mod, self.where[role])

    def ensure_grad(self):
        if not any(self.param(r).requires_grad for r in self.where):
            self.param(self.rng.choice(sorted(self.where))).requires_grad_(True)

    def add_feature(self, feat, loc, initial=False):
        m = self.mod
        if loc == "flat":
            prefix = ""
        elif loc == "sub":
            name = "ad_" + feat
            m.add_module(name, self.Holder())
            prefix = name + "."
        elif loc == "nested":
            # into an existing sub-module when there is one, otherwise a new container holding a new sub-module
            if hasattr(m, "lin"):
                m.lin.add_module("ad_" + feat, self.Holder())
                prefix = "lin.ad_%s." % feat
            else:
                if not hasattr(m, "blocks"):
                    m.blocks = self.Holder()
                m.blocks.add_module("ad_" + feat, self.Holder())
                prefix = "blocks.ad_%s." % feat
            if not initial:
                self.obs.count("hist_new_in_nested_submodule")
        else:
            raise HarnessBug(loc)
        for role in FEATURES[feat]:
            self.register(role, prefix + role)
            if not initial:
                self.new_roles.add(role)

    def mutate(self, kind):
        """returns the kind actually applied"""
        rng = self.rng
        present = self.features_present()
        absent = [f for f in FEATURES if f not in present]
        if kind in ("add_param", "add_submodule") and not absent:
            kind = "replace"
        if kind == "remove" and not present:
            kind = "add_param"
            absent = list(FEATURES)
        subs = [f for f in present if self.where[FEATURES[f][0]].count(".") >= 1 and not self.where[FEATURES[f][0]].startswith("lin.")
                or self.where[FEATURES[f][0]].count(".") >= 2]
        if kind == "replace_sub" and not hasattr(self.mod, "lin") and not subs:
            kind = "replace"
        if kind == "add_param":
            self.add_feature(rng.choice(absent), "flat")
        elif kind == "add_submodule":
            self.add_feature(rng.choice(absent), rng.choice(["sub", "nested"]))
        elif kind == "remove":
            f = rng.choice(present)
            path0 = self.where[FEATURES[f][0]]
            if "." in path0 and rng.random() < 0.7:
                owner, name = _owner(self.mod, path0.rsplit(".", 1)[0])
                delattr(owner, name)                       # the whole sub-module goes
            else:
                for role in FEATURES[f]:
                    owner, name = _owner(self.mod, self.where[role])
                    delattr(owner, name)
            for role in FEATURES[f]:
                del self.where[role]
                self.new_roles.discard(role)
        elif kind == "replace":
            role = rng.choice(sorted(self.where))
            owner, name = _owner(self.mod, self.where[role])
            old = getattr(owner, name)
            setattr(owner, name, torch.nn.Parameter(self.gen(role), requires_grad=old.requires_grad))
            self.new_roles.add(role)
        elif kind == "replace_sub":
            if hasattr(self.mod, "lin") and (not subs or rng.random() < 0.7):
                roles, sub, owner = ["W", "b"], "lin", self.mod
                keep = {k: v for k, v in self.mod.lin._modules.items()}
            else:
                f = rng.choice(subs)
                roles = FEATURES[f]
                owner, sub = _owner(self.mod, self.where[roles[0]].rsplit(".", 1)[0])
                keep = {}
            fresh = self.Holder()
            for role in roles:
                name = self.where[role].rsplit(".", 1)[1]
                setattr(fresh, name, torch.nn.Parameter(self.gen(role), requires_grad=_walk(self.mod, self.where[role]).requires_grad))
                self.new_roles.add(role)
            for k, v in keep.items():
                fresh.add_module(k, v)
            setattr(owner, sub, fresh)
        elif kind == "toggle":
            p = self.param(rng.choice(sorted(self.where)))
            p.requires_grad_(not p.requires_grad)
        else:
            raise HarnessBug("kind %s" % kind)
        self.ensure_grad()
        return kind


def _norm(t):
    return float(torch.linalg.vector_norm(t.detach().reshape(-1)))


def _phase(H, obs, fn, phase, kind, method, bckname):
    """one solve + first/second-order backward on the module as it is now; returns False when the rest of the history is unusable"""
    from vf.props import c04 as base
    desc, prob, task, tgen = H.desc, H.prob, H.task, H.tgen
    cfg = "%s:%s" % (task, kind)
    bck = dict(BCK[bckname])
    roles = sorted(H.where)
    registered = dict(H.mod.named_parameters())
    cur = {r: H.param(r) for r in roles}
    if sorted(id(p) for p in registered.values()) != sorted(id(p) for p in cur.values()):
        raise HarnessBug("the module's registered parameters are not the ones its method reads: %s vs %s" % (sorted(registered), H.where))
    lroles = [r for r in roles if cur[r].requires_grad]
    lv = [cur[r] for r in lroles]
    N = 1
    for s in H.batch + (H.n,):
        N *= s
    y0 = torch.zeros(H.batch + (H.n,), dtype=torch.float64)
    try:
        with WarnLog() as wl:
            y = fn(H.mod.forward, y0, params=(), method=method, bck_options=dict(bck), f_tol=1e-10, x_tol=1e-10)
    except Exception as e:
        obs.exc_violation("hist:forward:%s" % cfg, e, phase=phase, method=method)
        return False
    if wl.convergence:
        obs.count("hist_forward_warned")
        return False
    th0 = {r: cur[r].detach() for r in roles}
    eps_fwd = _norm(prob.residual(y.detach(), th0))
    if eps_fwd > 1e-6:
        obs.count("hist_forward_silent_but_not_a_root")
        return False
    if not obs.check(y.requires_grad, "hist:no_graph:%s" % cfg, "the returned solution is not connected to the module's parameters", phase=phase):
        return False
    C = torch.randn(y.shape, dtype=y.dtype, generator=tgen)
    D = [torch.randn(t.shape, dtype=t.dtype, generator=tgen) for t in lv]
    if H.rng.random() < 0.35:
        Wq = torch.rand(y.shape, dtype=torch.float64, generator=tgen)
        lossf = lambda t: (C * t).sum() + 0.5 * (Wq * t * t).sum()      # noqa: E731
    else:
        lossf = lambda t: (C * t).sum()                                # noqa: E731
    g2 = None
    try:
        with WarnLog() as wb:
            g1 = list(torch.autograd.grad(lossf(y), lv, create_graph=True, allow_unused=True))
            terms = [(d * g).sum() for d, g in zip(D, g1) if g is not None and g.requires_grad]
            if terms:
                g2 = list(torch.autograd.grad(sum(terms), lv, allow_unused=True))
    except Exception as e:
        obs.exc_violation("hist:backward:%s" % cfg, e, phase=phase, method=method, N=N)
        return False
    after = dict(H.mod.named_parameters())
    if sorted(after) != sorted(registered) or any(after[k] is not registered[k] for k in registered):
        obs.count("hist_module_not_restored_after_backward")      # subject of C09; the history cannot be continued
        return False
    if wb.convergence:
        obs.count("hist_backward_warned_not_compared")
        return True
    # reference on the module's CURRENT parameters
    ref = {}
    for r in roles:
        t = cur[r].detach().clone()
        if cur[r].requires_grad:
            t.requires_grad_()
        ref[r] = t
    rl = [ref[r] for r in lroles]
    yr = base.newton_reference(prob, ref, y)
    moved = _norm(yr - y.detach())
    if moved > 1e-6:
        raise HarnessBug("Newton reference moved %.2e away from the returned solution (residual %.2e)" % (moved, eps_fwd))
    r1 = list(torch.autograd.grad(lossf(yr), rl, create_graph=True, allow_unused=True))
    termsr = [(d * g).sum() for d, g in zip(D, r1) if g is not None and g.requires_grad]
    r2 = list(torch.autograd.grad(sum(termsr), rl, allow_unused=True)) if termsr else None
    if bckname == "default":
        tolb = 1e-5 if N >= 6 else 1e-12
    elif bckname == "exactsolve":
        tolb = 1e-12
    else:
        tolb = 1e-9
    tol = 100 * (10 * eps_fwd + tolb) + 1e-10
    worst = {}

    def compare(order, gx, gr):
        nz_new = False
        for r, a, b in zip(lroles, gx, gr):
            cls = "new" if r in H.new_roles else "old"
            bn = 0.0 if b is None else _norm(b)
            if a is None and b is None:
                continue
            if a is None:
                if bn > 1e-8:
                    obs.check(False, "hist:nograd%d:%s:%s" % (order, cfg, cls),
                              "phase %d: no order-%d gradient for the module parameter %s (%s), the implicit-function reference has norm %.3e"
                              % (phase, order, H.where[r], "registered / replaced after the module's first use" if cls == "new" else
                                 "held from the start", bn), method=method, N=N, bck=bckname)
                    continue
                a = torch.zeros_like(b)
            if b is None:
                b = torch.zeros_like(a)
            err = _norm(a - b) / (1 + bn)
            worst[order] = max(worst.get(order, 0.0), err / tol)
            obs.check(err <= tol, "hist:grad%d:%s:%s" % (order, cfg, cls),
                      "phase %d: order-%d gradient w.r.t. the module parameter %s differs from the unrolled-Newton reference on the module's "
                      "current parameters: %.3e > %.3e (|ref|=%.3e)" % (phase, order, H.where[r], err, tol, bn),
                      method=method, N=N, bck=bckname, eps_fwd=eps_fwd)
            if cls == "new" and bn > 1e-8:
                nz_new = True
        return nz_new
    nz_new1 = compare(1, g1, r1)
    obs.count("hist_phase_compared")
    if phase > 0:
        obs.count("hist_later_phase_compared")
        if nz_new1:
            obs.count("hist_new_leaf_first_order")
    if r2 is not None:
        if g2 is None:
            obs.check(False, "hist:grad2:missing:%s" % cfg, "phase %d: the reference has a second-order gradient, xitorch's first-order "
                      "gradients carry no graph" % phase)
        else:
            nz_new2 = compare(2, g2, r2)
            obs.count("hist_second_order_compared")
            if phase > 0 and nz_new2:
                obs.count("hist_new_leaf_second_order")
    obs.note(**{"phase%d" % phase: {"kind": kind, "method": method, "eps_fwd": eps_fwd, "worst_ratio": worst, "where": dict(H.where)}})
    return True


def run_hist(desc):
    from xitorch.optimize import rootfinder, equilibrium, minimize
    obs = Obs(desc)
    fn = {"rootfinder": rootfinder, "equilibrium": equilibrium, "minimize": minimize}[desc["task"]]
    kinds = desc["kinds"].split("+")
    H = History(desc, obs)
    H.build(kinds)
    obs.count("hist_cases")
    ok = _phase(H, obs, fn, 0, "initial", desc["methods"][0], desc["bck"])
    done = 0
    for i, kind in enumerate(kinds):
        if not ok:
            break
        applied = H.mutate(kind)
        ok = _phase(H, obs, fn, i + 1, applied, desc["methods"][i + 1], desc["bck"])
        if ok:
            obs.count("hist_%s" % applied)
            done += 1
    obs.nontrivial = done >= 1
    return obs.result()


# ------------------------------------------------------------------------------------------------ group selfiter
SELFITER_REQUIRED = {"quick": {"selfiter_compared": 20, "selfiter_registry_leaf_first_order": 20, "selfiter_second_order_compared": 15},
                     "thorough": {"selfiter_compared": 200, "selfiter_registry_leaf_first_order": 200, "selfiter_second_order_compared": 160}}
ACCESS = ["parameters", "named_parameters", "get_parameter", "sub_parameters"]


def selfiter_cases(seed, tier):
    out = []
    N = 36 if tier == "quick" else 240
    for i in range(N):
        rng = random.Random(sub_seed(seed, "c04si", i))
        task = TASKS[i % 3]
        out.append({"group": "selfiter", "task": task, "access": ACCESS[(i // 3) % len(ACCESS)], "seed": sub_seed(seed, "c04sis", i),
                    "n": rng.choice([2, 3, 5, 7]), "q": rng.choice([0.2, 0.4]), "bck": rng.choice(["exactsolve", "default", "bicgstab"]),
                    "method": rng.choice(METHODS[task])})
    return out


def run_selfiter(desc):
    """the module's method reads tensors through the module's own registry: a weight-decay-like term lam * sum_p |p|^2 over
    self.parameters() / named_parameters() / get_parameter() (whole module or one sub-module) enters the function next to attribute access"""
    from xitorch.optimize import rootfinder, equilibrium, minimize
    from vf.props import c04 as base
    obs = Obs(desc)
    task, n, q, access = desc["task"], desc["n"], desc["q"], desc["access"]
    fn = {"rootfinder": rootfinder, "equilibrium": equilibrium, "minimize": minimize}[task]
    tgen = torch.Generator().manual_seed(desc["seed"])
    inner = HistProblem(task, q)
    lam = 0.05
    subroles = ("W", "b") if access == "sub_parameters" else ("W", "b", "b2")

    class Prob:
        # s = lam * sum of squares of the tensors in the registry; enters as an additional linear restoring term  s * y
        def sq(self, th):
            return lam * sum((th[r] ** 2).sum() for r in subroles)

        def residual(self, y, th):
            return inner.residual(y, th) + self.sq(th) * y
    prob = Prob()

    class Holder(torch.nn.Module):
        pass

    def regsum(self):
        if access == "parameters":
            return sum((p ** 2).sum() for p in self.parameters())
        if access == "named_parameters":
            return sum((p ** 2).sum() for _, p in self.named_parameters())
        if access == "get_parameter":
            return sum((self.get_parameter(k) ** 2).sum() for k in ("lin.W", "lin.b", "b2"))
        return sum((p ** 2).sum() for p in self.lin.parameters())

    def forward(self, y):
        th = {"W": self.lin.W, "b": self.lin.b, "b2": self.b2}
        s = lam * regsum(self)
        if task == "rootfinder":
            return inner.user_value(y, th) + s * y
        if task == "equilibrium":
            return inner.user_value(y, th) - s * y
        return inner.user_value(y, th) + 0.5 * s * (y * y).sum()
    cls = type("VfSelfIter%d" % next(_cls_counter), (torch.nn.Module,), {"forward": forward})
    mod = cls()
    mod.lin = Holder()
    mod.lin.W = torch.nn.Parameter(_gen_role("W", task, n, (), q, tgen))
    mod.lin.b = torch.nn.Parameter(_gen_role("b", task, n, (), q, tgen))
    mod.b2 = torch.nn.Parameter(_gen_role("b2", task, n, (), q, tgen))
    cur = {"W": mod.lin.W, "b": mod.lin.b, "b2": mod.b2}
    roles = sorted(cur)
    lv = [cur[r] for r in roles]
    cfg = "%s:%s" % (task, access)
    bck = dict(BCK[desc["bck"]])
    y0 = torch.zeros(n, dtype=torch.float64)
    try:
        with WarnLog() as wl:
            y = fn(mod.forward, y0, params=(), method=desc["method"], bck_options=dict(bck), f_tol=1e-10, x_tol=1e-10)
    except Exception as e:
        obs.exc_violation("selfiter:forward:%s" % cfg, e)
        obs.nontrivial = True
        return obs.result()
    if wl.convergence:
        obs.skip("forward did not converge")
        return obs.result()
    eps_fwd = _norm(prob.residual(y.detach(), {r: cur[r].detach() for r in roles}))
    if eps_fwd > 1e-6:
        obs.skip("silent forward returned a point with residual > 1e-6")
        return obs.result()
    obs.nontrivial = True
    if not obs.check(y.requires_grad, "selfiter:no_graph:%s" % cfg, "the returned solution is not connected to the module's parameters"):
        return obs.result()
    C = torch.randn(y.shape, dtype=y.dtype, generator=tgen)
    D = [torch.randn(t.shape, dtype=t.dtype, generator=tgen) for t in lv]
    g2 = None
    try:
        with WarnLog() as wb:
            g1 = list(torch.autograd.grad((C * y).sum(), lv, create_graph=True, allow_unused=True))
            terms = [(d * g).sum() for d, g in zip(D, g1) if g is not None and g.requires_grad]
            if terms:
                g2 = list(torch.autograd.grad(sum(terms), lv, allow_unused=True))
    except Exception as e:
        obs.exc_violation("selfiter:backward:%s" % cfg, e)
        return obs.result()
    if wb.convergence:
        obs.count("selfiter_backward_warned_not_compared")
        obs.nontrivial = False
        return obs.result()
    ref = {r: cur[r].detach().clone().requires_grad_() for r in roles}
    rl = [ref[r] for r in roles]
    yr = base.newton_reference(prob, ref, y)
    if _norm(yr - y.detach()) > 1e-6:
        raise HarnessBug("Newton reference moved away from the returned solution")
    r1 = list(torch.autograd.grad((C * yr).sum(), rl, create_graph=True, allow_unused=True))
    r2 = list(torch.autograd.grad(sum((d * g).sum() for d, g in zip(D, r1)), rl, allow_unused=True))
    tolb = {"default": 1e-5 if n >= 6 else 1e-12, "exactsolve": 1e-12, "bicgstab": 1e-9}[desc["bck"]]
    tol = 100 * (10 * eps_fwd + tolb) + 1e-10
    worst = {}
    for order, gx, gr in ((1, g1, r1), (2, g2, r2)):
        if gx is None:
            obs.check(False, "selfiter:grad2:missing:%s" % cfg, "first-order gradients carry no graph")
            continue
        for r, a, b in zip(roles, gx, gr):
            bn = _norm(b)
            if a is None:
                if bn > 1e-8:
                    obs.check(False, "selfiter:nograd%d:%s" % (order, cfg), "no order-%d gradient for the module parameter %s, which the method "
                              "reads through the module's registry (%s); the implicit-function reference has norm %.3e" % (order, r, access, bn))
                continue
            err = _norm(a - b) / (1 + bn)
            worst[order] = max(worst.get(order, 0.0), err / tol)
            obs.check(err <= tol, "selfiter:grad%d:%s" % (order, cfg), "order-%d gradient w.r.t. the module parameter %s (the method also reads the "
                      "module's tensors through %s) differs from the unrolled-Newton reference: %.3e > %.3e (|ref|=%.3e)"
                      % (order, r, access, err, tol, bn), method=desc["method"], bck=desc["bck"], n=n)
        obs.count("selfiter_compared" if order == 1 else "selfiter_second_order_compared")
        if order == 1:
            obs.count("selfiter_registry_leaf_first_order")
    obs.note(worst_ratio=worst, eps_fwd=eps_fwd)
    return obs.result()
