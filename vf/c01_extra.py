"""C01, additional workload dimensions (the monitors are those of vf/props/c01.py: `solve_and_check`).

* HISTORIES ON ONE OPERATOR OBJECT (group `history`): the same operator object (and, when present, the same M object) is solved 2-3
  times.  Between the solves the caller changes the tensors the operator holds - in place (`copy_`, `add_`, `mat[...] = `, `mul_`,
  `diagonal().add_`, `.data = `) under no_grad, or by re-assigning the attribute - and likewise the right-hand side B, the shifts E
  (same tensor objects refilled, or new ones) and the matrix of M.  This is what an optimiser step, a time-dependent coefficient or a
  self-consistency loop do.  Operator kinds: dense-wrapped (flag detected / given), matrix-free with and without `_fullmatrix`,
  Hermitian-flagged, a sum of two leaves of which one is updated.
  Oracle: every solve of the history is checked by the full C01 monitor against the dense shadow taken from the operator's tensors AS THEY
  ARE AT THE TIME OF THAT CALL (clones made after the update).  The property quantifies over every operator and right-hand side: the
  value returned must solve the system the operator represents when solve is called, whatever was solved with that object before.
* OPERATORS WHOSE PRODUCTS RETURN TENSORS THEY DO NOT OWN (group `alias`): a matrix-free identity whose `_mv` returns the vector it was
  given (or a view of it: `x.view`, `x[..., :]`, `x.contiguous()`, `x.to(x.dtype)`), and a structurally-zero operator that hands out (an
  expansion of) a stored buffer, used as operands of the operator algebra: `K + s*I`, `K - I*s`, `s*I + K`, `K + I`, `K + (s*I).H`,
  `K.matmul(I)`, `I.matmul(K)`, `(s*I).matmul(K)`, `K + s*Z`, and as metric `M = c*I` / `M = I`; identity flagged Hermitian, or not
  flagged with / without `_rmv`.  The dense value of the whole expression is the generated matrix A (K is defined from it).
  Oracle: the full C01 monitor (residual on the dense shadow, silence on the well-conditioned classes, agreement with the dense
  reference) plus: the caller's tensors (B, E, the tensors and buffers held by the operators) are bitwise unchanged by the call.
"""
import copy
import random

import torch

from vf.common import Obs, sub_seed, HarnessBug
from vf import gen

GROUPS = ("history", "alias", "subatol", "units")

METHODS = [None, "exactsolve", "custom_exactsolve", "cg", "bicgstab", "gmres", "broyden1"]
HERM_KINDS = ("dense_herm", "herm_mv", "herm_all")

# ------------------------------------------------------------------------------------------------------------ histories
HIST_KINDS = ["dense", "dense", "dense_herm", "all", "all", "herm_all", "mv", "mv_rmv", "herm_mv", "add"]
A_WHAT = ["fresh", "fresh", "fresh", "scale", "diag", "same"]
A_HOW = ["copy_", "add_", "setitem", "inplace_op", "data", "reassign"]
INPLACE_HOW = ("copy_", "add_", "setitem", "inplace_op", "data")
RHS_HOW = ["new", "copy_", "keep"]
M_HOW = ["keep", "copy_", "add_", "reassign"]

# ------------------------------------------------------------------------------------------------------------ aliasing operands
ALIAS_K = ["dense", "dense_herm", "mv", "mv_rmv", "herm_mv", "all"]
ALIAS_EXPR = ["K+sI", "K-Is", "sI+K", "K+I", "K+(sI).H", "K@I", "I@K", "(sI)@K", "K+sZ"]
ALIAS_RET = ["x", "x", "view", "slice", "contig", "to"]
ALIAS_IFLAG = ["herm", "herm", "rmv", "plain"]
ALIAS_M = ["cI", "cI", "I", "leaf"]


def _common(rng, i, sizes):
    d = {}
    d["method"] = METHODS[i % len(METHODS)]
    d["emode"] = rng.choice(["none", "none", "E", "EM"])
    d["batch"] = rng.randrange(len(gen.BATCH_TUPLES_4))
    d["dtype"] = rng.choice(["float64", "float64", "complex128", "float32"])
    d["spectrum"] = rng.choice(["spd", "indef", "nonherm", "nonherm_pd"])
    d["n"] = rng.choice(sizes)
    d["ncols"] = rng.choice([1, 2, 3])
    d["tol"] = rng.choice(["default", "tight"])
    d["special"] = rng.choice([None] * 8 + ["zerocol"])
    d["kappa"] = rng.choice([3.0, 10.0, 30.0])
    if d["method"] == "broyden1":
        # the quasi-Newton iteration treats the whole batch as one vector of unknowns: keep it small (cost)
        if d["n"] > 8:
            d["n"] = rng.choice([2, 5, 6, 8])
        d["batch"] = rng.randrange(8)
    return d


def cases(seed, tier):
    out = []
    sizes = [2, 5, 6, 8, 12] if tier == "quick" else [1, 2, 3, 5, 6, 8, 12, 20]
    nh = 420 if tier == "quick" else 4200
    for i in range(nh):
        rng = random.Random(sub_seed(seed, "c01h", i))
        d = {"group": "history", "seed": sub_seed(seed, "c01hs", i)}
        d.update(_common(rng, i, sizes))
        d["opkind"] = rng.choice(HIST_KINDS)
        if d["opkind"] in HERM_KINDS and d["spectrum"].startswith("nonherm"):
            d["spectrum"] = rng.choice(["spd", "indef"])
        rounds = []
        for r in range(rng.choice([1, 1, 2])):
            what = rng.choice(A_WHAT)
            how = rng.choice(A_HOW)
            if how == "inplace_op" and what in ("fresh", "same"):
                what = rng.choice(["scale", "diag"])
            if what == "diag" and d["spectrum"] not in ("spd", "nonherm_pd"):
                what = "scale"            # a diagonal shift keeps only the definite classes inside their class
            if what == "same":
                how = "none"
            rounds.append({"A": [what, how], "B": rng.choice(RHS_HOW), "E": rng.choice(RHS_HOW), "M": rng.choice(M_HOW)})
        d["rounds"] = rounds
        out.append(d)
    na = 560 if tier == "quick" else 5600
    for i in range(na):
        rng = random.Random(sub_seed(seed, "c01a", i))
        d = {"group": "alias", "seed": sub_seed(seed, "c01as", i)}
        d.update(_common(rng, i, sizes))
        d["opkind"] = rng.choice(ALIAS_K)
        if d["opkind"] in HERM_KINDS and d["spectrum"].startswith("nonherm"):
            d["spectrum"] = rng.choice(["spd", "indef"])
        d["expr"] = rng.choice(ALIAS_EXPR)
        d["ret"] = rng.choice(ALIAS_RET)
        d["iflag"] = rng.choice(ALIAS_IFLAG)
        d["s"] = rng.choice([0.5, -0.25, 2, 3.0, -1.5])
        d["mkind"] = rng.choice(ALIAS_M)
        d["c"] = rng.choice([2, 0.5, 3.0])
        out.append(d)
    # right-hand sides whose ENTRIES are all below the absolute tolerance while the NORM of the column is not
    ns = 180 if tier == "quick" else 1800
    for i in range(ns):
        rng = random.Random(sub_seed(seed, "c01z", i))
        d = {"group": "subatol", "seed": sub_seed(seed, "c01zs", i)}
        d.update(_common(rng, i, sizes))
        d["method"] = [None, "cg", "bicgstab", "gmres"][i % 4]
        d["opkind"] = rng.choice(["dense", "dense_herm", "mv", "mv_rmv", "herm_mv", "all"])
        if d["opkind"] in HERM_KINDS and d["spectrum"].startswith("nonherm"):
            d["spectrum"] = rng.choice(["spd", "indef"])
        d["n"] = rng.choice([2, 5, 6, 8, 12, 20])
        d["tol"] = rng.choice(["default", "bigatol", "tight"])
        d["special"] = rng.choice(["subatolB", "subatolB", "subatolB_somecols"])
        out.append(d)
    # systems in small units: A (and the shifts E) scaled by 1e-9 ... 1e-12, purely relative tolerances
    nu = 210 if tier == "quick" else 2100
    for i in range(nu):
        rng = random.Random(sub_seed(seed, "c01u", i))
        d = {"group": "units", "seed": sub_seed(seed, "c01us", i)}
        d.update(_common(rng, i, sizes))
        d["method"] = [None, "exactsolve", "custom_exactsolve", "cg", "cg", "bicgstab", "gmres"][i % 7]
        d["opkind"] = rng.choice(["dense", "dense", "dense", "dense_sum", "mv_rmv", "all"])
        d["spectrum"] = rng.choice(["spd", "indef", "nonherm", "nonherm", "nonherm_pd", "nonherm_pd"])
        d["tol"] = "rel"
        d["special"] = None
        if d["dtype"] == "float32":
            d["dtype"] = "float64"       # (A^H A p, p) ~ unit^4 leaves the range of float32: outside the stated bounds
        d["unit"] = rng.choice([1e-9, 1e-10, 1e-12])
        d["kappa"] = rng.choice([3.0, 3.0, 10.0])
        out.append(d)
    return out


def run_case(desc):
    if desc["group"] == "history":
        return run_history(desc)
    if desc["group"] == "subatol":
        return run_subatol(desc)
    if desc["group"] == "units":
        return run_units(desc)
    if desc["group"] == "alias":
        return run_alias(desc)
    raise HarnessBug("unknown group %s" % desc["group"])


# ============================================================================================================ histories
class _Held:
    """the leaf whose tensor the caller keeps updating, with the part of the operator's dense value that is not in it"""

    def __init__(self, leaf, rest):
        self.leaf, self.rest = leaf, rest

    def current(self):
        v = self.leaf.mat.detach().clone()
        return v if self.rest is None else v + self.rest


def _hist_operator(kind, A, tgen, counter):
    if kind in ("dense", "dense_herm", "mv", "mv_rmv", "all", "herm_mv", "herm_all"):
        op = gen.leaf_operator(kind, A.clone(), counter)
        return op, _Held(op, None)
    if kind == "add":
        A1 = torch.randn(A.shape[-2:], dtype=A.dtype, generator=tgen)
        l1 = gen.leaf_operator("mv_rmv", A1, counter)
        l2 = gen.leaf_operator("mv", A - A1, counter)
        return l1 + l2, _Held(l2, A1)
    raise HarnessBug("history kind %s" % kind)


def _apply(leaf, target, how, what, par):
    """make leaf.mat equal to `target` the way the caller of round `how` does it"""
    mat = leaf.mat
    with torch.no_grad():
        if how == "copy_":
            mat.copy_(target)
        elif how == "add_":
            mat.add_(target - mat)
        elif how == "setitem":
            mat[...] = target
        elif how == "data":
            mat.data = target.clone()
        elif how == "reassign":
            leaf.mat = target.clone()
        elif how == "inplace_op":
            if what == "scale":
                mat.mul_(par)
            elif what == "diag":
                mat.diagonal(dim1=-2, dim2=-1).add_(par)
            else:
                raise HarnessBug("inplace_op with %s" % what)
        elif how != "none":
            raise HarnessBug("how %s" % how)


def _refill(old, new, how):
    """right-hand side / shifts of the next solve: a new tensor object, the old object refilled in place, or the old one as it is"""
    if old is None or new is None or how == "new" or old.shape != new.shape:
        return new
    if how == "copy_":
        with torch.no_grad():
            old.copy_(new)
        return old
    return old


def run_history(desc):
    from vf.props import c01
    obs = Obs(desc)
    obs.count("history_cases")
    rng = random.Random(desc["seed"])
    tgen = torch.Generator().manual_seed(desc["seed"])
    P = c01.resolve(desc)
    P.A_is_dense = desc["opkind"] in ("dense", "dense_herm")
    P.A = c01.draw_A(P, desc, rng, tgen)
    P.M = c01.draw_M(P, desc, rng, tgen)
    c01.draw_rest(P, desc, obs, rng, tgen)
    counter = {}
    try:
        Aop, heldA = _hist_operator(desc["opkind"], P.A, tgen, counter)
        Mop = None
        if P.M is not None:
            Mop = gen.leaf_operator(rng.choice(["dense_herm", "herm_mv", "herm_all"]), P.M.clone(), counter)
    except Exception as e:
        obs.exc_violation("history:construct:%s" % desc["opkind"], e)
        obs.nontrivial = True
        return obs.result()
    c01.make_opts(P, desc)
    P.A = heldA.current()

    def watched():
        w = [("A.mat", heldA.leaf.mat)]
        if Mop is not None:
            w.append(("M.mat", Mop.mat))
        return w
    nontrivial = c01.solve_and_check(obs, desc, P, Aop, Mop, counter, tag="history:first:", watched=watched())
    direct = P.eff_method in ("exactsolve", "custom_exactsolve")
    for r, spec in enumerate(desc["rounds"]):
        if P.X is None:
            break            # the previous call raised or returned a wrong shape: already reported
        rrng = random.Random(sub_seed(desc["seed"], "round", r))
        rgen = torch.Generator().manual_seed(sub_seed(desc["seed"], "roundt", r))
        what, how = spec["A"]
        # ---- the operator's tensor
        cur = heldA.current()
        par = None
        if what == "fresh":
            target = c01.draw_A(P, desc, rrng, rgen)
        elif what == "scale":
            par = rrng.choice([0.5, 2.0, 3.0])
            target = cur * par
        elif what == "diag":
            par = rrng.choice([0.5, 1.0, 3.0])
            target = cur + par * torch.eye(P.n, dtype=P.dt)
        else:
            target = cur
        if heldA.rest is not None and how == "inplace_op":
            how = "copy_"        # the updated leaf is one term of a sum: an operation on it alone is not that operation on the sum
        if heldA.rest is not None:
            target = target - heldA.rest
        _apply(heldA.leaf, target, how, what, par)
        # ---- the matrix of M
        mhow = spec["M"] if Mop is not None else "keep"
        if mhow != "keep":
            _apply(Mop, c01.draw_M(P, desc, rrng, rgen), mhow, "fresh", None)
        # ---- dense shadow = what the operators hold NOW; shifts and right-hand side for it
        P.A = heldA.current()
        P.M = Mop.mat.detach().clone() if Mop is not None else None
        Bold, Eold = P.B, P.E
        c01.draw_rest(P, desc, obs, rrng, rgen)
        Bnew, Enew = P.B, P.E
        P.B = _refill(Bold, Bnew, spec["B"])
        P.E = _refill(Eold, Enew, spec["E"])
        if P.E is not None and P.E is Eold and spec["E"] == "keep":
            c01.shadow(P)
            if P.kap > c01.KMAX:       # the old shifts leave the conditioning bound with the new matrix: take the new ones
                P.E = _refill(Eold, Enew, "copy_")
        c01.shadow(P)
        if P.kap > c01.KMAX * 1.0001:
            raise HarnessBug("history round outside the conditioning bound: %.2f" % P.kap)
        inplace = how in INPLACE_HOW
        obs.count("history_resolves")
        obs.count("history_A_%s" % how)
        obs.count("history_B_%s" % spec["B"])
        if P.E is not None:
            obs.count("history_E_%s" % spec["E"])
        if Mop is not None:
            obs.count("history_M_%s" % mhow)
        if inplace and what != "same":
            obs.count("history_resolves_after_inplace_update")
            if direct:
                obs.count("history_direct_resolves_after_inplace_update")
                if P.E is None and desc["opkind"] in ("dense", "dense_herm", "all", "herm_all"):
                    obs.count("history_direct_noE_ownmatrix_after_inplace_update")
            else:
                obs.count("history_iterative_resolves_after_inplace_update")
        tag = "history:A_%s_%s:" % (what, how)
        nt = c01.solve_and_check(obs, desc, P, Aop, Mop, counter, tag=tag, watched=watched())
        nontrivial = nontrivial or nt
    obs.nontrivial = nontrivial
    return obs.result()


# ============================================================================================================ aliasing operands
def _identity(n, dt, ret, iflag, calls):
    """matrix-free identity whose product is the vector it was given (or a view of it)"""
    import xitorch
    fs = {"x": lambda x: x, "view": lambda x: x.view(x.shape), "slice": lambda x: x[..., :], "contig": lambda x: x.contiguous(),
          "to": lambda x: x.to(x.dtype)}
    f = fs[ret]

    def __init__(self):
        xitorch.LinearOperator.__init__(self, shape=(n, n), is_hermitian=(iflag == "herm"), dtype=dt, _suppress_hermit_warning=True)

    def _mv(self, x):
        calls["identity_products"] = calls.get("identity_products", 0) + 1
        y = f(x)
        if y.untyped_storage().data_ptr() == x.untyped_storage().data_ptr():
            calls["unowned"] = calls.get("unowned", 0) + 1
        return y
    ns = {"__init__": __init__, "_mv": _mv, "_getparamnames": lambda self, prefix="": []}
    if iflag == "rmv":
        ns["_rmv"] = _mv
    return type("VfIdentity%d" % next(gen._cls_counter), (xitorch.LinearOperator,), ns)()


def _zero(n, dt, calls):
    """structurally zero operator handing out (an expansion of) a buffer it keeps"""
    import xitorch

    def __init__(self):
        xitorch.LinearOperator.__init__(self, shape=(n, n), is_hermitian=True, dtype=dt, _suppress_hermit_warning=True)
        self.z = torch.zeros(n, dtype=dt)

    def _mv(self, x):
        calls["zero_products"] = calls.get("zero_products", 0) + 1
        calls["unowned"] = calls.get("unowned", 0) + 1
        return self.z.expand(*x.shape[:-1], n)
    ns = {"__init__": __init__, "_mv": _mv, "_getparamnames": lambda self, prefix="": [prefix + "z"]}
    return type("VfZero%d" % next(gen._cls_counter), (xitorch.LinearOperator,), ns)()


def _alias_operator(desc, A, counter, calls):
    """(operator, watched tensors): the expression desc['expr'] with dense value A"""
    n, dt = A.shape[-1], A.dtype
    s = desc["s"]
    kind = desc["opkind"]
    eye = torch.eye(n, dtype=dt)
    I = _identity(n, dt, desc["ret"], desc["iflag"], calls)
    expr = desc["expr"]

    def leaf(mat):
        return gen.leaf_operator(kind, mat.contiguous(), counter)
    watched = []
    if expr == "K+sI":
        K = leaf(A - s * eye)
        op = K + s * I
    elif expr == "K-Is":
        K = leaf(A + s * eye)
        op = K - I * s
    elif expr == "sI+K":
        K = leaf(A - s * eye)
        op = s * I + K
    elif expr == "K+I":
        K = leaf(A - eye)
        op = K + I
    elif expr == "K+(sI).H":
        K = leaf(A - s * eye)
        op = K + (s * I).H
    elif expr == "K@I":
        K = leaf(A)
        op = K.matmul(I)
    elif expr == "I@K":
        K = leaf(A)
        op = I.matmul(K)
    elif expr == "(sI)@K":
        K = leaf(A / s)
        op = (s * I).matmul(K)
    elif expr == "K+sZ":
        K = leaf(A)
        Z = _zero(n, dt, calls)
        op = K + s * Z
        watched.append(("Z.z", Z.z))
    else:
        raise HarnessBug("expr %s" % expr)
    watched.append(("K.mat", K.mat))
    return op, watched


def run_alias(desc):
    from vf.props import c01
    obs = Obs(desc)
    obs.count("alias_cases")
    rng = random.Random(desc["seed"])
    tgen = torch.Generator().manual_seed(desc["seed"])
    P = c01.resolve(desc)
    P.A_is_dense = False
    mkind = desc["mkind"] if P.emode == "EM" else None
    if mkind in ("cI", "I"):
        P.BM = ()
        P.full_b = gen.bshape(P.BA, P.BB, P.BE, P.BM)
    P.A = c01.draw_A(P, desc, rng, tgen)
    if mkind in ("cI", "I"):
        P.M = (float(desc["c"]) if mkind == "cI" else 1.0) * torch.eye(P.n, dtype=P.dt)
    else:
        P.M = c01.draw_M(P, desc, rng, tgen)
    c01.draw_rest(P, desc, obs, rng, tgen)
    counter, calls = {}, {}
    try:
        Aop, watched = _alias_operator(desc, P.A, counter, calls)
        Mop = None
        if mkind == "cI":
            Mop = desc["c"] * _identity(P.n, P.dt, desc["ret"], "herm", calls)
        elif mkind == "I":
            Mop = _identity(P.n, P.dt, desc["ret"], "herm", calls)
        elif mkind == "leaf":
            Mop = gen.leaf_operator(rng.choice(["dense_herm", "herm_mv", "herm_all"]), P.M, counter)
            watched.append(("M.mat", Mop.mat))
    except Exception as e:
        obs.exc_violation("alias:construct:%s" % desc["expr"], e)
        obs.nontrivial = True
        return obs.result()
    c01.make_opts(P, desc)
    tag = "alias:%s:" % (desc["expr"] if mkind not in ("cI", "I") else desc["expr"] + ",M=" + mkind)
    nt = c01.solve_and_check(obs, desc, P, Aop, Mop, counter, tag=tag, watched=watched)
    obs.count("alias_unowned_products", calls.get("unowned", 0))
    obs.count("alias_expr_%s" % desc["expr"])
    if mkind in ("cI", "I"):
        obs.count("alias_metric_%s" % mkind)
    iterative = P.eff_method in ("cg", "bicgstab", "gmres")
    scaled = desc["expr"] in ("K+sI", "K-Is", "sI+K", "K+(sI).H", "(sI)@K") or mkind == "cI"
    if calls.get("unowned", 0) > 0:
        obs.count("alias_solves_reaching_unowned_product")
        if iterative:
            obs.count("alias_iterative_solves_reaching_unowned_product")
            if scaled and desc["expr"] != "K+sZ":
                obs.count("alias_iterative_scaled_identity")
    obs.count("alias_%s" % P.eff_method)
    # products of the operands count like those of the counting leaves
    obs.nontrivial = nt or (not bool((P.B == 0).all()) and calls.get("identity_products", 0) + sum(counter.values()) >= 2)
    return obs.result()


# ============================================================================================================ entries below atol
def run_subatol(desc):
    from vf.props import c01
    obs = Obs(desc)
    obs.count("subatol_cases")
    rng = random.Random(desc["seed"])
    tgen = torch.Generator().manual_seed(desc["seed"])
    P = c01.resolve(desc)
    P.A_is_dense = desc["opkind"] in ("dense", "dense_herm")
    c01.make_opts(P, desc)               # the right-hand side is built from the absolute tolerance of the call
    P.A = c01.draw_A(P, desc, rng, tgen)
    P.M = c01.draw_M(P, desc, rng, tgen)
    c01.draw_rest(P, desc, obs, rng, tgen)
    counter = {}
    Aop = gen.leaf_operator(desc["opkind"], P.A, counter)
    Mop = gen.leaf_operator(rng.choice(["dense_herm", "herm_mv", "herm_all"]), P.M, counter) if P.M is not None else None
    bn = torch.linalg.vector_norm(P.B, dim=-2)
    if bool((P.B.abs() <= P.atol).all()):
        obs.count("subatol_rhs_all_entries_below_atol")
        if bool((bn > P.atol).all()):
            obs.count("subatol_rhs_all_entries_below_atol_all_norms_above")
    obs.nontrivial = c01.solve_and_check(obs, desc, P, Aop, Mop, counter, tag="subatol:")
    if P.X is not None and P.eff_method in ("cg", "bicgstab", "gmres"):
        obs.count("subatol_iterative_solves")
        obs.nontrivial = True            # the deciding event is the shortcut on B, evaluated before any operator product
    return obs.result()


# ============================================================================================================ small units
def run_units(desc):
    import xitorch
    from vf.props import c01
    obs = Obs(desc)
    obs.count("units_cases")
    rng = random.Random(desc["seed"])
    tgen = torch.Generator().manual_seed(desc["seed"])
    P = c01.resolve(desc)
    kind = desc["opkind"]
    P.A_is_dense = kind == "dense"
    c01.make_opts(P, desc)
    P.A = c01.draw_A(P, desc, rng, tgen)
    P.M = c01.draw_M(P, desc, rng, tgen)
    c01.draw_rest(P, desc, obs, rng, tgen)
    # the same system in small units: A and the shifts scale, M and B do not (cond(A - e M) is unchanged)
    u = desc["unit"]
    P.A = P.A * u
    if P.E is not None:
        P.E = P.E * u
    c01.shadow(P)
    counter = {}
    A = P.A
    asym = float((A - A.transpose(-2, -1).conj()).abs().max()) / float(A.abs().max())
    if kind == "dense":
        Aop = xitorch.LinearOperator.m(A)              # the library decides the Hermitian flag itself
        if 1e-12 < asym < 1e-3:
            raise HarnessBug("generated matrix is neither Hermitian nor clearly non-Hermitian")
        P.A_flag_expected = asym <= 1e-12
        obs.count("units_dense_autoflag")
        if not P.A_flag_expected:
            obs.count("units_dense_autoflag_nonhermitian")
    elif kind == "dense_sum":
        A1 = torch.randn(A.shape[-2:], dtype=A.dtype, generator=tgen) * u
        Aop = xitorch.LinearOperator.m(A1) + gen.leaf_operator("mv_rmv", A - A1, counter)
        obs.count("units_dense_term_nonhermitian")
    else:
        Aop = gen.leaf_operator(kind, A, counter)
    Mop = gen.leaf_operator(rng.choice(["dense_herm", "herm_mv", "herm_all"]), P.M, counter) if P.M is not None else None
    obs.note(unit=u, asym=asym, flag=bool(Aop.is_hermitian))
    nt = c01.solve_and_check(obs, desc, P, Aop, Mop, counter, tag="units:")
    if P.X is not None:
        obs.count("units_solves_checked")
        if P.eff_method == "cg" and kind in ("dense", "dense_sum") and asym > 1e-3:
            obs.count("units_cg_dense_nonhermitian")
    obs.nontrivial = nt or (kind == "dense" and not bool((P.B == 0).all()) and P.n >= 2)
    return obs.result()
