"""C15, additional workload dimensions.

* HOW THE METHOD IS SPECIFIED (`SPELLINGS`, `build`, group `method_spec`): the integration method of SQuad can be named by keyword or
  positionally, as a string in any letter case, by the implementation class (`method: str or callable or None`), or - for the documented
  default "cspline" ("If None, it will choose cspline") - not at all / as None.  Every way is combined with every documented option set
  of the method (cspline: no option = "natural", bc_type in {natural, clamped, not-a-knot, periodic}; trapz / simpson have no options).
  Oracle: whatever the spelling, cumsum / integrate are the running integral of the interpolant with the REQUESTED boundary condition
  (independent references of vf.interp_ref), and all spellings of one request give the same values.  Only documented behaviour is
  required: a spelling in upper / mixed case may be refused with a RuntimeError (the doc does not promise case-insensitivity), but when
  it is accepted it must select the named method with the given options.
* MIXED DTYPES (group `mixdtype`): samples whose dtype differs from the dtype of the sample positions (float32 on a float64 grid and the
  reverse, integer samples).  Oracle: the integral of the interpolant of the exact sample values, in the promoted dtype
  (torch.promote_types), tolerance with the eps of the coarsest floating dtype involved.
"""
import random

import numpy as np
import torch

from vf.common import Obs, HarnessBug
from vf import interp_ref as ir

NAMED = ["kw", "pos", "upper", "title", "alt", "class", "class_kw"]
DEFAULTED = ["omitted", "none_pos", "none_kw"]          # only for the documented default method, cspline
CLASS_OF = {"cspline": "CubicSplineSQuad", "trapz": "TrapzSQuad", "simpson": "SimpsonSQuad"}
DEFAULT_METHOD = "cspline"                               # SQuad docstring: "If None, it will choose ``"cspline"``"
CASE_SPELLINGS = ("upper", "title", "alt")


def spellings_for(method):
    return NAMED + (DEFAULTED if method == DEFAULT_METHOD else [])


def _alt(name):
    return "".join(c.upper() if i % 2 else c for i, c in enumerate(name))


def build(SQuad, sqmod, x, method, spelling, opts):
    """construct the real SQuad for `method` written the way `spelling` says"""
    if spelling == "kw":
        return SQuad(x, method=method, **opts)
    if spelling == "pos":
        return SQuad(x, method, **opts)
    if spelling == "upper":
        return SQuad(x, method.upper(), **opts)
    if spelling == "title":
        return SQuad(x, method=method.title(), **opts)
    if spelling == "alt":
        return SQuad(x, _alt(method), **opts)
    if spelling == "class":
        return SQuad(x, getattr(sqmod, CLASS_OF[method]), **opts)
    if spelling == "class_kw":
        return SQuad(x, method=getattr(sqmod, CLASS_OF[method]), **opts)
    if method != DEFAULT_METHOD:
        raise HarnessBug("spelling %s only exists for the default method" % spelling)
    if spelling == "omitted":
        return SQuad(x, **opts)
    if spelling == "none_pos":
        return SQuad(x, None, **opts)
    if spelling == "none_kw":
        return SQuad(x, method=None, **opts)
    raise HarnessBug("unknown spelling %r" % (spelling,))


def spelling_class(spelling):
    return {"kw": "name", "pos": "name", "upper": "case", "title": "case", "alt": "case", "class": "class", "class_kw": "class",
            "omitted": "omitted", "none_pos": "none", "none_kw": "none"}[spelling]


def count_spelling(obs, method, spelling, bc):
    """reach counters of the dimension (called once the object has been constructed)"""
    obs.count("spec_%s" % spelling_class(spelling))
    if spelling in DEFAULTED and method == DEFAULT_METHOD:
        obs.count("defaulted_method_bc_%s" % bc)


# ====================================================================================================== group method_spec
def spec_cases(seed, tier, sub_seed):
    out = []
    k = 0
    bcs = ["default", "natural", "clamped", "not-a-knot", "periodic"]
    reps = 1 if tier == "quick" else 6
    for rep_ in range(reps):
        for method in ("cspline", "trapz", "simpson"):
            for bc in (bcs if method == "cspline" else ["-"]):
                for nx in (2, 3, 4, 7, 12, 25):
                    rng = random.Random(sub_seed(seed, "c15spec", k))
                    rank = rng.choice([1, 2, 3])
                    out.append({"group": "method_spec", "seed": sub_seed(seed, "c15specs", k), "method": method, "bc": bc,
                                "nx": nx if rep_ == 0 else rng.choice([3, 4, 5, 6, 8, 9, 13, 16, 33]), "grid": ir.GRID_KINDS[k % 4],
                                "rank": rank, "ax": rng.randrange(rank), "dtype": rng.choice(["float64", "float64", "float32"])})
                    k += 1
    return out


def run_spec_case(desc):
    """one request (method + option set) written in every way the constructor accepts; each object is compared with the independent
    reference for the REQUESTED method / boundary condition, and with the object built from the plain keyword spelling"""
    import xitorch  # noqa: F401
    from xitorch.integrate import SQuad
    import xitorch._impls.integrate.samples_quad as sqmod
    from vf.props import c15

    obs = Obs(desc)
    rng = random.Random(desc["seed"])
    method, bc, nx, rank, ax = desc["method"], desc["bc"], desc["nx"], desc["rank"], desc["ax"]
    f32 = desc["dtype"] == "float32"
    dt = torch.float32 if f32 else torch.float64
    eps = float(torch.finfo(dt).eps)
    xnp = ir.make_grid(desc["grid"], nx, rng, float32=f32)
    st = ir.grid_stats(xnp)
    x = torch.tensor(xnp, dtype=dt)
    if not np.array_equal(x.double().numpy(), xnp):
        raise HarnessBug("grid not exactly representable in the working precision")
    shape = [rng.choice([1, 2, 3, 4]) for _ in range(rank)]
    shape[ax] = nx
    nprng = np.random.default_rng(desc["seed"])
    ynp = nprng.standard_normal(shape)
    if f32:
        ynp = ynp.astype(np.float32).astype(np.float64)
    opts = {}
    bc_eff = None
    if method == "cspline":
        bc_eff = "natural" if bc == "default" else bc          # documented default of the cspline method: bc_type="natural"
        if bc != "default":
            opts["bc_type"] = bc
        if bc_eff == "periodic":
            sl_last = [slice(None)] * rank
            sl_first = [slice(None)] * rank
            sl_last[ax] = -1
            sl_first[ax] = 0
            ynp[tuple(sl_last)] = ynp[tuple(sl_first)]
    y = torch.tensor(ynp, dtype=dt)
    mtag = method if method != "cspline" else "cspline:%s" % bc
    ntag = "n%d" % nx if nx <= 3 else "n4+"
    L = float(xnp[-1] - xnp[0])
    ymax = float(np.abs(ynp).max())
    tol = c15.C_TOL * eps * c15._grid_factor(method, st, bc_eff == "periodic") * L * max(ymax, 1e-300)
    ref_c = np.apply_along_axis(lambda v: ir.ref_cumsum_1d(method, bc_eff, xnp, v), ax, ynp)
    ref_i = np.take(ref_c, -1, axis=ax)
    obs.count("method_spec_cases")
    dim = ax if rng.random() < 0.5 else ax - rank
    kd = rng.random() < 0.5
    worst = 0.0
    got = {}
    all_ok = True
    n_checked = 0
    for sp in spellings_for(method):
        scls = spelling_class(sp)
        try:
            sq = build(SQuad, sqmod, x, method, sp, opts)
        except RuntimeError as e:
            if sp in CASE_SPELLINGS:
                # not promised by the documentation: refusing the spelling is allowed, selecting something else is not
                obs.count("case_spelling_refused")
                obs.note(**{"refused_%s" % sp: str(e)[:120]})
                continue
            obs.exc_violation("spec:construct:%s:%s" % (sp, mtag), e, nx=nx)
            all_ok = False
            continue
        except Exception as e:
            obs.exc_violation("spec:construct:%s:%s" % (sp, mtag), e, nx=nx)
            all_ok = False
            continue
        count_spelling(obs, method, sp, bc)
        try:
            cum = sq.cumsum(y, dim=dim)
            tot = sq.integrate(y, dim=dim, keepdim=kd)
        except Exception as e:
            obs.exc_violation("spec:call:%s:%s" % (sp, mtag), e, nx=nx, dim=dim)
            all_ok = False
            continue
        want_i = np.expand_dims(ref_i, ax) if kd else ref_i
        if not obs.check(tuple(cum.shape) == tuple(shape) and tuple(tot.shape) == tuple(want_i.shape), "spec:shape:%s:%s" % (sp, method),
                         "shapes %s / %s for y%s dim=%d keepdim=%s" % (tuple(cum.shape), tuple(tot.shape), tuple(shape), dim, kd)):
            all_ok = False
            continue
        cn = cum.detach().double().numpy()
        tn = tot.detach().double().numpy()
        e_c = float(np.abs(cn - ref_c).max())
        e_i = float(np.abs(tn - want_i).max()) if tn.size else 0.0
        worst = max(worst, e_c / tol, e_i / tol)
        what = ("the %s rule" % method) if method != "cspline" else ("the cubic spline with bc_type %s%s" % (
            bc_eff, " (the documented default)" if bc == "default" else " (as requested)"))
        obs.check(e_c <= tol, "spec:value:cumsum:%s:%s:%s" % (sp, mtag, ntag),
                  "method written as '%s' with options %s: cumsum differs from the running integral of %s by %.3e (tolerance %.3e)" % (
                      sp, opts, what, e_c, tol), nx=nx, grid=desc["grid"], shape=shape, dim=dim)
        obs.check(e_i <= tol, "spec:value:integrate:%s:%s:%s" % (sp, mtag, ntag),
                  "method written as '%s' with options %s: integrate differs from the integral of %s by %.3e (tolerance %.3e)" % (
                      sp, opts, what, e_i, tol), nx=nx, grid=desc["grid"], shape=shape, dim=dim, keepdim=kd)
        n_checked += 1
        got[sp] = (cn, tn)
    # all the spellings of one request are the same request
    if "kw" in got:
        for sp, (cn, tn) in got.items():
            if sp == "kw":
                continue
            e = max(float(np.abs(cn - got["kw"][0]).max()), float(np.abs(tn - got["kw"][1]).max()) if tn.size else 0.0)
            worst = max(worst, e / (0.05 * tol))
            obs.check(e <= 0.05 * tol, "spec:same_as_keyword:%s:%s" % (sp, mtag),
                      "method written as '%s' and as method='%s' with the same options %s give results differing by %.3e" % (
                          sp, method, opts, e), nx=nx)
            obs.count("spelling_agreement_checked")
    obs.note(worst_err_over_tol=worst, tol=tol, shape=shape, spellings=sorted(got))
    slab = np.moveaxis(ynp, ax, -1).reshape(-1, nx)
    varied = bool(np.any(np.abs(slab).max(axis=1) > 0) and np.any(slab.max(axis=1) > slab.min(axis=1)))
    n_required = len([s for s in spellings_for(method) if s not in CASE_SPELLINGS])
    obs.nontrivial = bool(varied and all_ok and n_checked >= n_required)
    return obs.result()


# ====================================================================================================== group mixdtype
MIX_COMBOS = [("float64", "float32"), ("float32", "float64"), ("float64", "int64"), ("float32", "int64"), ("float64", "int32")]
_TD = {"float64": torch.float64, "float32": torch.float32, "int64": torch.int64, "int32": torch.int32}


def mix_cases(seed, tier, sub_seed):
    out = []
    k = 0
    bcs = ["default", "natural", "clamped", "not-a-knot", "periodic"]
    for rep_ in range(1 if tier == "quick" else 6):
        for method in ("cspline", "trapz", "simpson"):
            for bc in (bcs if method == "cspline" else ["-"]):
                for xd, yd in MIX_COMBOS:
                    rng = random.Random(sub_seed(seed, "c15mix", k))
                    rank = rng.choice([1, 2, 3])
                    out.append({"group": "mixdtype", "seed": sub_seed(seed, "c15mixs", k), "method": method, "bc": bc,
                                "nx": rng.choice([2, 3, 4, 5, 6, 9, 12, 17, 24]), "grid": ir.GRID_KINDS[k % 4], "rank": rank,
                                "ax": rng.randrange(rank), "xdtype": xd, "ydtype": yd})
                    k += 1
    return out


def run_mixdtype_case(desc):
    """samples of another dtype than the sample positions: the integral of the interpolant of the (exact) sample values, in the
    promoted dtype"""
    import xitorch  # noqa: F401
    from xitorch.integrate import SQuad
    from vf.props import c15

    obs = Obs(desc)
    rng = random.Random(desc["seed"])
    method, bc, nx, rank, ax = desc["method"], desc["bc"], desc["nx"], desc["rank"], desc["ax"]
    xd, yd = _TD[desc["xdtype"]], _TD[desc["ydtype"]]
    x32 = xd == torch.float32
    eps = float(torch.finfo(xd).eps)       # the weights are built in the dtype of x; the promoted dtype is never coarser
    xnp = ir.make_grid(desc["grid"], nx, rng, float32=x32)
    st = ir.grid_stats(xnp)
    x = torch.tensor(xnp, dtype=xd)
    if not np.array_equal(x.double().numpy(), xnp):
        raise HarnessBug("grid not exactly representable in the dtype of x")
    shape = [rng.choice([1, 2, 3, 4]) for _ in range(rank)]
    shape[ax] = nx
    nprng = np.random.default_rng(desc["seed"])
    if yd.is_floating_point:
        ynp = nprng.standard_normal(shape)
        if yd == torch.float32:
            ynp = ynp.astype(np.float32).astype(np.float64)
    else:
        ynp = nprng.integers(-9, 10, size=shape).astype(np.float64)
    opts = {}
    bc_eff = None
    if method == "cspline":
        bc_eff = "natural" if bc == "default" else bc
        if bc != "default":
            opts["bc_type"] = bc
        if bc_eff == "periodic":
            sl_last = [slice(None)] * rank
            sl_first = [slice(None)] * rank
            sl_last[ax] = -1
            sl_first[ax] = 0
            ynp[tuple(sl_last)] = ynp[tuple(sl_first)]
    y = torch.tensor(ynp, dtype=yd)
    if not np.array_equal(y.double().numpy(), ynp):
        raise HarnessBug("samples not exactly representable in the dtype of y")
    y_before = y.clone()
    want_dt = torch.promote_types(xd, yd)
    combo = "x%s_y%s" % (desc["xdtype"].replace("float", "f"), desc["ydtype"].replace("float", "f").replace("int", "i"))
    mcls = method if method != "cspline" else "cspline:%s" % bc
    obs.count("mixdtype_cases")
    obs.count("mixdtype_%s" % method)
    obs.count("mixdtype_y_%s" % ("int" if not yd.is_floating_point else ("finer" if yd == torch.float64 else "coarser")))
    sq = SQuad(x, method=method, **opts)           # a failure here is not about the samples: monitor error
    L = float(xnp[-1] - xnp[0])
    ymax = max(float(np.abs(ynp).max()), 1e-300)
    tol = c15.C_TOL * eps * c15._grid_factor(method, st, bc_eff == "periodic") * L * ymax
    ref_c = np.apply_along_axis(lambda v: ir.ref_cumsum_1d(method, bc_eff, xnp, v), ax, ynp)
    ref_i = np.take(ref_c, -1, axis=ax)
    dim = ax if rng.random() < 0.5 else ax - rank
    kd = rng.random() < 0.5
    n_ok = 0
    worst = 0.0
    for fname in ("cumsum", "integrate"):
        kw = {"dim": dim}
        if fname == "integrate":
            kw["keepdim"] = kd
        try:
            res = getattr(sq, fname)(y, **kw)
        except Exception as e:
            obs.exc_violation("mixdtype:%s:%s:%s" % (fname, method, combo), e, nx=nx, bc=bc, shape=shape, dim=dim)
            continue
        ref = ref_c if fname == "cumsum" else (np.expand_dims(ref_i, ax) if kd else ref_i)
        if not obs.check(tuple(res.shape) == tuple(ref.shape), "mixdtype:shape:%s:%s:%s" % (fname, method, combo),
                         "%s of %s samples y%s on a %s grid returned shape %s" % (fname, yd, tuple(shape), xd, tuple(res.shape))):
            continue
        obs.check(res.dtype == want_dt, "mixdtype:dtype:%s:%s:%s" % (fname, method, combo),
                  "%s of %s samples on a %s grid returned %s, the promoted dtype is %s" % (fname, yd, xd, res.dtype, want_dt))
        err = float(np.abs(res.detach().double().numpy() - ref).max()) if ref.size else 0.0
        worst = max(worst, err / tol)
        obs.check(err <= tol, "mixdtype:value:%s:%s:%s" % (fname, mcls, combo),
                  "%s of %s samples on a %s grid differs from the integral of the interpolant of the samples by %.3e (tolerance %.3e)" % (
                      fname, yd, xd, err, tol), nx=nx, grid=desc["grid"], shape=shape, dim=dim)
        n_ok += 1
    obs.check(y.dtype == yd and torch.equal(y, y_before), "mixdtype:samples_modified:%s" % method, "the caller's samples were modified")
    obs.note(worst_err_over_tol=worst, tol=tol, shape=shape)
    slab = np.moveaxis(ynp, ax, -1).reshape(-1, nx)
    varied = bool(np.any(np.abs(slab).max(axis=1) > 0) and np.any(slab.max(axis=1) > slab.min(axis=1)))
    obs.nontrivial = bool(varied and n_ok == 2)
    return obs.result()
