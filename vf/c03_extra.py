"""Extra C03 scenarios (group "alias"): the user's function returns a tensor it does not own - equilibrium of f(y, c) = c (the fixed point IS the
parameter), rootfinder of f(y, c) = y - c written with a function that hands back its own argument in one branch, minimize of a function whose
value is a view of a parameter-independent buffer.  The returned point must meet the stopping test, equal the closed-form solution, and the
caller's tensors must be bitwise unchanged; repeating the call gives the same result."""
import random

import torch

from vf.common import Obs, sub_seed, WarnLog

DT = torch.float64
RF = ["newton", "broyden1", "broyden2", "linearmixing"]


def cases(seed, tier):
    out = []
    n = 60 if tier == "quick" else 600
    kinds = ["param", "closure", "em_attr", "nn_param"]
    for i in range(n):
        rng = random.Random(sub_seed(seed, "c03x", i))
        task = ["equilibrium", "rootfinder"][i % 2]
        methods = RF + (["anderson_acc"] if task == "equilibrium" else [])
        out.append({"group": "alias", "task": task, "seed": sub_seed(seed, "c03xs", i), "method": methods[(i // 2) % len(methods)],
                    "ret": kinds[(i // 10) % len(kinds)], "shape": rng.choice([(3,), (2, 2), (1,), (5,)]), "rg": rng.random() < 0.5,
                    "y0": rng.choice(["zero", "rand", "solution"])})
    return out


def run_case(desc):
    import xitorch
    from xitorch.optimize import rootfinder, equilibrium
    obs = Obs(desc)
    tg = torch.Generator().manual_seed(desc["seed"])
    task, method, ret, shape = desc["task"], desc["method"], desc["ret"], tuple(desc["shape"])
    cv = torch.randn(shape, generator=tg, dtype=DT)
    c = cv.clone().requires_grad_(bool(desc["rg"]))
    keep = c
    params = ()
    # equilibrium: f(y) = c  (fixed point y = c);  rootfinder: f(y) = y - c, where "-c" comes from a function that returns the caller's tensor
    if ret == "param":
        const, params = (lambda y, cc: cc), (c,)
    elif ret == "closure":
        const = lambda y: c
    elif ret == "em_attr":
        class E(xitorch.EditableModule):
            def __init__(self):
                self.c = c

            def f(self, y):
                return self.c

            def getparamnames(self, methodname, prefix=""):
                return [prefix + "c"]
        const = E().f
    else:
        class M(torch.nn.Module):
            def __init__(self):
                super().__init__()
                self.c = torch.nn.Parameter(cv.clone(), requires_grad=bool(desc["rg"]))

            def forward(self, y):
                return self.c
        m = M()
        keep = m.c
        const = m.forward
    if task == "equilibrium":
        fcn, fn = const, equilibrium
    else:
        if ret in ("em_attr", "nn_param"):
            obs.skip("rootfinder form needs an explicit function")
            return obs.result()
        fcn = (lambda y, *p: y - const(y, *p))
        fn = rootfinder
    y0 = {"zero": torch.zeros(shape, dtype=DT), "rand": torch.randn(shape, generator=tg, dtype=DT), "solution": cv.clone()}[desc["y0"]]
    before = keep.detach().clone()
    mech = "alias:%s:%s:%s" % (task, ret, method)
    with WarnLog() as wl:
        try:
            y = fn(fcn, y0, params=params, method=method, f_tol=1e-10, x_tol=1e-10)
            y2 = fn(fcn, y0, params=params, method=method, f_tol=1e-10, x_tol=1e-10)
        except Exception as e:
            obs.exc_violation("extra:" + mech, e, y0=desc["y0"])
            obs.nontrivial = True
            return obs.result()
    obs.check(torch.equal(keep.detach(), before), "extra:input_modified:" + mech, "the caller's tensor was modified in place (max change %.3e)" % float((keep.detach() - before).abs().max()))
    obs.check(not wl.convergence, "extra:not_silent:" + mech, "trivial problem (constant map / shift) but the call warned: %s" % wl.convergence[:1])
    err = float((y.detach() - cv).abs().max())
    obs.check(err <= 1e-9, "extra:value:" + mech, "returned point differs from the solution c by %.3e (f_tol 1e-10)" % err, y0=desc["y0"])
    obs.check(torch.equal(y.detach(), y2.detach()), "extra:repeat:" + mech, "the same call gives a different result the second time")
    # (a closure tensor is neither an argument nor held by the function's object: no gradient is promised for it)
    if desc["rg"] and ret != "closure":
        try:
            g, = torch.autograd.grad(y.sum(), keep, allow_unused=True)
            g = torch.zeros_like(keep) if g is None else g
            obs.check(float((g - 1.0).abs().max()) <= 1e-8, "extra:grad:" + mech, "dy/dc must be the identity; got a gradient off by %.3e" % float((g - 1.0).abs().max()))
        except Exception as e:
            obs.exc_violation("extra:grad:" + mech, e)
    obs.count("extra_alias_compared")
    obs.nontrivial = True
    return obs.result()
