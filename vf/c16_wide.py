"""C16 widening (round 6): three generated dimensions, all with the reference estimator of vf/props/c16.py evaluated on the samples the spy saw

    E_j = sum_i W_i(theta_p) f_j(x_i; theta_f),   W = softmax_i(log c_i + log p(x_i; theta_p))

* kind mixdtype    - tuple / list integrands whose components have different dtypes and kinds (float64, float32, bool indicator x > c,
                     integer-valued floor(x).long() / int32 counts) in seeded order, on every sampler.  Every component must equal the
                     explicit weighted sample mean of that component (a float: the mean of an indicator is a probability) AND the same
                     component integrated alone; gradients of the tuple result and of every component alone equal the reference's.
* kind abort_reuse - history "a call in which the user's f / log p raises (at a seeded evaluation index of the forward, of a plain
                     backward, of a graph-building backward or of the second-order backward), exception caught, then the same objects are used
                     again": the objects must hold the tensor objects the user put there, and a fresh mcquad on them gives the reference
                     value and gradients with a plain `backward()` and with create_graph (first and second order).
* kind offset      - log p known up to a constant (the documented expectation is int f p / int p): offsets 0, +-50, +-800 on every sampler;
                     the constant integrand returns the constant, value and gradients equal the reference (which is offset-invariant)."""
import random

import torch

from vf.common import Obs, sub_seed, WarnLog, HarnessBug

DT = torch.float64
COMPS = ["f64", "f64s", "f32", "bool", "bools", "int", "int32s"]
OFFSETS = [0.0, 50.0, -50.0, 800.0, -800.0]


class Injected(Exception):
    pass


def cases(seed, tier):
    out = []
    big = tier != "quick"
    nm, na, no = (72, 72, 45) if not big else (720, 720, 450)
    for i in range(nm):
        rng = random.Random(sub_seed(seed, "c16wm", i))
        k = rng.choice([2, 2, 3, 3, 4])
        comps = [rng.choice(COMPS) for _ in range(k)]
        if all(c in ("f64", "f64s") for c in comps):
            comps[rng.randrange(k)] = rng.choice(["bool", "bools", "int", "int32s", "f32"])
        sampler = ["mhcustom", "_dummy1d", "mh"][i % 3]
        out.append({"group": "extra", "kind": "mixdtype", "seed": sub_seed(seed, "c16wms", i), "sampler": sampler, "comps": comps,
                    "ns": rng.choice([2, 5, 9, 17, 40]), "nb": rng.choice([0, 2, 5]) if sampler != "_dummy1d" else 0,
                    "xshape": 0 if sampler == "_dummy1d" else rng.choice([0, 1, 2, 3]), "aslist": rng.random() < 0.25,
                    "fplace": rng.choice(["explicit", "em"]), "pfam": rng.choice(["gauss", "quartic"])})
    for i in range(na):
        rng = random.Random(sub_seed(seed, "c16wa", i))
        sampler = ["mhcustom", "_dummy1d", "mh"][i % 3]
        out.append({"group": "extra", "kind": "abort_reuse", "seed": sub_seed(seed, "c16was", i), "sampler": sampler,
                    "who": rng.choice(["f", "f", "p"]), "phase": ["bwd_plain", "bwd_plain", "bwd_cg", "fwd", "bwd_plain", "bwd2"][(i // 3) % 6],
                    "kfrac": rng.random(), "fplace": rng.choice(["em", "nn"]), "pplace": rng.choice(["em", "nn", "explicit"]),
                    "ns": rng.choice([2, 4, 7, 12]), "nb": rng.choice([0, 1, 3]) if sampler != "_dummy1d" else 0,
                    "xshape": 0 if sampler == "_dummy1d" else rng.choice([0, 2, 3]), "derived": rng.random() < 0.3})
    for i in range(no):
        rng = random.Random(sub_seed(seed, "c16wo", i))
        sampler = ["mhcustom", "_dummy1d", "mh"][i % 3]
        out.append({"group": "extra", "kind": "offset", "seed": sub_seed(seed, "c16wos", i), "sampler": sampler, "off": OFFSETS[(i // 3) % 5],
                    "ns": rng.choice([3, 8, 20, 50]), "nb": rng.choice([0, 3]) if sampler != "_dummy1d" else 0,
                    "xshape": 0 if sampler == "_dummy1d" else rng.choice([0, 2]), "offparam": rng.random() < 0.5})
    return out


# ------------------------------------------------------------------------------------------------------------ helpers
def _same(a, b):
    return a.shape == b.shape and bool(torch.all((a.to(DT) - b.to(DT)).abs() <= 1e-12 * (1 + b.to(DT).abs())))


def _setup(desc, tg, rng):
    from vf.props import c16
    xshape = c16.XSHAPES[desc["xshape"]]
    d = 1
    for s in xshape:
        d *= s
    x0 = torch.randn(*xshape, dtype=DT, generator=tg) * 0.5 if xshape else torch.randn((), dtype=DT, generator=tg) * 0.5
    opts = {"nsamples": desc["ns"]}
    sampler = desc["sampler"]
    if sampler == "mhcustom":
        raw = c16.make_step(d, xshape, rng.uniform(0, 3))
        opts.update(nburnout=desc["nb"], custom_step=lambda x, *pp: raw(x, 0.1, 1.3))
    elif sampler == "mh":
        opts.update(nburnout=desc["nb"], step_size=rng.choice([0.5, 1.0]))
    else:
        bounds = rng.choice(["inf", "inf", "finite"])
        lb, ub = c16.BOUNDS[bounds]
        opts.update(lb=lb, ub=ub)
    return xshape, d, x0, opts


def _forward_samples(fx, x0, ns):
    """samples of the forward call among the recorded abscissae of f (an optional leading probe at x0 is dropped)"""
    if len(fx) == ns + 1 and _same(fx[0], x0):
        return fx[1:]
    if len(fx) == ns:
        return fx
    return None


def _logc(desc, opts, seen, lp0):
    """log of the fixed factor of the sampler's weight: 1/N (Metropolis samplers) or the tan-mapped Gauss-Legendre weight"""
    from vf.props import c16
    if desc["sampler"] != "_dummy1d":
        return -lp0
    nodes, wl = c16.quad_nodes(desc["ns"], opts["lb"], opts["ub"])
    xs = torch.stack([s.reshape(()) for s in seen])
    if not bool(torch.all((xs - nodes).abs() <= 1e-9 * (1 + nodes.abs()))):
        return None
    return torch.log(wl * (1 + xs * xs))


def _weights(logc, seen, logp, pth):
    lps = torch.stack([logp(x, *pth).reshape(()) for x in seen])
    return torch.softmax(logc + lps, dim=0)


def _lp0(seen, logp, pth):
    with torch.no_grad():
        return torch.stack([logp(x, *pth).reshape(()) for x in seen])


def _gz(g, leaves):
    return [torch.zeros_like(l) if gi is None else gi.detach().to(DT) for gi, l in zip(g, leaves)]


# ------------------------------------------------------------------------------------------------------------ mixdtype
def _component(kind, x, a, b, c):
    xf = x.reshape(-1)
    if kind == "f64":
        return a * xf * xf + torch.sin(b * xf)
    if kind == "f64s":
        return (a * xf).sum() * b
    if kind == "f32":
        return (torch.cos(a * xf) * b).to(torch.float32)
    if kind == "bool":
        return xf > c
    if kind == "bools":
        return xf.sum() > c
    if kind == "int":
        return torch.floor(xf * 2).long()
    if kind == "int32s":
        return torch.floor(xf).to(torch.int32).sum()
    raise HarnessBug(kind)


def run_mixdtype(desc):
    import xitorch
    from xitorch.integrate import mcquad
    from vf.props import c16
    obs = Obs(desc)
    rng = random.Random(desc["seed"])
    tg = torch.Generator().manual_seed(desc["seed"])
    sampler, comps, ns = desc["sampler"], desc["comps"], desc["ns"]
    xshape, d, x0, opts = _setup(desc, tg, rng)
    a = (0.5 + torch.rand(d, dtype=DT, generator=tg)).requires_grad_()
    b = (0.7 + 0.8 * torch.rand((), dtype=DT, generator=tg)).requires_grad_()
    mu = (0.4 * torch.randn(d, dtype=DT, generator=tg)).requires_grad_()
    sig = (0.7 + 0.8 * torch.rand((), dtype=DT, generator=tg)).requires_grad_()
    cth = float(mu.detach().reshape(-1)[0]) + rng.uniform(-0.3, 0.3)
    leaves = [a, b, mu, sig]
    pbody, _ = c16.make_p_body(desc["pfam"], False)
    log = []

    def logp(x, mu_, sig_):
        return pbody(x, [mu_, sig_], 1.0)

    def fall(x, a_, b_):
        log.append(x.detach().clone())
        r = [_component(k, x, a_, b_, cth) for k in comps]
        return r if desc["aslist"] else tuple(r)

    def make(fun):
        """callable + fparams for the chosen placement of (a, b)"""
        if desc["fplace"] == "explicit":
            return fun, [a, b]

        class E(xitorch.EditableModule):
            def __init__(self):
                self.a, self.b = a, b

            def forward(self, x):
                return fun(x, self.a, self.b)

            def getparamnames(self, methodname, prefix=""):
                return [prefix + "a", prefix + "b"]
        return E().forward, []

    def run(fun):
        del log[:]
        torch.manual_seed(desc["seed"])
        fc, fp = make(fun)
        with WarnLog():
            r = mcquad(fc, logp, x0.clone(), fparams=fp, pparams=[mu, sig], method=sampler, **opts)
        return r, _forward_samples(list(log), x0, ns)
    cls = "+".join(sorted(set(c.rstrip("s") if c != "int32s" else "int" for c in comps)))
    mech = "%s:%s" % (sampler, cls)
    obs.count("wide_mixdtype_%s" % sampler)
    try:
        res, seen = run(fall)
    except Exception as e:
        obs.exc_violation("mixdtype:forward:" + mech, e, comps=comps)
        obs.nontrivial = True
        return obs.result()
    ok = isinstance(res, (tuple, list)) and len(res) == len(comps) and all(isinstance(o, torch.Tensor) for o in res)
    obs.check(ok, "mixdtype:structure:" + mech, "integrand returns %d components, result is %s" % (len(comps), type(res).__name__))
    if not ok:
        return obs.result()
    if seen is None:
        obs.violation("mixdtype:accounting:" + mech, "f was evaluated on %d points for nsamples=%d" % (len(log), ns))
        return obs.result()
    logc = _logc(desc, opts, seen, _lp0(seen, logp, [mu, sig]))
    if logc is None:
        obs.violation("mixdtype:accounting:" + mech, "the samples are not the tan-mapped Gauss-Legendre nodes")
        return obs.result()

    def ref_components():
        W = _weights(logc, seen, logp, [mu, sig])
        outs = None
        for i, x in enumerate(seen):
            fo = [_component(k, x, a, b, cth).to(DT) for k in comps]
            outs = [W[i] * o for o in fo] if outs is None else [acc + W[i] * o for acc, o in zip(outs, fo)]
        return outs
    refs = ref_components()
    anyf32 = "f32" in comps or any(o.dtype != DT for o in res)      # cotangents pass through a float32 cast: float32 rounding
    for j, (o, r, k) in enumerate(zip(res, refs, comps)):
        if tuple(o.shape) != tuple(r.shape):
            obs.violation("mixdtype:shape:%s:%s" % (k, sampler), "component %d (%s) has shape %s, integrand returns %s" % (j, k, tuple(o.shape), tuple(r.shape)))
            return obs.result()
        obs.check(o.dtype.is_floating_point, "mixdtype:mean_dtype:%s:%s" % (k, sampler),
                  "the average of component %d (%s) over %d samples is returned as %s: a mean of indicator / integer values is a float" % (j, k, ns, o.dtype),
                  comps=comps)
        tol = 1e-9 if o.dtype == DT else 2e-4
        err = float((o.detach().to(DT) - r.detach()).abs().max())
        obs.check(err <= tol * (1 + float(r.detach().abs().max())), "mixdtype:value:%s:%s" % (k, sampler),
                  "component %d (%s) of the tuple result differs from the explicit weighted mean of that component over the samples the spy saw: "
                  "|diff| = %.3e" % (j, k, err), got=o, ref=r, comps=comps)
        obs.count("wide_mixdtype_%s_components" % {"bools": "bool", "int32s": "int", "f64s": "f64"}.get(k, k))
    obs.count("wide_mixdtype_compared")
    # ---- gradient of the tuple result
    cg = torch.Generator().manual_seed(desc["seed"] ^ 0x77)
    Cs = [torch.randn(r.shape, dtype=DT, generator=cg) for r in refs]
    L = sum((o.to(DT) * c).sum() for o, c in zip(res, Cs))
    Lr = sum((r * c).sum() for r, c in zip(refs, Cs))
    gr = _gz(torch.autograd.grad(Lr, leaves, allow_unused=True, retain_graph=True), leaves)
    nonzero = any(float(g.abs().max()) > 1e-8 for g in gr)
    if isinstance(L, torch.Tensor) and L.requires_grad:
        try:
            g = _gz(torch.autograd.grad(L, leaves, allow_unused=True), leaves)
        except Exception as e:
            obs.exc_violation("mixdtype:backward:" + mech, e, comps=comps)
            g = None
        if g is not None:
            tol = 2e-4 if anyf32 else 1e-9
            sc = 1 + max(float(x.abs().max()) for x in gr)
            for nm_, gi, ri in zip(("a", "b", "mu", "sig"), g, gr):
                err = float((gi - ri).abs().max())
                obs.check(err <= tol * sc, "mixdtype:grad:%s:%s" % (nm_, mech), "gradient of the tuple result w.r.t. %s differs from the reference "
                          "estimator by %.3e (scale %.2e)" % (nm_, err, sc), comps=comps)
            obs.count("wide_mixdtype_grad_compared")
    else:
        obs.check(not nonzero, "mixdtype:grad_absent:" + mech, "the tuple result carries no graph although the reference gradient is non-zero", comps=comps)
    # ---- every component integrated alone (same seed -> the same chain)
    for j, k in enumerate(comps):
        def falone(x, a_, b_, k=k):
            log.append(x.detach().clone())
            return _component(k, x, a_, b_, cth)
        kk = {"bools": "bool", "int32s": "int", "f64s": "f64"}.get(k, k)
        try:
            ra, seen_a = run(falone)
        except Exception as e:
            obs.exc_violation("mixdtype:alone_forward:%s:%s" % (kk, sampler), e)
            continue
        if seen_a is None or len(seen_a) != len(seen) or not all(_same(u, v) for u, v in zip(seen_a, seen)):
            raise HarnessBug("the component integrated alone did not see the samples of the tuple call")
        tol = 1e-9 if (ra.dtype == DT and res[j].dtype == DT) else 2e-4
        err = float((ra.detach().to(DT) - res[j].detach().to(DT)).abs().max()) if ra.shape == res[j].shape else float("inf")
        obs.check(err <= tol * (1 + float(refs[j].detach().abs().max())), "mixdtype:tuple_vs_alone:%s:%s" % (kk, sampler),
                  "component %d (%s) of the tuple result differs from the same integrand integrated alone by %.3e" % (j, k, err), comps=comps,
                  tuple_component=res[j], alone=ra)
        obs.count("wide_alone_compared")
        # gradient of the component alone (w.r.t. tensors of f: mean of df; w.r.t. tensors of log p: covariance estimator)
        La_ref = (refs[j] * Cs[j]).sum()
        gar = _gz(torch.autograd.grad(La_ref, leaves, allow_unused=True, retain_graph=True), leaves)
        if isinstance(ra, torch.Tensor) and ra.requires_grad:
            try:
                ga = _gz(torch.autograd.grad((ra.to(DT) * Cs[j]).sum(), leaves, allow_unused=True), leaves)
            except Exception as e:
                obs.exc_violation("mixdtype:alone_backward:%s:%s" % (kk, sampler), e)
                continue
            tol = 1e-9 if (ra.dtype == DT and k != "f32") else 2e-4
            sc = 1 + max(float(x.abs().max()) for x in gar)
            for nm_, gi, ri in zip(("a", "b", "mu", "sig"), ga, gar):
                err = float((gi - ri).abs().max())
                obs.check(err <= tol * sc, "mixdtype:alone_grad:%s:%s:%s" % (kk, nm_, sampler), "gradient of E[%s component] w.r.t. %s differs from "
                          "the reference estimator by %.3e (scale %.2e)" % (k, nm_, err, sc))
            obs.count("wide_alone_grad_compared")
            if kk in ("bool", "int"):
                obs.count("wide_indicator_logp_grad_compared")
    ndistinct = len({tuple(s.reshape(-1).tolist()) for s in seen})
    obs.note(comps=comps, result_dtypes=[str(o.dtype) for o in res], samples=len(seen))
    obs.nontrivial = ndistinct >= 2
    return obs.result()


# ------------------------------------------------------------------------------------------------------------ abort_reuse
def run_abort(desc):
    import xitorch
    from xitorch.integrate import mcquad
    from vf.props import c16
    obs = Obs(desc)
    rng = random.Random(desc["seed"])
    tg = torch.Generator().manual_seed(desc["seed"])
    sampler, ns, who, phase = desc["sampler"], desc["ns"], desc["who"], desc["phase"]
    xshape, d, x0, opts = _setup(desc, tg, rng)
    K = torch.randn(3, d, dtype=DT, generator=tg) * 0.6
    fplace, pplace = desc["fplace"], desc["pplace"]
    vals = {"a": 0.5 + torch.rand(d, dtype=DT, generator=tg), "b": 0.7 + 0.8 * torch.rand((), dtype=DT, generator=tg),
            "mu": 0.4 * torch.randn(d, dtype=DT, generator=tg), "sig": 0.7 + 0.8 * torch.rand((), dtype=DT, generator=tg)}
    leaves, handed = {}, {}
    for n, v in vals.items():
        nn_ = (fplace if n in ("a", "b") else pplace) == "nn"
        leaves[n] = torch.nn.Parameter(v.clone()) if nn_ else v.clone().requires_grad_()
        handed[n] = leaves[n] * 1.0 if (desc["derived"] and not nn_) else leaves[n]
    names = ["a", "b", "mu", "sig"]
    lv = [leaves[n] for n in names]
    state = {"n": 0, "raise_at": None, "phase": "idle"}
    flog = []

    def tick(which):
        if which == who:
            state["n"] += 1
            if state["raise_at"] is not None and state["n"] == state["raise_at"]:
                raise Injected("injected failure of the user's %s at its evaluation %d" % (which, state["n"]))

    def fbody(x, a_, b_):
        xf = x.reshape(-1)
        return torch.tanh(K @ (a_ * xf)) * b_ + (K @ xf) ** 2

    def pbody(x, mu_, sig_):
        xf = x.reshape(-1)
        return -((xf - mu_) ** 2).sum() / (2 * sig_ * sig_)

    def mkobj(place, held, body, which):
        def call(self, x, *args):
            if which == "f" and state["phase"] == "fwd":
                flog.append(x.detach().clone())
            tick(which)
            return body(x, *[getattr(self, n) for n in held], *args)
        if place == "nn":
            class M(torch.nn.Module):
                def __init__(self):
                    super().__init__()
                    for n in held:
                        setattr(self, n, handed[n])
                forward = call
            return M()

        class E(xitorch.EditableModule):
            def __init__(self):
                for n in held:
                    setattr(self, n, handed[n])
            forward = call

            def getparamnames(self, methodname, prefix=""):
                return [prefix + n for n in held]
        return E()
    fobj = mkobj(fplace, ["a", "b"], fbody, "f")
    if pplace == "explicit":
        pobj = None

        def pcall(x, mu_, sig_):
            tick("p")
            return pbody(x, mu_, sig_)
        pparams = [handed["mu"], handed["sig"]]
    else:
        pobj = mkobj(pplace, ["mu", "sig"], pbody, "p")
        pcall, pparams = pobj.forward, []
    cgen = torch.Generator().manual_seed(desc["seed"] ^ 0x33)
    C = torch.randn(3, dtype=DT, generator=cgen)
    C2 = [torch.randn(l.shape, dtype=DT, generator=cgen) for l in lv]
    mech = "%s:%s_%s" % (sampler, who, phase)

    def call():
        torch.manual_seed(desc["seed"])
        del flog[:]
        state["phase"] = "fwd"
        try:
            return mcquad(fobj.forward, pcall, x0.clone(), fparams=[], pparams=pparams, method=sampler, **opts)
        finally:
            state["phase"] = "idle"

    def full(mode):
        marks = {}
        with WarnLog():
            y = call()
            marks["fwd"] = state["n"]
            L = (y * C).sum()
            if mode in ("bwd_plain", "fwd"):
                torch.autograd.grad(L, lv, allow_unused=True, retain_graph=True)
                marks["bwd_plain"] = state["n"]
            else:
                g = torch.autograd.grad(L, lv, create_graph=True, allow_unused=True)
                marks["bwd_cg"] = state["n"]
                L2 = sum((gi * c).sum() for gi, c in zip(g, C2) if gi is not None and gi.requires_grad)
                if isinstance(L2, torch.Tensor) and L2.requires_grad:
                    torch.autograd.grad(L2, lv, allow_unused=True, retain_graph=True)
                marks["bwd2"] = state["n"]
        return marks
    # ---- run 1: clean, counts the evaluations of each phase
    try:
        state["n"] = 0
        marks = full(phase)
    except Exception as e:
        obs.exc_violation("abort_reuse:clean_run:" + mech, e)
        obs.nontrivial = True
        return obs.result()
    lo = {"fwd": 0, "bwd_plain": marks["fwd"], "bwd_cg": marks["fwd"], "bwd2": marks.get("bwd_cg", 0)}[phase]
    hi = marks[phase]
    if hi <= lo:
        obs.skip("no evaluation of %s in phase %s" % (who, phase))
        return obs.result()
    k = lo + 1 + int(desc["kfrac"] * (hi - lo - 1e-9))
    # ---- run 2: the k-th evaluation raises, the caller catches it
    state["n"], state["raise_at"] = 0, k
    raised = False
    try:
        full(phase)
    except Injected:
        raised = True
    except Exception as e:
        raised = "injected failure" in str(e) or state["n"] >= k
        obs.note(wrapped_exception="%s: %s" % (type(e).__name__, str(e)[:120]))
    state["raise_at"] = None
    if not raised:
        obs.skip("the injected failure was not reached (evaluation %d)" % k)
        return obs.result()
    obs.count("wide_abort_injected_%s" % ("fwd" if phase == "fwd" else "bwd"))
    obs.count("wide_abort_injected_%s_%s" % (who, phase))
    # ---- the objects must hold what the user put there
    stale = []
    for o, held in ((fobj, ["a", "b"]), (pobj, ["mu", "sig"])):
        if o is None:
            continue
        for n in held:
            if getattr(o, n) is not handed[n]:
                stale.append(n)
    obs.check(not stale, "abort_reuse:object_state:" + mech, "after the caught failure of %s in phase %s the user's object holds another tensor object "
              "than the one the user put there for: %s" % (who, phase, ", ".join(stale)), fplace=fplace, pplace=pplace)

    # ---- run 3: the same objects are used again
    def reference(seen):
        th = {n: (leaves[n] * 1.0 if (desc["derived"] and not isinstance(leaves[n], torch.nn.Parameter)) else leaves[n]) for n in names}
        logc = _logc(desc, opts, seen, _lp0(seen, pbody, [th["mu"], th["sig"]]))
        if logc is None:
            return None
        W = _weights(logc, seen, pbody, [th["mu"], th["sig"]])
        return sum(W[i] * fbody(x, th["a"], th["b"]) for i, x in enumerate(seen))

    def compare(tag, got, ref, tol):
        sc = 1 + max(float(x.abs().max()) for x in ref)
        for n, gi, ri in zip(names, got, ref):
            err = float((gi - ri).abs().max())
            obs.check(err <= tol * sc, "abort_reuse:%s:%s:%s" % (tag, n, mech), "%s w.r.t. %s of a fresh mcquad call on the same objects after a caught "
                      "failure differs from the reference estimator by %.3e (scale %.2e)" % (tag, n, err, sc), fplace=fplace, pplace=pplace,
                      got=gi, ref=ri)
    try:
        with WarnLog():
            y = call()
            seen = _forward_samples(list(flog), x0, ns)
            if seen is None:
                obs.violation("abort_reuse:accounting:" + mech, "f was evaluated on %d points for nsamples=%d" % (len(flog), ns))
                return obs.result()
            yr = reference(seen)
            if yr is None:
                obs.violation("abort_reuse:accounting:" + mech, "the samples are not the tan-mapped Gauss-Legendre nodes")
                return obs.result()
            err = float((y.detach() - yr.detach()).abs().max())
            obs.check(err <= 1e-9 * (1 + float(yr.detach().abs().max())), "abort_reuse:value:" + mech, "value of the fresh call differs by %.3e" % err)
            gr = _gz(torch.autograd.grad((yr * C).sum(), lv, create_graph=True, allow_unused=True), lv)
            grg = torch.autograd.grad((yr * C).sum(), lv, create_graph=True, allow_unused=True)
            S = sum((gi * c).sum() for gi, c in zip(grg, C2) if gi is not None and gi.requires_grad)
            hr = _gz(torch.autograd.grad(S, lv, allow_unused=True, retain_graph=True), lv)
            # plain backward()
            for l in lv:
                l.grad = None
            (y * C).sum().backward(retain_graph=True)      # derived (non-leaf) tensors are shared by all calls of the case
            gp = [torch.zeros_like(l) if l.grad is None else l.grad.detach().clone() for l in lv]
            absent = [n for n, l in zip(names, lv) if l.grad is None]
            for l in lv:
                l.grad = None
            obs.note(absent_after_plain_backward=absent)
            compare("grad_plain", gp, gr, 1e-9)
            # graph-building backward + second order on another fresh call
            y2 = call()
            g2 = torch.autograd.grad((y2 * C).sum(), lv, create_graph=True, allow_unused=True)
            compare("grad_cg", _gz(g2, lv), gr, 1e-9)
            S2 = sum((gi * c).sum() for gi, c in zip(g2, C2) if gi is not None and gi.requires_grad)
            h2 = _gz(torch.autograd.grad(S2, lv, allow_unused=True, retain_graph=True), lv) if isinstance(S2, torch.Tensor) and S2.requires_grad else [torch.zeros_like(l) for l in lv]
            compare("grad_second", h2, hr, 1e-8)
    except Exception as e:
        obs.exc_violation("abort_reuse:reuse:" + mech, e)
        obs.nontrivial = True
        return obs.result()
    obs.count("wide_abort_reuse_compared")
    obs.nontrivial = True
    return obs.result()


# ------------------------------------------------------------------------------------------------------------ offset
def run_offset(desc):
    from xitorch.integrate import mcquad
    obs = Obs(desc)
    rng = random.Random(desc["seed"])
    tg = torch.Generator().manual_seed(desc["seed"])
    sampler, ns, off = desc["sampler"], desc["ns"], desc["off"]
    xshape, d, x0, opts = _setup(desc, tg, rng)
    a = (0.5 + torch.rand(d, dtype=DT, generator=tg)).requires_grad_()
    mu = (0.4 * torch.randn(d, dtype=DT, generator=tg)).requires_grad_()
    sig = (0.7 + 0.8 * torch.rand((), dtype=DT, generator=tg)).requires_grad_()
    offt = torch.tensor(off, dtype=DT)
    cval = torch.randn(3, dtype=DT, generator=tg)
    leaves = [a, mu, sig]
    log = []
    offcls = ("p" if off > 0 else "m" if off < 0 else "") + "%d" % abs(off)
    mech = "%s:%s" % (sampler, offcls)

    def logp(x, mu_, sig_, *o):
        # the density is known up to a constant factor exp(off) (a python float in the closure or a parameter without grad)
        c = o[0] if o else off
        return -((x.reshape(-1) - mu_) ** 2).sum() / (2 * sig_ * sig_) + c
    pparams = [mu, sig] + ([offt] if desc["offparam"] else [])

    def f(x, a_):
        log.append(x.detach().clone())
        xf = x.reshape(-1)
        return a_ * xf * xf + torch.sin(a_ * xf)

    def fconst(x, a_):
        return cval.clone()

    def run(fun):
        del log[:]
        torch.manual_seed(desc["seed"])
        with WarnLog():
            return mcquad(fun, logp, x0.clone(), fparams=[a], pparams=pparams, method=sampler, **opts)
    obs.count("wide_offset_%s" % sampler)
    try:
        ec = run(fconst)
        y = run(f)
    except Exception as e:
        obs.exc_violation("offset:forward:" + mech, e)
        obs.nontrivial = True
        return obs.result()
    seen = _forward_samples(list(log), x0, ns)
    err = float((ec.detach() - cval).abs().max())
    obs.check(err <= 1e-12 * (1 + float(cval.abs().max())), "offset:const:" + mech, "log p = log-density + (%g): the constant integrand is returned with "
              "error %.3e (the weights do not sum to one)" % (off, err), got=ec, want=cval)
    if seen is None:
        obs.violation("offset:accounting:" + mech, "f was evaluated on %d points for nsamples=%d" % (len(log), ns))
        return obs.result()
    logc = _logc(desc, opts, seen, _lp0(seen, logp, pparams))
    if logc is None:
        obs.violation("offset:accounting:" + mech, "the samples are not the tan-mapped Gauss-Legendre nodes")
        return obs.result()
    W = _weights(logc, seen, logp, pparams)
    yr = sum(W[i] * (a * x.reshape(-1) ** 2 + torch.sin(a * x.reshape(-1))) for i, x in enumerate(seen))
    err = float((y.detach() - yr.detach()).abs().max())
    obs.check(err <= 1e-9 * (1 + float(yr.detach().abs().max())), "offset:value:" + mech, "value differs from the explicit weighted mean by %.3e" % err)
    C = torch.randn(d, dtype=DT, generator=tg)
    gr = _gz(torch.autograd.grad((yr * C).sum(), leaves, allow_unused=True), leaves)
    try:
        g = _gz(torch.autograd.grad((y * C).sum(), leaves, allow_unused=True), leaves)
        sc = 1 + max(float(x.abs().max()) for x in gr)
        for n, gi, ri in zip(("a", "mu", "sig"), g, gr):
            e_ = float((gi - ri).abs().max())
            obs.check(e_ <= 1e-9 * sc, "offset:grad:%s:%s" % (n, mech), "gradient w.r.t. %s differs from the reference estimator by %.3e" % (n, e_))
    except Exception as e:
        obs.exc_violation("offset:backward:" + mech, e)
    obs.count("wide_offset_compared")
    if abs(off) >= 800:
        obs.count("wide_offset_large_compared")
    obs.nontrivial = len({tuple(s.reshape(-1).tolist()) for s in seen}) >= 2
    return obs.result()


def run_case(desc):
    return {"mixdtype": run_mixdtype, "abort_reuse": run_abort, "offset": run_offset}[desc["kind"]](desc)
