"""C10 - functionals never leave the caller's objects modified, even on failure.

Crash-point enumeration with invariant hooks: a clean seeded run counts how often the user's function (or a LinearOperator
product) is evaluated in each phase (forward / backward / graph-recording backward / double backward); the run is then repeated
with a private exception injected at the k-th evaluation.  After every run - completed or crashed - a deep snapshot of the
caller's objects (tensor identity, value, Parameter registration and order, container shapes) must equal the one taken before,
every PureFunction created during the call must be quiescent (empty restore stack, state change allowed, current tensors ==
the object's tensors), every restore must have been LIFO, and the global debug flag must have its previous value."""
import random
import weakref

import torch

from vf.common import Obs, sub_seed, HarnessBug, Boom, BoomBase, WarnLog
from vf import funcs, gen, c10_extra

LEVEL = "fault_enumeration"
TECHNIQUE = ("runtime fault injection at user-callback boundaries (crash-point enumeration from a counted clean run) with invariant "
             "hooks: deep object snapshots, PureFunction set/restore shadow stacks (LIFO), debug-flag monitor")
LEVEL_TEXT = ("Every functional (rootfinder, equilibrium, minimize, solve_ivp, quad, mcquad, jac, hess; solve and symeig with a raising "
              "operator product) x 17 object-holding representations x {forward, backward, graph-recording backward, double backward} "
              "with the user's function raising at enumerated evaluation indices (quick: first/middle/last + random; thorough: every "
              "index up to a cap), plus exhaustive small histories of nested parameter substitutions (identical / different / aliased "
              "tensors, exception at each level) and nested debug contexts; after each run the objects' tensors (identity, value, "
              "Parameter registration and order), the substitution stacks and the debug flag are compared with their state before.")
LEVEL_NOTE = ("Faults are injected only where the property quantifies them (user function / operator product evaluations), not at "
              "arbitrary interpreter lines; crash indices are relative to a seeded deterministic clean run (a crash point that is not "
              "reached makes the case trivial, never a pass).")
RULE = ("case = (scenario, functional or history, representation, phase, crash-index selection); non-trivial = at least one injected "
        "crash was reached (Boom observed) and the object snapshot contained at least one tensor, or (history scenarios) the history "
        "performed at least one substitution / flag change")
RULE += ('; linop scenario also with operators composed of repeated building blocks (parameter list with repeated tensors)')
RULE += ('; func_mixed: objects holding tensors of mixed dtypes / kinds in generated attribute order (vf/c10_extra.py), debug mode on and off; '
         'there the object is compared also after a call that fails by itself (mechanism suffix call_failed)')
MIN_NONTRIVIAL = {"quick": 300, "thorough": 1500}
REQUIRED_COUNTERS = {"quick": {"base_exception_crashes": 100, "linop_composed_cases": 8, "crash_points_reached": 1500, "restore_events": 3000, "snapshots_compared": 2000,
                               "mixed_calls_object_with_two_or_more_dtypes": 30, "mixed_debug_calls_nonfloat_tensor_ahead_of_float": 8,
                               "mixed_debug_calls_tuple_held_tensor": 2, "mixed_backward_calls_none_registered_parameter": 3,
                               "mixed_crash_points_reached": 60, "mixed_debug_crash_points_reached": 30},
                     "thorough": {"base_exception_crashes": 1000, "linop_composed_cases": 40, "crash_points_reached": 15000, "restore_events": 30000, "snapshots_compared": 20000,
                                  "mixed_calls_object_with_two_or_more_dtypes": 300, "mixed_debug_calls_nonfloat_tensor_ahead_of_float": 80,
                                  "mixed_debug_calls_tuple_held_tensor": 20, "mixed_backward_calls_none_registered_parameter": 30,
                                  "mixed_crash_points_reached": 1500, "mixed_debug_crash_points_reached": 600}}
ASSUMPTIONS = ["single-threaded, seeded: the clean run and each injected run build identical objects from the same seed",
               "the snapshot ignores xitorch's own non-tensor caches on the object (_paramnames_, _unique_params_*, _number_of_params)",
               "attribute order in a plain object's __dict__ is not compared; nn.Module._parameters order is",
               "func_mixed: 3 parameters + 1-4 additional tensors (complex64/128, int32/64, bool, float16/32, float64 constants, leaves that are not "
               "parameters) held as attributes / in lists, dicts, tuples, plain sub-objects, inner nn.Modules (EditableModule family) or as registered "
               "Parameters (also None), buffers, plain attributes, child modules (nn.Module family); tuple-held tensors are never listed as parameters"]
BUDGET = {"quick": {"worker_timeout": 900, "case_timeout": 240}, "thorough": {"worker_timeout": 3400, "case_timeout": 900}}

PHASES = ("fwd", "bwd", "bwd_cg", "bwd2")
OBJ_REPS = [r for r in funcs.REPS if r not in ("pure", "pure_nontensor", "jit")]
FNAMES = list(funcs.FUNCTIONALS) + ["mcquad:mh"]
XITORCH_CACHE_ATTRS = ("_paramnames_", "_unique_params_idxs", "_unique_params_maps", "_number_of_params")


# ------------------------------------------------------------------------------------------------ cases
def cases(seed, tier):
    out = []
    k = 0
    quick = tier == "quick"
    for fname in FNAMES:
        for rep in OBJ_REPS:
            rng = random.Random(sub_seed(seed, "c10", fname, rep))
            phases = [rng.choice(PHASES)] if quick else list(PHASES)
            if quick and rng.random() < 0.35:
                phases.append(rng.choice(PHASES))
            for ph in sorted(set(phases)):
                derived = (rep not in funcs.NN_REPS) and rng.random() < 0.5
                rg = [1, 1, 1] if rng.random() < 0.4 else [int(rng.random() < 0.6) for _ in range(3)]
                if not any(rg):
                    rg[rng.randrange(3)] = 1
                out.append({"group": "func", "functional": fname, "rep": rep, "derived": derived, "phase": ph, "rg": rg,
                            "debug": False, "maxpts": 8 if quick else 40, "d": rng.choice([2, 3, 2, 3, 7]), "s": 0.4,
                            "seed": sub_seed(seed, "c10s", k)})
                k += 1
    # debug mode on: the implementation check substitutes every tensor of an EditableModule before the functional starts
    for fname in FNAMES:
        for rep in ("em_flat", "em_container", "em_alias", "em_nn", "em_mixed"):
            rng = random.Random(sub_seed(seed, "c10dbg", fname, rep))
            if quick and rng.random() < 0.5:
                continue
            out.append({"group": "func_debug", "functional": fname, "rep": rep, "derived": rng.random() < 0.5, "phase": "fwd",
                        "debug": True, "maxpts": 6 if quick else 40, "d": 2, "s": 0.4, "seed": sub_seed(seed, "c10s", k)})
            k += 1
    # raising LinearOperator products inside solve / symeig
    for fn in ("solve", "symeig"):
        for method in (["cg", "bicgstab", "gmres", "exactsolve", "broyden1"] if fn == "solve" else ["davidson", "exacteig", "custom_exacteig"]):
            for ph in PHASES:
                for withM in (False, True):
                    rng = random.Random(sub_seed(seed, "c10lin", fn, method, ph, withM))
                    if quick and rng.random() < 0.4:
                        continue
                    out.append({"group": "linop", "functional": fn, "method": method, "phase": ph, "withM": withM, "debug": False,
                                "maxpts": 8 if quick else 40, "n": rng.choice([4, 6, 7]), "seed": sub_seed(seed, "c10s", k)})
                    k += 1
                    if ph == "fwd" or rng.random() < 0.3:
                        # debug mode on: the operators are checked (products evaluated) before the solver starts
                        out.append({"group": "linop", "functional": fn, "method": method, "phase": ph, "withM": withM, "debug": True,
                                    "maxpts": 10 if quick else 40, "n": rng.choice([4, 6]), "seed": sub_seed(seed, "c10s", k)})
                        k += 1
                    if method != "exacteig" and (not quick or rng.random() < 0.6):
                        # A composed of building blocks that occur several times: parameter list (a, a, b, c, b) (with each block's extra tensor)
                        out.append({"group": "linop", "functional": fn, "method": method, "phase": ph, "withM": withM, "debug": False, "compose": "blocks",
                                    "maxpts": 4 if quick else 20, "n": rng.choice([6, 7]), "seed": sub_seed(seed, "c10s", k)})
                        k += 1
    # exhaustive small histories of nested substitutions: per level {same, diff, alias}, exception raised at the innermost level or not
    for rep in ("em_flat", "em_alias", "em_container", "nn_flat", "nn_tied", "em_nn_reordered", "sib_multi_shared", "sib_single"):
        for depth in (1, 2, 3):
            nseq = 3 ** depth
            for code in range(nseq):
                for exc in (False, True, "base"):
                    if quick and depth == 3 and (code + (1 if exc else 0) + sub_seed(seed, rep) % 3) % 3 != 0:
                        continue
                    if exc == "base" and quick and depth == 3:
                        continue
                    out.append({"group": "nested_subst", "rep": rep, "depth": depth, "code": code, "exc": exc,
                                "seed": sub_seed(seed, "c10s", k)})
                    k += 1
    # exhaustive small histories of nested debug contexts
    for init in (False, True):
        for depth in (1, 2, 3):
            for code in range(2 ** depth):
                for exc in (False, True, "base"):
                    out.append({"group": "debug_nesting", "init": init, "depth": depth, "code": code, "exc": exc,
                                "seed": sub_seed(seed, "c10s", k)})
                    k += 1
    # a functional called inside another functional's callback, on the same object
    for outer in ("rootfinder", "equilibrium", "solve_ivp"):
        for inner in ("quad", "equilibrium", "rootfinder"):
            for ph in PHASES:
                out.append({"group": "nested_functional", "outer": outer, "inner": inner, "phase": ph, "maxpts": 8 if quick else 50,
                            "seed": sub_seed(seed, "c10s", k)})
                k += 1
    # objects holding tensors of mixed dtypes / kinds (complex, integer, bool, float32/16 next to float64, tensors that are not parameters of
    # the method) in generated attribute order and holders, debug mode on and off; `tuple`: an immutable container among the holders;
    # `none`: nn.Module parameters registered as None
    mixed_fn = ["quad:7", "rootfinder:broyden1", "equilibrium:anderson_acc", "solve_ivp:rk4", "minimize:broyden1", "jac:rmv", "hess:mv",
                "mcquad:mh", "rootfinder:newton", "solve_ivp:rk45", "quad:20", "jacsolve:bicgstab"]
    nmix = {"em_debug": 26, "em": 8, "em_tuple": 8, "nn": 10, "nn_none": 8} if quick else {"em_debug": 90, "em": 30, "em_tuple": 24, "nn": 36, "nn_none": 24}
    for variant in ("em_debug", "em", "em_tuple", "nn", "nn_none"):
        for i in range(nmix[variant]):
            rng = random.Random(sub_seed(seed, "c10mixed", variant, i))
            family = "nn" if variant.startswith("nn") else "em"
            layout = c10_extra.gen_layout(rng, family, with_tuple=(variant == "em_tuple"), with_none=(variant == "nn_none"))
            debug = variant == "em_debug" or (variant == "em_tuple" and rng.random() < 0.75)
            fname = mixed_fn[(i + sub_seed(seed, "c10mixfn", variant)) % len(mixed_fn)]
            ph = "fwd" if (debug and rng.random() < 0.6) else rng.choice(PHASES)
            if variant == "nn_none":
                # (parameters are substituted in the backward passes only; jac / hess products evaluate the function in the forward call only)
                ph = rng.choice(PHASES[1:]) if ph == "fwd" else ph
                while fname.startswith(("jac:", "hess:")):
                    fname = rng.choice(mixed_fn)
            elif fname.startswith(("jac:", "hess:")):
                ph = "fwd"
            rg = [1, 1, 1] if rng.random() < 0.5 else [int(rng.random() < 0.6) for _ in range(3)]
            if not any(rg):
                rg[rng.randrange(3)] = 1
            out.append({"group": "func_mixed", "variant": variant, "functional": fname, "family": family, "layout": layout,
                        "rep": c10_extra.rep_label(family, layout), "derived": family == "em" and rng.random() < 0.5,
                        "list_real": rng.random() < 0.5, "order": rng.randrange(6), "phase": ph, "rg": rg, "debug": debug,
                        "maxpts": 5 if quick else 16, "d": rng.choice([2, 3]), "s": 0.4, "seed": sub_seed(seed, "c10s", k)})
            k += 1
    return out


# ------------------------------------------------------------------------------------------------ monitors
def snapshot(objs):
    """ordered records describing every tensor slot reachable from the caller's objects"""
    recs = []
    memo = set()

    def tens(path, t):
        recs.append(("T", path, id(t), type(t).__name__, bool(t.requires_grad), t.detach().clone()))

    def walk(path, o, depth):
        if isinstance(o, torch.Tensor):
            tens(path, o)
            return
        if depth > 8:
            return
        if isinstance(o, (int, float, str, bool, type(None))):
            recs.append(("V", path, o))
            return
        if id(o) in memo:
            recs.append(("R", path, id(o)))
            return
        if isinstance(o, torch.nn.Module):
            memo.add(id(o))
            recs.append(("M", path, id(o), tuple(o._parameters.keys()), tuple(o._modules.keys()), tuple(o._buffers.keys())))
            for k, v in o._parameters.items():
                if v is None:
                    recs.append(("V", path + "." + k, None))
                else:
                    tens(path + "." + k, v)
            for k, v in o._buffers.items():
                if v is not None:
                    tens(path + ".<buffer>" + k, v)
            for k, v in o._modules.items():
                walk(path + "." + k, v, depth + 1)
            for k in sorted(o.__dict__):
                if k.startswith("_") or k == "training":
                    continue
                walk(path + "." + k, o.__dict__[k], depth + 1)
            return
        if isinstance(o, (list, tuple)):
            memo.add(id(o))
            recs.append(("L", path, id(o), type(o).__name__, len(o)))
            for i, v in enumerate(o):
                walk("%s[%d]" % (path, i), v, depth + 1)
            return
        if isinstance(o, dict):
            memo.add(id(o))
            recs.append(("D", path, id(o), tuple(o.keys())))
            for k_, v in o.items():
                walk("%s[%r]" % (path, k_), v, depth + 1)
            return
        if hasattr(o, "__dict__") and not callable(o):
            memo.add(id(o))
            keys = sorted(k for k in o.__dict__ if k not in XITORCH_CACHE_ATTRS)
            recs.append(("O", path, id(o), tuple(keys)))
            for k in keys:
                walk(path + "." + k, o.__dict__[k], depth + 1)
            return
    for name, o in objs:
        walk(name, o, 0)
    return recs


def snapshot_diff(a, b):
    """first difference between two snapshots (None if equal)"""
    if len(a) != len(b):
        pa = [r[1] for r in a]
        pb = [r[1] for r in b]
        return "structure", "slots before %s / after %s" % ([p for p in pa if p not in pb][:4], [p for p in pb if p not in pa][:4])
    for ra, rb in zip(a, b):
        if ra[0] != rb[0] or ra[1] != rb[1]:
            return "structure", "slot %s (%s) became %s (%s)" % (ra[1], ra[0], rb[1], rb[0])
        if ra[0] == "T":
            if ra[2] != rb[2]:
                return "identity", "tensor at %s is a different object after the call" % ra[1]
            if ra[3] != rb[3]:
                return "registration", "tensor at %s changed type %s -> %s" % (ra[1], ra[3], rb[3])
            if ra[4] != rb[4]:
                return "requires_grad", "tensor at %s changed requires_grad" % ra[1]
            if ra[5].dtype != rb[5].dtype:
                return "dtype", "tensor at %s changed dtype %s -> %s" % (ra[1], ra[5].dtype, rb[5].dtype)
            if ra[5].shape != rb[5].shape or not torch.equal(ra[5], rb[5]):
                return "value", "tensor at %s changed value" % ra[1]
        elif ra[0] == "M":
            if ra[3] != rb[3]:
                return "order", "nn.Module at %s: parameter registration order %s -> %s" % (ra[1], list(ra[3]), list(rb[3]))
            if ra[2:] != rb[2:]:
                return "structure", "nn.Module at %s changed (%s -> %s)" % (ra[1], ra[2:], rb[2:])
        elif ra != rb:
            return "structure", "slot %s: %s -> %s" % (ra[1], ra[2:], rb[2:])
    return None


class PFRegistry(object):
    """hooks PureFunction.__init__/set_objparams/restore_objparams (class attributes, looked up at call time by xitorch)"""

    def __init__(self):
        self.pfs = []
        self.shadow = {}
        self.events = 0
        self.restores = 0
        self.maxdepth = 0
        self.problems = []
        self.created_depth = {}

    def __enter__(self):
        import xitorch._core.pure_function as pf
        self.pf = pf
        PF = pf.PureFunction
        self._orig = (PF.__init__, PF.set_objparams, PF.restore_objparams)
        reg = self
        o_init, o_set, o_restore = self._orig

        def __init__(this, *a, **k):
            o_init(this, *a, **k)
            reg.pfs.append(this)
            # a function created while a substitution is active (inside a callback) captures the temporary tensors and dies with
            # the callback: its idea of "current" tensors is only meaningful if it was created outside every substitution
            reg.created_depth[id(this)] = sum(len(v) for v in reg.shadow.values())

        def set_objparams(this, objparams):
            # what the OBJECT holds before the substitution (not the function's cached idea of it)
            try:
                before = [id(p) for p in held_unique(this)]
            except Exception:
                before = [id(p) for p in this._cur_objparams]
            o_set(this, objparams)
            reg.shadow.setdefault(id(this), []).append(before)
            reg.events += 1
            reg.maxdepth = max(reg.maxdepth, len(reg.shadow[id(this)]))

        def restore_objparams(this):
            st = reg.shadow.get(id(this), [])
            o_restore(this)
            reg.restores += 1
            if not st:
                reg.problems.append(("restore_without_set", "restore_objparams on %s with no matching set_objparams" % type(this).__name__))
                return
            want = st.pop()
            try:
                now = [id(p) for p in held_unique(this)]
            except Exception:
                now = [id(p) for p in this._cur_objparams]
            if now != want:
                reg.problems.append(("not_lifo", "%s: after restore the object does not hold the tensors it held before the matching set"
                                     % type(this).__name__))
        PF.__init__, PF.set_objparams, PF.restore_objparams = __init__, set_objparams, restore_objparams
        # subclasses call super().__init__ -> patched; but they define their own __init__, fine
        return self

    def __exit__(self, *a):
        PF = self.pf.PureFunction
        PF.__init__, PF.set_objparams, PF.restore_objparams = self._orig

    def quiescent_problems(self):
        out = list(self.problems)
        for p in self.pfs:
            if p._restore_stack:
                out.append(("stack_not_empty", "%s: restore stack holds %d entries after the call" % (type(p).__name__, len(p._restore_stack))))
            if p._state_change_allowed is not True:
                out.append(("state_change_disabled", "%s: state change left disabled after the call" % type(p).__name__))
            if self.shadow.get(id(p)):
                out.append(("unbalanced", "%s: %d set_objparams without restore" % (type(p).__name__, len(self.shadow[id(p)]))))
            if self.created_depth.get(id(p), 0) > 0:
                continue
            try:
                cur = held_unique(p)
                if [id(x) for x in cur] != [id(x) for x in p._cur_objparams]:
                    out.append(("cur_objparams_stale", "%s: _cur_objparams are not the tensors the object holds" % type(p).__name__))
            except Exception as e:  # the object cannot even list its parameters any more
                out.append(("object_unreadable", "%s: listing the object's tensors raised %s: %s" % (type(p).__name__, type(e).__name__, e)))
        return out


def held_tensors(p):
    """all tensors the function's object(s) currently hold under the names xitorch substitutes (not de-duplicated)"""
    import xitorch._core.pure_function as pf
    from xitorch._utils.attr import get_attr
    if isinstance(p, pf.TorchNNPureFunction):
        return [get_attr(p.obj, n) for n in p.names]
    if isinstance(p, pf.EditableModulePureFunction):
        return list(p.obj.getparams(p.method.__name__))
    if isinstance(p, pf.SingleSiblingPureFunction):
        return held_tensors(p.pfunc)
    if isinstance(p, pf.MultiSiblingPureFunction):
        out = []
        for q in p.pfuncs:
            out.extend(held_tensors(q))
        return out
    return []


def held_unique(p):
    # (object parameters are listed per slot since the repair of the stale alias map; on a tree that still has the map, the unique ones)
    if hasattr(p, "_uniq"):
        return p._uniq.get_unique_objs(held_tensors(p))
    return list(held_tensors(p))


def _all_subclasses(c):
    out = []
    for s in c.__subclasses__():
        out.append(s)
        out.extend(_all_subclasses(s))
    return out


class CoreSpy(object):
    """the core function of vf/funcs with a per-phase evaluation counter and an optional crash point"""

    def __init__(self, core):
        self.core = core
        self.phase = "fwd"
        self.counts = {}
        self.fail = None     # (phase, k)
        self.fired = False

    def __call__(self, *args):
        n = self.counts.get(self.phase, 0) + 1
        self.counts[self.phase] = n
        if self.fail is not None and self.fail == (self.phase, n):
            self.fired = True
            if getattr(self, "base_exc", False):
                raise BoomBase("injected at %s call %d" % (self.phase, n))
            raise Boom("injected at %s call %d" % (self.phase, n))
        return self.core(*args)


def _boom_in_chain(e):
    seen = 0
    while e is not None and seen < 10:
        if isinstance(e, (Boom, BoomBase)):
            return True
        e = e.__cause__ or e.__context__
        seen += 1
    return False


def pick_points(n, maxpts, rng):
    if n <= maxpts:
        return list(range(1, n + 1))
    pts = {1, 2, n, n - 1, (n + 1) // 2}
    while len(pts) < maxpts:
        pts.add(rng.randrange(1, n + 1))
    return sorted(pts)


def check_after(obs, mech, snap0, objs, reg, dbg0, label):
    import xitorch
    snap1 = snapshot(objs)
    obs.count("snapshots_compared")
    d = snapshot_diff(snap0, snap1)
    if d is not None:
        obs.violation("object_%s:%s" % (d[0], mech), "%s: %s" % (label, d[1]))
    if reg is not None:
        for kind, msg in reg.quiescent_problems():
            obs.violation("purefunction_%s:%s" % (kind, mech), "%s: %s" % (label, msg))
    obs.counters["assertions_evaluated"] += 3
    if xitorch.is_debug_enabled() != dbg0:
        obs.violation("debug_flag:%s" % mech, "%s: debug flag is %s, was %s before the call" % (label, xitorch.is_debug_enabled(), dbg0))
        xitorch.set_debug_mode(dbg0)


# ------------------------------------------------------------------------------------------------ scenario: functional x representation
def _func_run(desc, fail, obs, mech, clean):
    """one seeded execution; returns the spy (counts) or None if the clean execution itself failed"""
    import xitorch
    fname, rep, derived, d, s = desc["functional"], desc["rep"], desc["derived"], desc["d"], desc["s"]
    phase = desc["phase"]
    dtype = torch.float64
    mixed = desc["group"] == "func_mixed"
    torch.manual_seed(desc["seed"])
    tg = torch.Generator().manual_seed(desc["seed"])
    is_mc = fname.startswith("mcquad")
    if is_mc:
        rg = tuple(bool(x) for x in desc.get("rg", (1, 1, 1)))
        lv = {"f": funcs.make_leaves(d, tg, dtype, rg), "p": funcs.make_leaves(d, tg, dtype, rg)}
        spy = CoreSpy(None)
        spy_f = _SubSpy(spy, funcs.core_mcf)
        spy_p = _SubSpy(spy, funcs.core_logp)
        if mixed:
            bf = c10_extra.build_layout(desc, spy_f, 1, funcs.effective(lv["f"], derived), s, dtype)
            bp = c10_extra.build_layout(desc, spy_p, 1, funcs.effective(lv["p"], derived), s, dtype)
        else:
            bf = funcs.build(rep, spy_f, 1, funcs.effective(lv["f"], derived), s)
            bp = funcs.build(rep, spy_p, 1, funcs.effective(lv["p"], derived), s)
        objs = [("f:" + n, o) for n, o in bf.objs] + [("p:" + n, o) for n, o in bp.objs]
        leaves = [lv["f"][k] for k in funcs.LEAF_NAMES] + [lv["p"][k] for k in funcs.LEAF_NAMES]

        def forward():
            return [funcs.run_mcquad(bf, bp, d, dtype, "mh", desc["seed"])]
    else:
        F = funcs.FUNCTIONALS[fname]
        lv = funcs.make_leaves(d, tg, dtype, tuple(bool(x) for x in desc.get("rg", (1, 1, 1))))
        spy = CoreSpy(F.core)
        # every third scenario injects a failure that is NOT derived from Exception (KeyboardInterrupt-like)
        spy.base_exc = desc["seed"] % 3 == 0
        if mixed:
            built = c10_extra.build_layout(desc, spy, F.nlead, funcs.effective(lv, derived), s, dtype)
        else:
            built = funcs.build(rep, spy, F.nlead, funcs.effective(lv, derived), s)
        objs = built.objs
        leaves = [lv[k] for k in funcs.LEAF_NAMES]

        def forward():
            out = F.run(built, d, dtype, None)
            return list(out) if isinstance(out, (tuple, list)) else [out]
    spy.fail = fail
    leaves = [l for l in leaves if l.requires_grad]
    snap0 = snapshot(objs)
    ntens = sum(1 for r in snap0 if r[0] == "T")
    dbg_prev = xitorch.is_debug_enabled()
    # the flag is set globally (not through the context manager, which would repair a flag left behind by the call)
    dbg0 = bool(desc.get("debug"))
    xitorch.set_debug_mode(dbg0)
    label = "%s via %s, %s" % (fname, rep, "clean run" if fail is None else "user function raised at %s evaluation %d" % fail)
    raised = None
    import contextlib
    import io
    with PFRegistry() as reg, WarnLog():
        try:
            spy.phase = "fwd"
            with contextlib.redirect_stdout(io.StringIO()):
                outs = forward()
            check_after(obs, mech + ":after_fwd", snap0, objs, reg, dbg0, label + " [after forward]")
            if phase != "fwd":
                cots = [torch.randn(o.shape, generator=tg, dtype=dtype) for o in outs]
                L = sum((o * c).sum() for o, c in zip(outs, cots))
                spy.phase = "bwd"
                g = torch.autograd.grad(L, leaves, create_graph=(phase != "bwd"), allow_unused=True)
                check_after(obs, mech + ":after_bwd", snap0, objs, reg, dbg0, label + " [after backward]")
                if phase == "bwd2":
                    L2 = sum((gi * torch.randn(gi.shape, generator=tg, dtype=dtype)).sum() for gi in g if gi is not None and gi.requires_grad)
                    spy.phase = "bwd2"
                    if isinstance(L2, torch.Tensor) and L2.requires_grad:
                        torch.autograd.grad(L2, leaves, allow_unused=True)
        except (Boom, BoomBase) as e:
            raised = e
            if isinstance(e, BoomBase):
                obs.count("base_exception_crashes")
        except Exception as e:
            raised = e
            if not _boom_in_chain(e):
                if fail is None or not spy.fired:
                    if mixed and clean:
                        # the call fails by itself (xitorch rejects the object, or the function cannot run on what it was handed):
                        # "after any functional call" - the caller's object is compared also then
                        obs.count("mixed_calls_failed_by_themselves")
                        _mixed_reach(obs, desc, snap0, dbg0, phase)
                        check_after(obs, mech + ":call_failed", snap0, objs, reg, dbg0,
                                    label + " [the call raised %s: %s]" % (type(e).__name__, str(e)[:80]))
                    xitorch.set_debug_mode(dbg_prev)
                    if clean:
                        return None, ntens, "%s: %s" % (type(e).__name__, str(e)[:200])
                    raise HarnessBug("injected run failed before its crash point: %s: %s" % (type(e).__name__, e))
                obs.count("exceptions_replaced_by_secondary_error")
            else:
                obs.count("exceptions_wrapped")
        check_after(obs, mech, snap0, objs, reg, dbg0, label)
        xitorch.set_debug_mode(dbg_prev)
        obs.count("restore_events", reg.restores)
        obs.obs["max_substitution_depth"] = max(obs.obs.get("max_substitution_depth", 0), reg.maxdepth)
        if reg.maxdepth >= 2:
            obs.count("runs_with_nested_substitution")
    if fail is not None:
        if spy.fired:
            obs.count("crash_points_reached")
            obs.count("crash_%s" % fail[0])
            if mixed:
                obs.count("mixed_crash_points_reached")
                if dbg0:
                    obs.count("mixed_debug_crash_points_reached")
        else:
            obs.count("crash_points_not_reached")
    elif mixed:
        obs.count("mixed_clean_runs_completed")
        _mixed_reach(obs, desc, snap0, dbg0, phase)
    return spy, ntens, None


def _mixed_reach(obs, desc, snap0, dbg0, phase):
    """reach counters of the mixed-dtype dimension: one count per un-injected call (completed or failed by itself) compared with its snapshot"""
    dts = set(str(r[5].dtype) for r in snap0 if r[0] == "T")
    if len(dts) >= 2:
        obs.count("mixed_calls_object_with_two_or_more_dtypes")
    if dbg0 and c10_extra.nonfloat_ahead_of_float(desc["layout"]):
        obs.count("mixed_debug_calls_nonfloat_tensor_ahead_of_float")
    if dbg0 and any(h == "tuple" for h, _ in desc["layout"]):
        obs.count("mixed_debug_calls_tuple_held_tensor")
    if "none" in c10_extra.layout_items(desc["layout"]) and phase != "fwd":
        obs.count("mixed_backward_calls_none_registered_parameter")


class _SubSpy(object):
    def __init__(self, parent, core):
        self.parent, self.core = parent, core

    def __call__(self, *args):
        p = self.parent
        p.core = self.core
        return CoreSpy.__call__(p, *args)


def run_func(desc, obs):
    phase = desc["phase"]
    mech = "%s:%s:%s%s" % (desc["functional"], desc["rep"], phase, ":debug" if desc.get("debug") else "")
    spy, ntens, err = _func_run(desc, None, obs, mech, True)
    if spy is None:
        obs.skip("clean run does not complete (%s) - not this property's subject" % err[:60])
        return
    spyphase = {"fwd": "fwd", "bwd": "bwd", "bwd_cg": "bwd", "bwd2": "bwd2"}[phase]
    n = spy.counts.get(spyphase, 0)
    obs.note(evaluations_per_phase=dict(spy.counts), tensors_in_snapshot=ntens)
    if n == 0:
        obs.skip("user function is not evaluated in phase %s" % phase)
        return
    rng = random.Random(desc["seed"])
    reached = 0
    for k in pick_points(n, desc["maxpts"], rng):
        spy2, _, _ = _func_run(desc, (spyphase, k), obs, mech, False)
        reached += 1 if spy2.fired else 0
    obs.nontrivial = reached > 0 and ntens > 0


# ------------------------------------------------------------------------------------------------ scenario: raising operator products
def _linop_run(desc, fail, obs, mech, clean):
    import xitorch
    from xitorch.linalg import solve, symeig
    n = desc["n"]
    dtype = torch.float64
    torch.manual_seed(desc["seed"])
    tg = torch.Generator().manual_seed(desc["seed"])
    rng = random.Random(desc["seed"])
    A0 = gen.make_matrix("spd", n, (), dtype, 8.0, rng, tg)
    M0 = gen.make_matrix("spd", n, (), dtype, 3.0, rng, tg)
    leafA = A0.clone().requires_grad_()
    leafM = M0.clone().requires_grad_()
    state = {"phase": "fwd", "counts": {}, "fired": False}

    def tick():
        ph = state["phase"]
        c = state["counts"].get(ph, 0) + 1
        state["counts"][ph] = c
        if fail is not None and fail == (ph, c):
            state["fired"] = True
            raise Boom("injected at %s product %d" % (ph, c))

    def mk(mat, herm):
        def _mv(self, x):
            tick()
            return torch.matmul(self.mat, x.unsqueeze(-1)).squeeze(-1) + 0.0 * self.extra[0].sum()
        cls = gen.fresh_linop_class((), None, extra_ns={"_mv": _mv, "_getparamnames": lambda self, prefix="": [prefix + "mat", prefix + "extra[0]"]})
        op = cls(mat, is_hermitian=herm)
        op.extra = [torch.ones(2, dtype=dtype, requires_grad=True), "tag"]
        return op
    symA = 0.5 * (leafA + leafA.transpose(-2, -1))
    symM = 0.5 * (leafM + leafM.transpose(-2, -1))
    blocks = []
    if desc.get("compose") == "blocks":
        eye = torch.eye(n, dtype=dtype)
        Da, Db, Dc = mk(symA, True), mk(0.3 * symA + eye, True), mk(0.05 * torch.matmul(symA, symA) + eye, True)
        blocks = [("Da", Da), ("Db", Db), ("Dc", Dc)]
        if desc["functional"] == "solve":
            A = Da.matmul(Da) + Db.matmul(Dc).matmul(Db)
        else:
            A = (Da + Da) + (Db + (Dc + Db))
    else:
        A = mk(symA, True)
    M = mk(symM, True) if desc["withM"] else None
    objs = [("A", A)] + blocks + ([("M", M)] if M is not None else [])
    snap0 = snapshot(objs)
    dbg_prev = xitorch.is_debug_enabled()
    dbg0 = bool(desc.get("debug"))
    xitorch.set_debug_mode(dbg0)
    label = "%s(%s) with%s M%s, %s" % (desc["functional"], desc["method"], "" if M is not None else "out", ", debug mode on" if dbg0 else "",
                                      "clean run" if fail is None else "operator product raised at %s product %d" % fail)
    phase = desc["phase"]
    with WarnLog():
        try:
            state["phase"] = "fwd"
            if desc["functional"] == "solve":
                B = torch.randn(n, 2, generator=tg, dtype=dtype)
                E = torch.tensor([-0.3, -0.7], dtype=dtype).requires_grad_() if M is not None else None
                opts = {}
                if desc["method"] == "broyden1":
                    opts = {"maxiter": 60}
                outs = [solve(A, B, E, M, method=desc["method"], **opts)]
            else:
                opts = {"max_niter": 60} if desc["method"] == "davidson" else {}
                ev, evec = symeig(A, neig=2, M=M, method=desc["method"], **opts)
                outs = [ev, (evec * evec).sum(0)]
            check_after(obs, mech + ":after_fwd", snap0, objs, None, dbg0, label + " [after forward]")
            if phase != "fwd":
                L = sum((o * torch.randn(o.shape, generator=tg, dtype=dtype)).sum() for o in outs)
                state["phase"] = "bwd"
                leaves = [leafA, leafM] if M is not None else [leafA]
                g = torch.autograd.grad(L, leaves, create_graph=(phase != "bwd"), allow_unused=True)
                check_after(obs, mech + ":after_bwd", snap0, objs, None, dbg0, label + " [after backward]")
                if phase == "bwd2":
                    L2 = sum((gi * torch.randn(gi.shape, generator=tg, dtype=dtype)).sum() for gi in g if gi is not None and gi.requires_grad)
                    state["phase"] = "bwd2"
                    if isinstance(L2, torch.Tensor) and L2.requires_grad:
                        torch.autograd.grad(L2, leaves, allow_unused=True)
        except Exception as e:
            if not _boom_in_chain(e):
                if fail is None or not state["fired"]:
                    xitorch.set_debug_mode(dbg_prev)
                    if clean:
                        return None, "%s: %s" % (type(e).__name__, str(e)[:200])
                    raise HarnessBug("injected run failed before its crash point: %s: %s" % (type(e).__name__, e))
                obs.count("exceptions_replaced_by_secondary_error")
    check_after(obs, mech, snap0, objs, None, dbg0, label)
    xitorch.set_debug_mode(dbg_prev)
    if fail is not None:
        if state["fired"]:
            obs.count("crash_points_reached")
            obs.count("crash_linop_%s" % fail[0])
        else:
            obs.count("crash_points_not_reached")
    return state, None


def run_linop(desc, obs):
    mech = "%s:%s:%s:%s%s%s" % (desc["functional"], desc["method"], "M" if desc["withM"] else "noM", desc["phase"], ":debug" if desc.get("debug") else "",
                                ":blocks" if desc.get("compose") else "")
    st, err = _linop_run(desc, None, obs, mech, True)
    if desc.get("compose"):
        obs.count("linop_composed_cases")
    if st is None:
        obs.skip("clean run does not complete (%s)" % err[:60])
        return
    spyphase = {"fwd": "fwd", "bwd": "bwd", "bwd_cg": "bwd", "bwd2": "bwd2"}[desc["phase"]]
    n = st["counts"].get(spyphase, 0)
    obs.note(products_per_phase=dict(st["counts"]))
    if n == 0:
        obs.skip("no operator product in phase %s" % desc["phase"])
        return
    rng = random.Random(desc["seed"])
    reached = 0
    for k in pick_points(n, desc["maxpts"], rng):
        st2, _ = _linop_run(desc, (spyphase, k), obs, mech, False)
        reached += 1 if st2["fired"] else 0
    obs.nontrivial = reached > 0


# ------------------------------------------------------------------------------------------------ scenario: nested substitutions
def run_nested_subst(desc, obs):
    import xitorch
    rep, depth, code, exc = desc["rep"], desc["depth"], desc["code"], desc["exc"]
    dtype = torch.float64
    tg = torch.Generator().manual_seed(desc["seed"])
    lv = funcs.make_leaves(3, tg, dtype)
    built = funcs.build(rep, funcs.core_root, 1, funcs.effective(lv, rep not in funcs.NN_REPS and code % 2 == 1), 0.4)
    kinds = []
    c = code
    for _ in range(depth):
        kinds.append(("same", "diff", "alias")[c % 3])
        c //= 3
    mech = "nested_subst:%s:%s%s" % (rep, "-".join(kinds), ":exc" if exc else "")
    snap0 = snapshot(built.objs)
    dbg0 = xitorch.is_debug_enabled()
    y = torch.randn(3, generator=tg, dtype=dtype)
    with PFRegistry() as reg:
        pf = xitorch.get_pure_function(built.fcn)
        orig = list(pf.objparams())
        val0 = pf(y).detach().clone()
        installed = []     # what each level installed

        def level(i, current):
            if i == depth:
                if exc == "base":
                    raise BoomBase("innermost")
                if exc:
                    raise Boom("innermost")
                return
            kind = kinds[i]
            if kind == "same":
                new = list(current)
            elif kind == "diff":
                new = [p.detach().clone().requires_grad_() for p in current]
            else:  # alias: every slot of equal shape receives one and the same new tensor object
                new = []
                byshape = {}
                for p in current:
                    key = tuple(p.shape)
                    if key not in byshape:
                        byshape[key] = p.detach().clone().requires_grad_()
                    new.append(byshape[key])
            with pf.useobjparams(new):
                now = pf.objparams()
                obs.check([id(a) for a in now] == [id(a) for a in new], "subst_not_installed:" + mech,
                          "inside useobjparams level %d the function does not report the tensors just installed" % i)
                held = held_unique(pf)
                obs.check([id(a) for a in held] == [id(a) for a in new], "subst_not_in_object:" + mech,
                          "inside useobjparams level %d the object does not hold the tensors just installed" % i)
                try:
                    level(i + 1, new)
                finally:
                    # LIFO: after the inner level has unwound, this level's tensors are installed again
                    held = held_unique(pf)
                    obs.check([id(a) for a in held] == [id(a) for a in new], "unwind_not_lifo:" + mech,
                              "after inner level %d unwound, level %d's tensors are not the installed ones" % (i + 1, i))
        try:
            level(0, orig)
        except (Boom, BoomBase):
            obs.count("crash_points_reached")
            if exc == "base":
                obs.count("base_exception_crashes")
        check_after(obs, mech, snap0, built.objs, reg, dbg0, "nested useobjparams %s on %s" % (kinds, rep))
        val1 = pf(y).detach()
        obs.check(torch.equal(val0, val1), "value_after:" + mech, "the function evaluates differently after the substitutions unwound")
        obs.count("restore_events", reg.restores)
    obs.nontrivial = any(k != "same" for k in kinds)


def run_debug_nesting(desc, obs):
    import xitorch
    init, depth, code, exc = desc["init"], desc["depth"], desc["code"], desc["exc"]
    modes = [bool((code >> i) & 1) for i in range(depth)]
    mech = "debug_nesting:init%d:%s%s" % (init, "".join("E" if m else "D" for m in modes), (":baseexc" if exc == "base" else ":exc") if exc else "")
    prev = xitorch.is_debug_enabled()
    xitorch.set_debug_mode(init)
    try:
        def level(i):
            if i == depth:
                if exc == "base":
                    raise BoomBase("innermost")
                if exc:
                    raise Boom("innermost")
                return
            before = xitorch.is_debug_enabled()
            ctx = xitorch.enable_debug() if modes[i] else xitorch.disable_debug()
            try:
                with ctx:
                    obs.check(xitorch.is_debug_enabled() == modes[i], "debug_not_set:" + mech, "inside level %d the flag is not %s" % (i, modes[i]))
                    level(i + 1)
                    obs.check(xitorch.is_debug_enabled() == modes[i], "debug_unwind:" + mech, "after inner level unwound the flag is not this level's")
            finally:
                obs.check(xitorch.is_debug_enabled() == before, "debug_restore:" + mech,
                          "after leaving level %d the flag is %s, was %s" % (i, xitorch.is_debug_enabled(), before))
        try:
            level(0)
        except (Boom, BoomBase):
            obs.count("crash_points_reached")
            if exc == "base":
                obs.count("base_exception_crashes")
        obs.check(xitorch.is_debug_enabled() == init, "debug_flag:" + mech, "flag is %s after the nest, was %s" % (xitorch.is_debug_enabled(), init))
        obs.count("snapshots_compared")
    finally:
        xitorch.set_debug_mode(prev)
    obs.nontrivial = True


# ------------------------------------------------------------------------------------------------ scenario: functional inside a functional's callback
def _nested_functional_run(desc, fail, obs, mech, clean):
    import xitorch
    from xitorch.optimize import rootfinder, equilibrium
    from xitorch.integrate import quad, solve_ivp
    dtype = torch.float64
    torch.manual_seed(desc["seed"])
    tg = torch.Generator().manual_seed(desc["seed"])
    lv = funcs.make_leaves(2, tg, dtype)
    a, b, W = funcs.effective(lv, True)
    spy = CoreSpy(None)

    class E(xitorch.EditableModule):
        def __init__(self):
            self.a, self.b, self.W = a, b, W
            self.lst = [b]

        def g(self, x):
            spy.core = funcs.core_quad
            return spy(x, self.a, self.lst[0], self.W, 0.4)

        def g2(self, z):
            spy.core = funcs.core_equil
            return spy(z, self.a, self.lst[0], self.W, 0.3)

        def h(self, *lead):
            # the outer callback runs another functional on another method of the same object
            inner = desc.get("inner", "quad")
            if inner == "quad":
                q = quad(self.g, torch.tensor(0.0, dtype=dtype), torch.tensor(0.7, dtype=dtype), n=3)
            elif inner == "equilibrium":
                q = equilibrium(self.g2, torch.zeros(2, dtype=dtype), method="anderson_acc", f_tol=1e-10, x_tol=1e-10, maxiter=60)
            else:
                q = rootfinder(lambda z: z - self.g2(z), torch.zeros(2, dtype=dtype), method="broyden1", f_tol=1e-10, x_tol=1e-10, maxiter=60) \
                    if False else rootfinder(self.g3, torch.zeros(2, dtype=dtype), method="broyden1", f_tol=1e-10, x_tol=1e-10, maxiter=60)
            y = lead[-1]
            spy.core = funcs.core_equil
            r = spy(y, self.a + 0.1 * q, self.b, self.W, 0.4)
            if desc["outer"] == "rootfinder":
                return y - r
            if desc["outer"] == "solve_ivp":
                return r - y
            return r

        def g3(self, z):
            return z - self.g2(z)

        def getparamnames(self, methodname, prefix=""):
            if methodname == "h":
                return [prefix + "a", prefix + "b", prefix + "W", prefix + "lst[0]"]
            if methodname in ("g", "g2", "g3"):
                return [prefix + "a", prefix + "lst[0]", prefix + "W"]
            raise KeyError(methodname)
    e = E()
    objs = [("e", e)]
    spy.fail = fail
    snap0 = snapshot(objs)
    dbg0 = xitorch.is_debug_enabled()
    leaves = [lv[k] for k in funcs.LEAF_NAMES]
    phase = desc["phase"]
    label = "%s whose callback calls %s on another method of the same object, %s" % (desc["outer"], desc.get("inner", "quad"), "clean run" if fail is None else "raised at %s evaluation %d" % fail)
    with PFRegistry() as reg, WarnLog():
        try:
            spy.phase = "fwd"
            y0 = torch.zeros(2, dtype=dtype)
            if desc["outer"] == "rootfinder":
                out = rootfinder(e.h, y0, method="broyden1", f_tol=1e-10, x_tol=1e-10, maxiter=60)
            elif desc["outer"] == "equilibrium":
                out = equilibrium(e.h, y0, method="anderson_acc", f_tol=1e-10, x_tol=1e-10, maxiter=80)
            else:
                out = solve_ivp(e.h, torch.linspace(0, 0.5, 3, dtype=dtype), y0 + 0.2, method="rk4")
            check_after(obs, mech + ":after_fwd", snap0, objs, reg, dbg0, label + " [after forward]")
            if phase != "fwd":
                L = (out * torch.randn(out.shape, generator=tg, dtype=dtype)).sum()
                spy.phase = "bwd"
                g = torch.autograd.grad(L, leaves, create_graph=(phase != "bwd"), allow_unused=True)
                if phase == "bwd2":
                    L2 = sum((gi * torch.randn(gi.shape, generator=tg, dtype=dtype)).sum() for gi in g if gi is not None and gi.requires_grad)
                    spy.phase = "bwd2"
                    if isinstance(L2, torch.Tensor) and L2.requires_grad:
                        torch.autograd.grad(L2, leaves, allow_unused=True)
        except Exception as ex:
            if not _boom_in_chain(ex):
                if fail is None or not spy.fired:
                    if clean:
                        return None, "%s: %s" % (type(ex).__name__, str(ex)[:200])
                    raise HarnessBug("injected run failed before its crash point: %s: %s" % (type(ex).__name__, ex))
                obs.count("exceptions_replaced_by_secondary_error")
        check_after(obs, mech, snap0, objs, reg, dbg0, label)
        obs.count("restore_events", reg.restores)
        obs.obs["max_substitution_depth"] = max(obs.obs.get("max_substitution_depth", 0), reg.maxdepth)
        if reg.maxdepth >= 2:
            obs.count("runs_with_nested_substitution")
    if fail is not None:
        obs.count("crash_points_reached" if spy.fired else "crash_points_not_reached")
    return spy, None


def run_nested_functional(desc, obs):
    mech = "nested_functional:%s(%s):%s" % (desc["outer"], desc.get("inner", "quad"), desc["phase"])
    spy, err = _nested_functional_run(desc, None, obs, mech, True)
    if spy is None:
        obs.skip("clean run does not complete (%s)" % err[:80])
        return
    spyphase = {"fwd": "fwd", "bwd": "bwd", "bwd_cg": "bwd", "bwd2": "bwd2"}[desc["phase"]]
    n = spy.counts.get(spyphase, 0)
    obs.note(evaluations_per_phase=dict(spy.counts))
    if n == 0:
        obs.skip("user function is not evaluated in phase %s" % desc["phase"])
        return
    rng = random.Random(desc["seed"])
    reached = 0
    for k in pick_points(n, desc["maxpts"], rng):
        spy2, _ = _nested_functional_run(desc, (spyphase, k), obs, mech, False)
        reached += 1 if spy2.fired else 0
    obs.nontrivial = reached > 0


def run_case(desc):
    obs = Obs(desc)
    g = desc["group"]
    if g in ("func", "func_debug", "func_mixed"):
        run_func(desc, obs)
    elif g == "linop":
        run_linop(desc, obs)
    elif g == "nested_subst":
        run_nested_subst(desc, obs)
    elif g == "debug_nesting":
        run_debug_nesting(desc, obs)
    elif g == "nested_functional":
        run_nested_functional(desc, obs)
    else:
        raise HarnessBug("unknown group %s" % g)
    obs.count("scenario_%s" % g)
    return obs.result()
