"""C17 - jac and hess are the true Jacobian / Hessian as differentiable operators (dense-reference monitor).

Every operator returned by xitorch.grad.jac / hess is compared product by product (mv, rmv, mm, rmm, fullmatrix, .H) with the
dense matrix from torch.autograd.functional.jacobian / hessian built from the same leaf tensors, including first- and
second-order derivatives of a product w.r.t. the point, the other arguments, the parameters (explicit or held by an
nn.Module / EditableModule) and the vector, and including the cache-invalidation path: products evaluated while other
tensors are substituted through `uselinopparams` (what solve's backward does with a rootfinder's Jacobian)."""
import random

import torch

from vf.common import Obs, sub_seed, WarnLog, HarnessBug

LEVEL = "exploration"
TECHNIQUE = ("runtime reference-model monitor: every product of the returned operators against the dense "
             "torch.autograd.functional.jacobian/hessian built from the same leaves, gradients through random contractions, "
             "products re-evaluated under uselinopparams substitution and after restoration")
LEVEL_TEXT = ("Held on every generated function of the run: 1-5 arguments (differentiable tensors of shapes (), (1,), (3,), (2,2), "
              "(2,1,3); floats, ints, constant tensors) x output shapes (), (1,), (3,), (2,2), (2,1,2), (1,3) x function kinds {plain "
              "function with explicit parameters, nn.Module method, EditableModule method} x idxs {None, int, list, tuple} x vectors / "
              "matrices with batch shapes (), (2,), (2,3) and 1-3 columns x {mv, rmv, mm, rmm, fullmatrix, .H products} x first/second "
              "order derivatives x substitution of all / some operator parameters (directly and through .H), twice, with restoration, and "
              "substitution blocks left by an exception (function / caller) followed by reuse of the operator; complex128 holomorphic functions "
              "with wide / square / tall / 1xN / Nx1 Jacobians (jac only).")
LEVEL_NOTE = "Trusts torch.autograd.functional.jacobian/hessian (create_graph=True) on the same python body; float64; tolerance 1e-10 relative."
RULE = ("seeded sampling over argument specification (9 layouts) x output shape x function kind x idxs mode x vector batch shape x "
        "differentiated product; groups: jac, hess, subst (cache invalidation), badidx (TypeError), zero_block (structurally zero "
        "Jacobian/Hessian block), argdep (arguments that are the same tensor, views of or functions of one another, or also held by the "
        "object: partial derivative w.r.t. the selected argument as torch.autograd.functional gives it), subst_exc (a uselinopparams block left by an "
        "exception of the function at a seeded trial evaluation or of the caller, incl. BaseException; operator reused afterwards), cplx (complex128 "
        "points, holomorphic functions, wide/square/tall/1xN/Nx1 Jacobians; rmv/rmm/.H = conjugate transpose); non-trivial = operator has >= 2 entries, a product with non-zero dense reference was compared and "
        "(for jac/hess/subst groups) a gradient with non-zero reference was compared")
MIN_NONTRIVIAL = {"quick": 300, "thorough": 3500}
ASSUMPTIONS = ["float64, CPU; smooth functions tanh(W1 z + c) * sin(W2 z) * s + 0.1 |z|^2 c^2 + const with |W| ~ 0.5 (all mixed second derivatives non-zero)",
               "total number of inputs <= 60, outputs <= 4",
               "value tolerance 1e-10*(1+|ref|), gradient tolerance 1e-9*(1+|ref|) (largest deviation seen on the repaired tree < 1e-13)",
               "a 'non-differentiable argument' is a float, an int or a tensor with requires_grad=False",
               "cplx group: complex128 only, functions sin(W1 z + c) exp(0.3 W2 z) s + 0.1 (z.z) c^2 + 0.2 W2 z^2 with complex W (|W| ~ 0.4), <= 20 inputs, "
               "<= 8 outputs; reference = real/imaginary split Jacobian (Cauchy-Riemann verified); gradients of the real part of a random contraction",
               "subst_exc group: the exception is raised by the function at the 1st..4th evaluation at the substituted tensors or by the caller after "
               "0..3 products; Exception or BaseException subclass; it is caught by the caller and the same operator object is reused",
               "zero_block group: a function that ignores one of its differentiable tensor arguments has a zero Jacobian block; a linear "
               "function has a zero Hessian (what torch.autograd.functional returns)"]
BUDGET = {"quick": {"worker_timeout": 600, "case_timeout": 90}, "thorough": {"worker_timeout": 3000, "case_timeout": 120}}
REQUIRED_COUNTERS = {
    "quick": {"operators_checked": 500, "products_compared": 4000, "grad_compared_first": 300, "grad_compared_second": 300,
              "subst_products_compared": 600, "subst_objparam_cases": 60, "subst_grad_compared": 100, "subst_restored_checked": 100,
              "typeerror_cases": 30, "hess_operators": 100, "idxs_none": 50, "idxs_int": 50, "idxs_list": 50, "idxs_tuple": 50,
              "kind_pure": 80, "kind_nn": 80, "kind_editable": 80, "reevaluations_forced": 300,
              "argdep_products_compared": 500, "argdep_nograd_compared": 80, "argdep_subst_compared": 100, "argdep_grad_compared_second": 80,
              "subst_exc_left_by_fcn": 40, "subst_exc_left_by_caller": 40, "subst_exc_baseexception": 8, "subst_exc_products_compared": 1000,
              "subst_exc_grad_compared": 100, "subst_exc_later_products_compared": 2000,
              "cplx_products_compared": 1500, "cplx_grad_compared": 100, "cplx_fullmatrix_wide": 20, "cplx_fullmatrix_row": 20,
              "cplx_fullmatrix_square": 20, "cplx_fullmatrix_tall": 15, "cplx_fullmatrix_col": 15},
    "thorough": {"operators_checked": 5000, "products_compared": 40000, "grad_compared_first": 3000, "grad_compared_second": 3000,
                 "subst_products_compared": 6000, "subst_objparam_cases": 600, "subst_grad_compared": 1000,
                 "subst_restored_checked": 1000, "typeerror_cases": 300, "hess_operators": 1000, "idxs_none": 500, "idxs_int": 500,
                 "idxs_list": 500, "idxs_tuple": 500, "kind_pure": 800, "kind_nn": 800, "kind_editable": 800,
                 "reevaluations_forced": 3000,
                 "argdep_products_compared": 5000, "argdep_nograd_compared": 800, "argdep_subst_compared": 1000, "argdep_grad_compared_second": 800,
                 "subst_exc_left_by_fcn": 400, "subst_exc_left_by_caller": 400, "subst_exc_baseexception": 80, "subst_exc_products_compared": 10000,
                 "subst_exc_grad_compared": 1000, "subst_exc_later_products_compared": 20000,
                 "cplx_products_compared": 15000, "cplx_grad_compared": 1000, "cplx_fullmatrix_wide": 200, "cplx_fullmatrix_row": 200,
                 "cplx_fullmatrix_square": 200, "cplx_fullmatrix_tall": 150, "cplx_fullmatrix_col": 150},
}

DT = torch.float64
VTOL = 1e-10
GTOL = 1e-9

# argument layouts: ("t", shape) differentiable tensor, ("c", shape) tensor without grad, ("f",) float, ("i",) int
ARGSPECS = [
    [("t", (3,))],
    [("t", ())],
    [("t", ()), ("t", (2, 2))],
    [("t", (3,)), ("f",), ("t", (2, 2)), ("c", (2,))],
    [("t", (2, 1, 3)), ("t", ())],
    [("f",), ("t", (2, 2)), ("c", (3,)), ("t", (3,)), ("t", ())],
    [("t", (1,)), ("t", (2, 1, 3)), ("i",)],
    [("c", (2,)), ("t", (2, 2))],
    [("t", (3,)), ("t", (1,)), ("t", (2, 2))],
]
OUTSHAPES = [(), (1,), (3,), (2, 2), (2, 1, 2), (1, 3)]
HSHAPES = [(), (1,), (1, 1)]
VBATCH = [(), (2,), (2, 3)]
KINDS = ["pure", "nn", "editable"]
IDXMODES = ["none", "int", "list", "tuple"]
PRODUCTS = ["mv", "rmv", "mm", "rmm", "fullmatrix", "H.mv", "H.mm", "H.rmv", "H.fullmatrix"]


def numel(shape):
    n = 1
    for s in shape:
        n *= s
    return n


# ------------------------------------------------------------------------------------------------------------ cases
def cases(seed, tier):
    out = []
    big = tier != "quick"
    n_jac, n_hess, n_sub, n_bad, n_zero = (330, 150, 260, 50, 40) if not big else (3800, 1700, 3000, 500, 400)
    for i in range(n_jac):
        rng = random.Random(sub_seed(seed, "c17j", i))
        out.append({"group": "jac", "seed": sub_seed(seed, "c17js", i), "spec": rng.randrange(len(ARGSPECS)),
                    "out": rng.randrange(len(OUTSHAPES)), "kind": KINDS[i % 3], "idxs": IDXMODES[(i // 3) % 4],
                    "vb": rng.randrange(len(VBATCH)), "r": rng.choice([1, 2, 3]), "dprod": rng.choice(PRODUCTS)})
    for i in range(n_hess):
        rng = random.Random(sub_seed(seed, "c17h", i))
        out.append({"group": "hess", "seed": sub_seed(seed, "c17hs", i), "spec": rng.randrange(len(ARGSPECS)),
                    "out": rng.randrange(len(HSHAPES)), "kind": KINDS[i % 3], "idxs": IDXMODES[(i // 3) % 4],
                    "vb": rng.randrange(len(VBATCH)), "r": rng.choice([1, 2, 3]), "dprod": rng.choice(PRODUCTS)})
    for i in range(n_sub):
        rng = random.Random(sub_seed(seed, "c17s", i))
        out.append({"group": "subst", "seed": sub_seed(seed, "c17ss", i), "spec": rng.randrange(len(ARGSPECS)),
                    "out": rng.randrange(len(OUTSHAPES)), "kind": KINDS[i % 3], "hess": rng.random() < 0.3,
                    "via": rng.choice(["op", "op", "H"]), "which": rng.choice(["all", "all", "point_only", "others_only"]),
                    "vb": rng.randrange(len(VBATCH)), "r": rng.choice([1, 2]), "dprod": rng.choice(["mv", "rmv", "mm", "fullmatrix"])})
    for i in range(n_bad):
        rng = random.Random(sub_seed(seed, "c17b", i))
        out.append({"group": "badidx", "seed": sub_seed(seed, "c17bs", i), "spec": rng.choice([3, 5, 6, 7]), "out": rng.randrange(len(OUTSHAPES)),
                    "kind": KINDS[i % 3], "hess": rng.random() < 0.4, "form": rng.choice(["int", "list", "tuple", "list_mixed"])})
    for i in range(n_zero):
        rng = random.Random(sub_seed(seed, "c17z", i))
        out.append({"group": "zero_block", "seed": sub_seed(seed, "c17zs", i), "variant": ["jac_ignored_arg", "jac_ignored_arg_none",
                    "hess_linear", "hess_ignored_arg", "hess_cross_free"][i % 5], "kind": KINDS[(i // 5) % 3], "vb": rng.randrange(len(VBATCH))})
    from vf import c17_extra, c17_r6
    out.extend(c17_extra.cases(seed, tier))
    out.extend(c17_r6.cases(seed, tier))
    return out


# ---------------------------------------------------------------------------------------------------------- problem
class Problem:
    """function, its arguments, parameter leaves and a plain-torch body shared with the dense reference"""

    def __init__(self, desc, rng, tgen, scalar_out, ignore=None, linear=False, crossfree=False):
        import xitorch
        self.crossfree = crossfree
        self.kind = desc["kind"]
        spec = list(ARGSPECS[desc["spec"]]) if "spec" in desc else list(desc["_spec"])
        shapes = HSHAPES if scalar_out else OUTSHAPES
        self.outshape = shapes[desc.get("out", 0) % len(shapes)]
        self.scalar_out = scalar_out
        m = 3 if scalar_out else numel(self.outshape)
        self.m = m
        n = sum(numel(e[1]) for e in spec if e[0] == "t")
        self.n = n

        def rn(*shape, scale=1.0):
            return (torch.randn(*shape, dtype=DT, generator=tgen) if shape else torch.randn((), dtype=DT, generator=tgen)) * scale
        args = []
        for e in spec:
            if e[0] == "t":
                args.append(rn(*e[1]).requires_grad_())
            elif e[0] == "c":
                args.append(rn(*e[1]))
            elif e[0] == "f":
                args.append(rng.choice([0.7, 1.3, -1.1]))
            else:
                args.append(rng.choice([1, 2, 3]))
        W1, W2, cv = rn(m, n, scale=0.5), rn(m, n, scale=0.5), rn(m)
        self.spec = spec
        self.ignore = ignore          # index of a tensor argument the function does not use
        self.linear = linear
        nn_kind = self.kind == "nn"
        mk = (lambda t: torch.nn.Parameter(t)) if nn_kind else (lambda t: t.requires_grad_())
        self.W = [mk(W1), mk(W2), mk(cv)]
        self.args = args
        self.leaves = {}
        for j, (e, a) in enumerate(zip(spec, args)):
            if e[0] == "t":
                self.leaves["arg%d" % j] = a
        for nm, w in zip(("W1", "W2", "cv"), self.W):
            self.leaves[nm] = w
        body = self.body
        prob = self
        self.ncalls = 0
        if self.kind == "pure":
            nargs = len(args)

            def fcn(*a):
                prob.called()
                return body(a[:nargs], a[nargs:])
            self.fcn = fcn
            self.params = tuple(args) + tuple(self.W)
            self.obj = None
            self.full_spec = spec + [("w",), ("w",), ("w",)]
        else:
            if nn_kind:
                class Mod(torch.nn.Module):
                    def __init__(self, W):
                        super().__init__()
                        self.W1, self.W2, self.cv = W

                    def forward(self, *a):
                        prob.called()
                        return body(a, [self.W1, self.W2, self.cv])
            else:
                class Mod(xitorch.EditableModule):
                    def __init__(self, W):
                        self.W1, self.W2, self.cv = W

                    def forward(self, *a):
                        prob.called()
                        return body(a, [self.W1, self.W2, self.cv])

                    def getparamnames(self, methodname, prefix=""):
                        return [prefix + "W1", prefix + "W2", prefix + "cv"]
            self.obj = Mod(self.W)
            self.fcn = self.obj.forward
            self.params = tuple(args)
            self.full_spec = spec
        self.diff_idxs = [j for j, p in enumerate(self.params) if isinstance(p, torch.Tensor) and p.requires_grad]
        self.nondiff_idxs = [j for j in range(len(self.params)) if j not in self.diff_idxs]

    trap = None      # optional callable run at every evaluation of the function BY XITORCH (never by the dense reference)

    def called(self):
        self.ncalls += 1
        if self.trap is not None:
            self.trap()

    def body(self, args, W):
        W1, W2, cv = W
        zs, s, shift = [], 1.0, 0.0
        for j, (e, a) in enumerate(zip(self.spec, args)):
            if e[0] == "t":
                zs.append(a.reshape(-1) if j != self.ignore else a.detach().reshape(-1) * 0.0)
            elif e[0] == "f":
                s = s * a
            elif e[0] == "i":
                s = s * (1 + 0.1 * a)
            else:
                shift = shift + a.sum()
        z = torch.cat(zs)
        if self.linear:
            out = (W1 @ z) * s + cv + shift
        elif self.crossfree:
            n0 = zs[0].numel()      # linear in the first argument, non-linear in the others: zero diagonal Hessian block
            out = (W1[:, :n0] @ z[:n0]) * torch.tanh(W2[:, n0:] @ z[n0:]) + cv
        else:
            out = torch.tanh(W1 @ z + cv) * torch.sin(W2 @ z) * s + 0.1 * (z * z).sum() * cv * cv + shift
        if self.scalar_out:
            return out.sum().reshape(self.outshape)
        return out.reshape(self.outshape)

    def leaf_of(self, idx):
        p = self.params[idx]
        for k, v in self.leaves.items():
            if v is p:
                return k
        raise HarnessBug("parameter %d is not a known leaf" % idx)

    def call_with(self, values):
        """body evaluated with the leaves replaced by `values` (name -> tensor)"""
        args = [values.get("arg%d" % j, a) if e[0] == "t" else a for j, (e, a) in enumerate(zip(self.spec, self.args))]
        W = [values.get(nm, w) for nm, w in zip(("W1", "W2", "cv"), self.W)]
        return self.body(args, W)

    def dense(self, name, values=None, hess=False):
        """dense Jacobian (nout, nin) / Hessian (nin, nin) w.r.t. leaf `name`, differentiable w.r.t. all leaves in `values`"""
        values = dict(values or {})
        x = values.get(name, self.leaves[name])

        def f(t):
            vv = dict(values)
            vv[name] = t
            return self.call_with(vv)
        if hess:
            Hd = torch.autograd.functional.hessian(lambda t: f(t).reshape(()), x, create_graph=True)
            return Hd.reshape(x.numel(), x.numel())
        Jd = torch.autograd.functional.jacobian(f, x, create_graph=True)
        return Jd.reshape(-1, x.numel()) if x.numel() > 0 else Jd

    def role(self, name, point):
        if name == point:
            return "point"
        if name.startswith("arg"):
            return "otherarg"
        return "param" if self.kind == "pure" else "objparam"


def rand_like_shape(shape, tgen):
    return torch.randn(*shape, dtype=DT, generator=tgen) if len(shape) else torch.randn((), dtype=DT, generator=tgen)


def product(op, name, v, u, V, U):
    """evaluate one named product of the operator; v/V live in the input space, u/U in the output space"""
    if name == "mv":
        return op.mv(v)
    if name == "rmv":
        return op.rmv(u)
    if name == "mm":
        return op.mm(V)
    if name == "rmm":
        return op.rmm(U)
    if name == "fullmatrix":
        return op.fullmatrix()
    H = op.H
    if name == "H.mv":
        return H.mv(u)
    if name == "H.rmv":
        return H.rmv(v)
    if name == "H.mm":
        return H.mm(U)
    if name == "H.rmm":
        return H.rmm(V)
    if name == "H.fullmatrix":
        return H.fullmatrix()
    raise HarnessBug(name)


def product_ref(Jd, name, v, u, V, U):
    Jt = Jd.transpose(-2, -1)
    if name in ("mv", "H.rmv"):
        return torch.matmul(v, Jt)
    if name in ("rmv", "H.mv"):
        return torch.matmul(u, Jd)
    if name in ("mm", "H.rmm"):
        return torch.matmul(Jd, V)
    if name in ("rmm", "H.mm"):
        return torch.matmul(Jt, U)
    if name == "fullmatrix":
        return Jd
    if name == "H.fullmatrix":
        return Jt
    raise HarnessBug(name)


def make_vectors(nout, nin, vb, r, tgen, requires_grad=False):
    v = rand_like_shape(tuple(vb) + (nin,), tgen)
    u = rand_like_shape(tuple(vb) + (nout,), tgen)
    V = rand_like_shape(tuple(vb) + (nin, r), tgen)
    U = rand_like_shape(tuple(vb) + (nout, r), tgen)
    if requires_grad:
        for t in (v, u, V, U):
            t.requires_grad_()
    return v, u, V, U


def compare(obs, got, ref, mech, what, tol, **data):
    if not isinstance(got, torch.Tensor):
        obs.check(False, mech, "%s is not a tensor (%s)" % (what, type(got).__name__), **data)
        return 0.0, False
    if tuple(got.shape) != tuple(ref.shape):
        obs.check(False, mech, "%s has shape %s, dense reference %s" % (what, tuple(got.shape), tuple(ref.shape)), **data)
        return float("inf"), False
    err = float((got.detach() - ref.detach()).abs().max()) if ref.numel() else 0.0
    scale = 1.0 + (float(ref.detach().abs().max()) if ref.numel() else 0.0)
    obs.check(err <= tol * scale, mech, "%s differs from the dense reference: |diff| = %.3e (|ref| = %.3e)" % (what, err, scale - 1), **data)
    return err / scale, scale - 1 > 1e-8


def guard_exc(obs, prefix, e, **data):
    """an exception in a monitored block refutes the property only if it was raised in xitorch or by torch on xitorch's
    output; anything raised by the monitor's own code is a monitor bug"""
    import traceback
    from vf.common import last_repo_frame
    if isinstance(e, HarnessBug):
        raise e
    if last_repo_frame(e.__traceback__) is None:
        frames = traceback.extract_tb(e.__traceback__)
        if not (frames and "/torch/" in frames[-1].filename):
            raise HarnessBug("%s: %s" % (type(e).__name__, e)) from e
    obs.exc_violation(prefix, e, **data)


def grads(L, leaves, create_graph):
    if not (isinstance(L, torch.Tensor) and L.requires_grad):
        return [None] * len(leaves)
    return list(torch.autograd.grad(L, leaves, create_graph=create_graph, retain_graph=True, allow_unused=True))


def compare_grads(obs, got, ref, names, tensors, rolefn, prefix, order, data):
    worst, nonzero = 0.0, False
    for g, r, nm, t in zip(got, ref, names, tensors):
        gz = torch.zeros_like(t) if g is None else g
        rz = torch.zeros_like(t) if r is None else r
        e, nz = compare(obs, gz, rz, "%s:%s:%s" % (prefix, order, rolefn(nm)), "%s-order derivative w.r.t. %s" % (order, nm), GTOL, **data)
        worst = max(worst, e)
        nonzero = nonzero or nz
    return worst, nonzero


# ------------------------------------------------------------------------------------------------------- jac / hess
def call_builder(obs, prob, hess, idxs):
    from xitorch.grad import jac, hess as hess_fn
    fn = hess_fn if hess else jac
    return fn(prob.fcn, prob.params, idxs=idxs)


def run_case(desc):
    g = desc["group"]
    if g in ("jac", "hess"):
        return run_ops(desc)
    if g == "subst":
        return run_subst(desc)
    if g == "badidx":
        return run_badidx(desc)
    if g == "zero_block":
        return run_zero(desc)
    if g == "argdep":
        from vf import c17_extra
        return c17_extra.run_case(desc)
    if g in ("subst_exc", "cplx"):
        from vf import c17_r6
        return c17_r6.run_case(desc)
    raise HarnessBug("group %s" % g)


def choose_idxs(mode, prob, rng):
    d = prob.diff_idxs
    if mode == "none":
        return None, list(d)
    if mode == "int":
        j = rng.choice(d)
        return j, [j]
    k = rng.randint(1, min(3, len(d)))
    sel = rng.sample(d, k)
    if rng.random() < 0.5:
        sel.sort()
    return (list(sel) if mode == "list" else tuple(sel)), list(sel)


def run_ops(desc):
    import xitorch
    obs = Obs(desc)
    rng = random.Random(desc["seed"])
    tgen = torch.Generator().manual_seed(desc["seed"])
    is_hess = desc["group"] == "hess"
    tag = "hess" if is_hess else "jac"
    prob = Problem(desc, rng, tgen, scalar_out=is_hess)
    kind = prob.kind
    obs.count("kind_%s" % kind)
    obs.count("idxs_%s" % desc["idxs"])
    idxs, expect = choose_idxs(desc["idxs"], prob, rng)
    with WarnLog():
        try:
            res = call_builder(obs, prob, is_hess, idxs)
        except Exception as e:
            guard_exc(obs, "construct:%s:%s:%s" % (tag, kind, desc["idxs"]), e, idxs=str(idxs))
            obs.nontrivial = True
            return obs.result()
    if desc["idxs"] == "int":
        ok = isinstance(res, xitorch.LinearOperator)
        ops = [res]
    else:
        ok = isinstance(res, (list, tuple)) and len(res) == len(expect) and all(isinstance(o, xitorch.LinearOperator) for o in res)
        ops = list(res) if ok else []
    obs.check(ok, "ret_type:%s:%s" % (tag, desc["idxs"]), "idxs=%s returned %s (expected %s)" % (
        idxs, type(res).__name__ if desc["idxs"] == "int" else "%s of length %s" % (type(res).__name__, len(res) if hasattr(res, "__len__") else "?"),
        "one LinearOperator" if desc["idxs"] == "int" else "a list of %d LinearOperators" % len(expect)))
    if not ok:
        obs.nontrivial = True
        return obs.result()
    vb = VBATCH[desc["vb"]]
    worst_v = worst_g = 0.0
    any_nonzero = grad_nonzero = False
    # all operators get the value checks; one of them (seeded) also gets the derivative checks
    dsel = rng.randrange(len(ops))
    for k, (op, idx) in enumerate(zip(ops, expect)):
        name = prob.leaf_of(idx)
        x = prob.leaves[name]
        nin = x.numel()
        nout = nin if is_hess else prob.m
        obs.count("operators_checked")
        if is_hess:
            obs.count("hess_operators")
        data = dict(kind=kind, idx=idx, inshape=list(x.shape), outshape=list(prob.outshape), vbatch=list(vb), idxs=str(idxs))
        obs.check(tuple(op.shape) == (nout, nin), "shape:%s" % tag, "operator shape %s, expected (%d, %d)" % (tuple(op.shape), nout, nin), **data)
        if tuple(op.shape) != (nout, nin):
            continue
        Jd = prob.dense(name, hess=is_hess)
        if is_hess:
            obs.check(op.H is op, "hess:H_is_self", ".H of a Hessian operator is not the operator itself", **data)
            obs.check(bool(op.is_hermitian), "hess:flag", "Hessian operator is not flagged Hermitian", **data)
        v, u, V, U = make_vectors(nout, nin, vb, desc["r"], tgen)
        for pname in PRODUCTS + ["H.rmm"]:
            try:
                got = product(op, pname, v, u, V, U)
            except Exception as e:
                guard_exc(obs, "prod:%s:%s:%s" % (tag, pname, kind), e, **data)
                continue
            ref = product_ref(Jd, pname, v, u, V, U)
            e, nz = compare(obs, got, ref, "prod:%s:%s:%s" % (tag, pname, kind), "%s of the %s operator" % (pname, tag), VTOL, **data)
            worst_v = max(worst_v, e)
            any_nonzero = any_nonzero or nz
            obs.count("products_compared")
        if is_hess:
            fm = op.fullmatrix().detach()
            asym = float((fm - fm.transpose(-2, -1)).abs().max())
            obs.check(asym <= VTOL * (1 + float(fm.abs().max())), "hess:symmetry", "fullmatrix of the Hessian is not symmetric: %.3e" % asym, **data)
        # products without grad mode (cached graph must still be usable)
        ref_mv, ref_rmv = product_ref(Jd, "mv", v, u, V, U), product_ref(Jd, "rmv", v, u, V, U)
        with torch.no_grad():
            try:
                got_mv, got_rmv = op.mv(v), op.rmv(u)
            except Exception as e:
                got_mv = None
                guard_exc(obs, "prod_nograd:%s:%s" % (tag, kind), e, **data)
        if got_mv is not None:
            compare(obs, got_mv, ref_mv, "prod_nograd:%s:mv:%s" % (tag, kind), "mv under no_grad", VTOL, **data)
            compare(obs, got_rmv, ref_rmv, "prod_nograd:%s:rmv:%s" % (tag, kind), "rmv under no_grad", VTOL, **data)
            obs.count("products_compared", 2)
        if k != dsel:
            continue
        # ---- differentiability of one product w.r.t. the point, the other arguments, the parameters and the vector
        pname = desc["dprod"]
        v, u, V, U = make_vectors(nout, nin, vb, desc["r"], tgen, requires_grad=True)
        names = list(prob.leaves.keys())
        tensors = [prob.leaves[n] for n in names] + [v, u, V, U]
        names = names + ["vec_v", "vec_u", "mat_V", "mat_U"]
        rolefn = lambda nm: "vec" if nm[:3] in ("vec", "mat") else prob.role(nm, name)
        ref = product_ref(Jd, pname, v, u, V, U)
        C = rand_like_shape(tuple(ref.shape), tgen)
        Ds = [rand_like_shape(tuple(t.shape), tgen) for t in tensors]
        r1 = grads((ref * C).sum(), tensors, True)
        Sr = sum((gi * di).sum() for gi, di in zip(r1, Ds) if gi is not None and gi.requires_grad)
        r2 = grads(Sr, tensors, False)
        try:
            got = product(op, pname, v, u, V, U)
            if not isinstance(got, torch.Tensor) or tuple(got.shape) != tuple(ref.shape):
                continue            # already reported by the value checks
            g1 = grads((got * C).sum(), tensors, True)
            S = sum((gi * di).sum() for gi, di in zip(g1, Ds) if gi is not None and gi.requires_grad)
            g2 = grads(S, tensors, False)
        except Exception as e:
            guard_exc(obs, "grad:%s:%s:%s" % (tag, pname, kind), e, **data)
            continue
        e, nz = compare_grads(obs, g1, r1, names, tensors, rolefn, "grad:%s:%s:%s" % (tag, pname, kind), "first", data)
        worst_g = max(worst_g, e)
        grad_nonzero = grad_nonzero or nz
        obs.count("grad_compared_first")
        e, nz = compare_grads(obs, g2, r2, names, tensors, rolefn, "grad:%s:%s:%s" % (tag, pname, kind), "second", data)
        worst_g = max(worst_g, e)
        obs.count("grad_compared_second")
    obs.note(n_ops=len(ops), value_relerr=worst_v, grad_relerr=worst_g, fcn_calls=prob.ncalls)
    obs.count("function_calls", prob.ncalls)
    obs.nontrivial = any_nonzero and grad_nonzero and any(o.shape[0] * o.shape[1] >= 2 for o in ops)
    return obs.result()


# ---------------------------------------------------------------------------------------------------- substitution
def run_subst(desc):
    obs = Obs(desc)
    rng = random.Random(desc["seed"])
    tgen = torch.Generator().manual_seed(desc["seed"])
    is_hess = bool(desc["hess"])
    tag = "hess" if is_hess else "jac"
    prob = Problem(desc, rng, tgen, scalar_out=is_hess)
    kind = prob.kind
    obs.count("kind_%s" % kind)
    idx = rng.choice(prob.diff_idxs)
    name = prob.leaf_of(idx)
    via = desc["via"]
    data = dict(kind=kind, idx=idx, via=via, which=desc["which"], tag=tag)
    import xitorch
    with WarnLog():
        try:
            op0 = call_builder(obs, prob, is_hess, idx)
            ok = isinstance(op0, xitorch.LinearOperator)
            if ok:
                A = op0.H if via == "H" else op0
                ps = list(A.getlinopparams())
        except Exception as e:
            guard_exc(obs, "construct:%s:%s:subst" % (tag, kind), e, **data)
            obs.nontrivial = True
            return obs.result()
    if not ok:
        obs.violation("ret_type:%s:int" % tag, "idxs=%d returned %s instead of one LinearOperator" % (idx, type(op0).__name__), **data)
        obs.nontrivial = True
        return obs.result()
    obs.count("operators_checked")
    # which leaf is each operator parameter?
    pnames = []
    for p in ps:
        found = [k for k, v in prob.leaves.items() if v is p]
        if not found:
            obs.violation("linopparams:foreign:%s:%s" % (tag, kind), "getlinopparams returned a tensor that is none of the function's inputs/parameters "
                          "(shape %s)" % (tuple(p.shape),), **data)
            return obs.result()
        pnames.append(found[0])
    missing = [k for k in prob.leaves if k not in pnames]
    obs.check(not missing, "linopparams:missing:%s:%s" % (tag, kind), "tensors %s influence the operator but are not among its parameters" % missing, **data)
    x = prob.leaves[name]
    nin = x.numel()
    nout = nin if is_hess else prob.m
    vb = VBATCH[desc["vb"]]
    transposed = via == "H" and not is_hess
    vin, vout = (nout, nin) if transposed else (nin, nout)     # A maps vin -> vout
    v, u, V, U = make_vectors(vout, vin, vb, desc["r"], tgen)
    PR = ["mv", "rmv", "mm", "rmm", "fullmatrix"]

    def dense_A(values):
        Jd = prob.dense(name, values, hess=is_hess)
        return Jd.transpose(-2, -1) if transposed else Jd

    LABEL = {"during": "while other tensors are substituted through uselinopparams",
             "restored": "after the original tensors were restored", "before": "before any substitution"}

    def check_products(Ad, label, count_name):
        refs = {pname: product_ref(Ad, pname, v, u, V, U) for pname in PR}
        nzz = False
        for pname in PR:
            mech = "subst:%s:%s:%s:%s:%s" % (label, tag, via, pname, kind)
            try:
                got = product(A, pname, v, u, V, U)
            except Exception as e:
                guard_exc(obs, mech, e, **data)
                continue
            e, nz = compare(obs, got, refs[pname], mech, "%s %s" % (pname, LABEL[label]), VTOL, **data)
            nzz = nzz or nz
            obs.count(count_name)
        return nzz
    A_orig = dense_A({})
    nz0 = check_products(A_orig, "before", "products_compared")
    nontriv_grad = False
    ncalls0 = prob.ncalls
    rolefn = lambda nm: prob.role(nm, name)
    for rnd in range(2):
        new, values = [], {}
        for p, pn in zip(ps, pnames):
            change = desc["which"] == "all" or (desc["which"] == "point_only") == (pn == name)
            if rnd == 1:
                change = True
            if change:
                t = (p.detach() + 0.3 * rand_like_shape(tuple(p.shape), tgen)).requires_grad_()
                values[pn] = t
            else:
                t = p
            new.append(t)
        if any(prob.role(pn, name) == "objparam" for pn in values):
            obs.count("subst_objparam_cases")
        # reference at the substituted tensors, with its derivatives w.r.t. them (what solve's backward asks the operator for)
        A_new = dense_A(values)
        pname = desc["dprod"]
        ref = product_ref(A_new, pname, v, u, V, U)
        C = rand_like_shape(tuple(ref.shape), tgen)
        vn = list(values.keys())
        vt = [values[k] for k in vn]
        Ds = [rand_like_shape(tuple(t.shape), tgen) for t in vt]
        r1 = grads((ref * C).sum(), vt, True)
        Sr = sum((gi * di).sum() for gi, di in zip(r1, Ds) if gi is not None and gi.requires_grad)
        r2 = grads(Sr, vt, False)
        g1 = g2 = None
        try:
            with A.uselinopparams(*new):
                check_products(A_new, "during", "subst_products_compared")
                got = product(A, pname, v, u, V, U)
                if isinstance(got, torch.Tensor) and tuple(got.shape) == tuple(ref.shape):
                    g1 = grads((got * C).sum(), vt, True)
                    S = sum((gi * di).sum() for gi, di in zip(g1, Ds) if gi is not None and gi.requires_grad)
                    g2 = grads(S, vt, False)
        except Exception as e:
            guard_exc(obs, "subst:during:%s:%s:%s" % (tag, via, kind), e, **data)
            obs.nontrivial = True
            return obs.result()
        if g1 is not None:
            e, nz = compare_grads(obs, g1, r1, vn, vt, rolefn, "subst_grad:%s:%s:%s:%s" % (tag, via, pname, kind), "first", data)
            nontriv_grad = nontriv_grad or nz
            compare_grads(obs, g2, r2, vn, vt, rolefn, "subst_grad:%s:%s:%s:%s" % (tag, via, pname, kind), "second", data)
            obs.count("subst_grad_compared")
        # ---- restoration: original values again, the operator and the object hold the original tensor objects
        check_products(A_orig, "restored", "products_compared")
        after = list(A.getlinopparams())
        same = len(after) == len(ps) and all(a is b for a, b in zip(after, ps))
        obs.check(same, "subst:restore_identity:%s:%s" % (tag, kind), "after uselinopparams the operator does not hold its original tensors", **data)
        if prob.obj is not None:
            held = [getattr(prob.obj, nm) for nm in ("W1", "W2", "cv")]
            obs.check(all(a is b for a, b in zip(held, prob.W)), "subst:restore_object:%s:%s" % (tag, kind),
                      "after uselinopparams the %s no longer holds its original parameter tensors" % kind, **data)
        obs.count("subst_restored_checked")
    obs.count("reevaluations_forced", prob.ncalls - ncalls0)
    obs.note(fcn_calls=prob.ncalls, nparams=len(ps))
    obs.nontrivial = nz0 and nontriv_grad and nin * nout >= 2
    return obs.result()


# -------------------------------------------------------------------------------------------------- non-differentiable idx
def run_badidx(desc):
    obs = Obs(desc)
    rng = random.Random(desc["seed"])
    tgen = torch.Generator().manual_seed(desc["seed"])
    is_hess = bool(desc["hess"])
    tag = "hess" if is_hess else "jac"
    prob = Problem(desc, rng, tgen, scalar_out=is_hess)
    obs.count("kind_%s" % prob.kind)
    bad = rng.choice(prob.nondiff_idxs)
    good = rng.choice(prob.diff_idxs)
    what = {"c": "tensor_without_grad", "f": "float", "i": "int"}[prob.full_spec[bad][0]]
    form = desc["form"]
    idxs = {"int": bad, "list": [bad], "tuple": (bad,), "list_mixed": [good, bad]}[form]
    outcome = "no_error"
    try:
        with WarnLog():
            call_builder(obs, prob, is_hess, idxs)
    except TypeError:
        outcome = "TypeError"
    except Exception as e:
        outcome = type(e).__name__
        obs.note(exc=str(e)[:200])
    obs.check(outcome == "TypeError", "badidx:%s:%s:%s:%s" % (tag, what, form, outcome),
              "idxs=%s points at a %s; expected TypeError, got %s" % (idxs, what, outcome), kind=prob.kind)
    obs.count("typeerror_cases")
    # the same call with the differentiable index alone must work (the rejection is about the index, not the function)
    Jd = prob.dense(prob.leaf_of(good), hess=is_hess)
    fm = None
    try:
        with WarnLog():
            fm = call_builder(obs, prob, is_hess, good).fullmatrix()
    except Exception as e:
        guard_exc(obs, "construct:%s:%s:int" % (tag, prob.kind), e)
    if fm is not None:
        compare(obs, fm, Jd, "prod:%s:fullmatrix:%s" % (tag, prob.kind), "fullmatrix", VTOL)
        obs.count("products_compared")
        obs.count("operators_checked")
    obs.nontrivial = True
    return obs.result()


# ------------------------------------------------------------------------------------------------------ zero blocks
def run_zero(desc):
    obs = Obs(desc)
    rng = random.Random(desc["seed"])
    tgen = torch.Generator().manual_seed(desc["seed"])
    variant = desc["variant"]
    is_hess = variant.startswith("hess")
    tag = "hess" if is_hess else "jac"
    d = dict(desc)
    d["_spec"] = [("t", (3,)), ("t", (2, 2))]
    d["out"] = 0 if is_hess else 2
    ignore = 1 if "ignored_arg" in variant else None
    prob = Problem(d, rng, tgen, scalar_out=is_hess, ignore=ignore, linear=(variant == "hess_linear"),
                   crossfree=(variant == "hess_cross_free"))
    obs.count("kind_%s" % prob.kind)
    obs.count("zero_block_cases")
    if variant == "jac_ignored_arg_none":
        idxs, pick = None, 1
    else:
        idxs, pick = (1 if ignore is not None else 0), None
    vb = VBATCH[desc["vb"]]
    name = prob.leaf_of(1 if ignore is not None else 0)
    Jd = prob.dense(name, hess=is_hess)
    if float(Jd.detach().abs().max()) != 0.0:
        raise HarnessBug("zero-block case has a non-zero dense reference")
    nout, nin = Jd.shape
    v, u, V, U = make_vectors(nout, nin, vb, 2, tgen)
    PZ = ["mv", "rmv", "mm", "rmm", "fullmatrix", "H.mv"]
    got = {}
    try:
        with WarnLog():
            res = call_builder(obs, prob, is_hess, idxs)
            op = res[pick] if pick is not None else res
            shape = tuple(op.shape)
            for pname in PZ:
                got[pname] = product(op, pname, v, u, V, U)
    except Exception as e:
        guard_exc(obs, "zero_block:%s:%s" % (tag, variant), e, kind=prob.kind)
        obs.nontrivial = True
        return obs.result()
    obs.check(shape == (nout, nin), "zero_block:%s:shape" % tag, "operator shape %s, expected (%d, %d)" % (shape, nout, nin))
    for pname in PZ:
        compare(obs, got[pname], product_ref(Jd, pname, v, u, V, U), "zero_block:%s:%s:prod:%s" % (tag, variant, pname), pname, VTOL)
        obs.count("products_compared")
    obs.count("operators_checked")
    obs.nontrivial = True
    return obs.result()
