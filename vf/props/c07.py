"""C07 - solve_ivp integrates the ODE with the declared scheme and accuracy.

Call-history spy + reference-model monitor.  The right-hand side handed to the REAL `xitorch.integrate.solve_ivp` is a
recording closure (every (t, y) argument and every returned slope is logged).  Oracles:

* lockstep replay: the recorded call history is replayed against the literature tableaus (Fractions below, cross-checked
  with scipy.integrate._ivp.rk): every stage argument, every step result, one step per interval for the fixed-step
  methods; for the adaptive pairs every attempted step is classified accepted/rejected from the observed history, every
  accepted step must have the embedded error estimate below atol + rtol*max(|y0|,|y1|), steps must land on the requested
  times and the returned values must be the values of the landing steps;
* black-box identification with scripted slopes (basis vector e_j on the j-th call of a step): c, A, b are READ OFF the
  execution, compared with the literature and inserted into every rooted-tree order condition up to the declared order;
  error weights E are read off the step-size response and the accept/reject threshold;
* one-step order, global accuracy on closed-form families, metamorphic relations (prefix independence, time reflection,
  round trip, tuple/list state == concatenated state), y[0] bitwise y0;
* vf/c07_extra.py (right-hand sides returning tensors they do not own), vf/c07_tdtype.py (time grid of another dtype than the state),
  vf/c07_firststep.py (directed: forcing that aliases with the stage times of the first trial step; known finding).
"""
import math
import random
from fractions import Fraction as Fr

import torch

from vf.common import Obs, sub_seed, WarnLog, HarnessBug

LEVEL = "exploration"
TECHNIQUE = ("runtime call-history spy on the right-hand side + lockstep reference model (literature Butcher tableaus, embedded error "
             "estimate, accept/reject classification, landing on requested times; also run on partial histories while the solver is "
             "running), black-box tableau identification with scripted slopes inserted into the rooted-tree order conditions, "
             "closed-form accuracy and bitwise metamorphic relations")
LEVEL_TEXT = ("Held on every generated execution of the run: 5 methods (and the default) x {scripted basis slopes, 7 closed-form ODE families incl. "
              "batched, matrix-shaped and tuple/list states} x grids {uniform, ragged, very short, short-then-long, one long interval, repeated "
              "points, single point} x {increasing, decreasing} x 6 (atol, rtol) settings. Every recorded right-hand-side call was replayed "
              "against the literature tableau (stage times, stage states, step result, FSAL reuse, one step per interval for the fixed-step "
              "methods; for the pairs: every accepted step has its embedded estimate below atol+rtol*|y|, no step is rejected below it, steps "
              "land on the requested times and the returned values are those of the landing steps); c, A, b were read off scripted "
              "executions and E off the step-size response and the accept/reject threshold, agree with the literature and satisfy every "
              "rooted-tree order condition up to the declared order (17 trees for order 5); global errors stay below a calibrated multiple of "
              "the requested tolerance. Time grids of another dtype than the state (float32 / float16 / integer grid with a float64 or float32 state, float64 "
              "grid with a float32 state) return the state's dtype, y0 exactly and the step map of the scheme in the state's precision. "
              "Only the generated inputs are decided (state size <= 24, |t| <= 12, Lipschitz constant x span <= 4).")
LEVEL_NOTE = ("Trusts the literature tableaus transcribed in the module (cross-checked against scipy.integrate._ivp.rk at run time), "
              "torch.linalg.matrix_exp / elementary functions for the closed forms, and the norm convention ||err||_2 <= atol + rtol*max(||y0||_2,||y1||_2) "
              "for 'within the requested tolerances'. Accuracy bounds and observed-order margins are calibrated (>= 100x the largest error seen / "
              ">= 0.25 below the smallest order seen), so a defect that changes results by less than that is only caught by the exact monitors "
              "(lockstep replay, identification, bitwise metamorphic relations). Accuracy is only claimed for right-hand sides that do not oscillate "
              "inside the first requested interval: the first trial step is that whole interval and a forcing whose period divides its stage times is "
              "integrated with an O(1) error at any tolerance (directed group firststep, known finding accuracy:alias_first_step:*).")
RULE = ("cases drawn by seeded sampling over group {tableau, errw, order, accuracy, fixedacc, meta_prefix, meta_reflect, meta_roundtrip, meta_tuple, "
        "degenerate} x method {euler, rk4, rk38, rk23, rk45} x ODE family x grid kind x direction x tolerance setting x state layout; "
        "non-trivial = the deciding comparison of the group was reached (call history replayed to the end by the lockstep model / coefficients "
        "read off / at least s of the s+1 error weights read / both runs of a metamorphic pair completed) on a solution that is not identically "
        "zero, or the case ended in a violation")
RULE += ("; group alias (vf/c07_extra.py): right-hand sides that return a tensor they do not own (the state, a view of it, a parameter, a closure tensor, a module attribute): exact step map, y(ts[0]) = y0, repeatability, caller's tensors unchanged")
RULE += ("; group tdtype (vf/c07_tdtype.py): time grid of another dtype than the state (float32 / float16 / int64 / int32 grid with a float64 or float32 "
         "state, float64 grid with a float32 state; integer and float16 grids with the fixed-step methods only) x 5 methods x families x {dyadic, generic, "
         "integer} grids x direction x tensor / tuple / list state: result dtype = state dtype, y(ts[0]) = y0, lockstep replay in the state's precision "
         "with the grid values converted exactly, closed-form accuracy for float64 states"
         "; group firststep (vf/c07_firststep.py, directed): forcing whose period divides every stage time of a first trial step that spans the whole "
         "first interval (known finding accuracy:alias_first_step:*) and the same problem behind a first interval of 1/8 period (control, evidence only)")
MIN_NONTRIVIAL = {"quick": 2000, "thorough": 15000}
REQUIRED_COUNTERS = {
    "quick": {"tdtype_compared": 300, "tdtype_fixed_narrow_grid": 100, "tdtype_fixed_exact_step_size": 150, "tdtype_adaptive_compared": 120,
              "tdtype_sequence_state": 80, "tdtype_integer_grid": 40, "firststep_alias_runs": 8, "firststep_control_runs": 8,
              "extra_alias_compared": 100, "tableaus_identified": 200, "error_weight_sets_identified": 80, "histories_replayed": 5000, "replayed_euler": 600,
              "replayed_rk4": 600, "replayed_rk38": 600, "replayed_rk23": 1400, "replayed_rk45": 2000, "steps_rejected": 1500,
              "steps_zero_length": 2000, "threshold_probes": 900, "rejections_probed": 400, "controller_probes": 900,
              "order_conditions_evaluated": 2200, "order_tests": 350, "accuracy_compared": 650, "accuracy_resolved_steps": 300,
              "metamorphic_compared": 900, "tuple_state_cases": 400, "degenerate_grids": 40, "y0_bitwise_checked": 5000,
              "default_method_calls": 20},
    "thorough": {"tdtype_compared": 7000, "tdtype_fixed_narrow_grid": 2500, "tdtype_fixed_exact_step_size": 3500, "tdtype_adaptive_compared": 2800,
                 "tdtype_sequence_state": 2000, "tdtype_integer_grid": 1000, "firststep_alias_runs": 60, "firststep_control_runs": 60,
                 "extra_alias_compared": 1000, "tableaus_identified": 1400, "error_weight_sets_identified": 700, "histories_replayed": 40000, "replayed_euler": 4500,
                 "replayed_rk4": 4500, "replayed_rk38": 4500, "replayed_rk23": 11000, "replayed_rk45": 16000, "steps_rejected": 12000,
                 "steps_zero_length": 16000, "threshold_probes": 8000, "rejections_probed": 4000, "controller_probes": 8000,
                 "order_conditions_evaluated": 17000, "order_tests": 2400, "accuracy_compared": 5000, "accuracy_resolved_steps": 2500,
                 "metamorphic_compared": 7000, "tuple_state_cases": 3300, "degenerate_grids": 40, "y0_bitwise_checked": 40000,
                 "default_method_calls": 300},
}
ASSUMPTIONS = [
    "ts strictly monotone with 2 <= nt <= 9, |t| <= 12, total span <= 10, shortest interval 1e-6 x span (plus the directed degenerate grids: "
    "a single point; one repeated time first / inside / last)",
    "state size <= 24 (batched, matrix-shaped, 0-dim and tuple/list states), float64 (float32 only in the scripted tableau group)",
    "families keep (Lipschitz constant) x (span) <= 4 and solutions O(1): linear systems with ||A||_2 <= 2 (matrix exponential), logistic, separable "
    "y'=-a(t+s)y, Bernoulli y'=q y^2 cos(w(t+s)) with w <= 2.5/span, harmonic and damped oscillators, coupled linear tuple states",
    "adaptive tolerances (atol, rtol) in {defaults (1e-8,1e-5), (1e-6,1e-3), (1e-10,1e-8), (1e-12,1e-10), (1e-6,0), (0,1e-6)} and 100x tighter "
    "re-runs; rk23 is not run below (1e-8,1e-5)",
    "lockstep comparisons use 1e3*eps relative to the magnitude of the terms of each stage formula plus the rounding of the recorded step "
    "size (largest deviation seen on the unchanged tree: < 10 eps-units)",
    "'error within the requested tolerances' per accepted step is judged with the 2-norm of the embedded estimate against atol + rtol*max(|y0|,|y1|) "
    "(the convention of the code); the global error is judged against K*(atol+rtol*max|y|)*(1+L*T)*sqrt(#accepted steps), K = 120 (rk23) / 40 (rk45) "
    "when every accepted step has h*L <= 0.5 and 1400 / 50 otherwise (the initial step guess is the whole first interval: on a coarse grid a step "
    "with h*L > 1 can be accepted on an accidentally small estimate; seen: 14x the resolved-step bound)",
    "error weights E are read through the controller response h_new = h*min(10, 0.9*err^(-1/(q+1))) of the code and, independently of those "
    "constants, through the accept/reject threshold err < 1 (a rejection below the threshold is reported as 'not the declared pair's estimate')",
    "group tdtype: grid values exactly representable in the grid's dtype (dyadic: multiples of 1/4, 1/8, 1/16 with |t| <= 11.5; integer: steps 1..3; "
    "generic: the uniform / ragged / long grids rounded to the grid's dtype, points closer than 64 eps(grid) x max(1,|t|) dropped); integer and float16 "
    "grids only with euler / rk4 / rk38; adaptive tolerances default or (1e-6,1e-3) for float64 states, (1e-4,1e-3) or (1e-5,1e-4) for float32 states; "
    "a 0-dim float32 tensor state with a float64 grid and a fixed-step method is reshaped to (1,) (0-dim type promotion widens it to float64 on the "
    "unchanged tree); stage times within 100 eps(grid) x (|t0|+|h|) (seen: 0.87), state comparisons 1e3 eps(state) (seen: 1.3) plus one rounding "
    "eps(grid) x |h| of the step size when ts[i+1]-ts[i] is not representable in the grid's dtype; rk23 accuracy factor 400 on resolved steps (seen: 3.09)",
    "group firststep: y' = a + b cos(2 pi m (t-t0)/h + phi) and y' = y b (cos(.) - cos(phi)), m = 4 or 8 (rk23) / 90 (rk45) oscillations in the first "
    "interval h in {0.5, 1, 2, 4, 8}, |cos(phi)| >= 0.3, tolerances default / abs / rel / tight (largest number of right-hand-side calls seen: 2941); the control "
    "run with a first interval of 1/8 forcing period is evidence only (its accuracy is counted, not judged)",
    "a run is declared non-terminating after 8000 right-hand-side calls (largest seen: 865) or 300 consecutive calls at one time (largest seen: 13)",
]
BUDGET = {"quick": {"worker_timeout": 600, "case_timeout": 60}, "thorough": {"worker_timeout": 3000, "case_timeout": 120}}

METHODS = ["euler", "rk4", "rk38", "rk23", "rk45"]
FIXED = ("euler", "rk4", "rk38")
ADAPTIVE = ("rk23", "rk45")
CALL_BUDGET = 8000      # right-hand-side calls per solve (largest seen on the unchanged tree: 865); more = 'does not terminate'
STUCK_CALLS = 300       # consecutive calls at exactly the same time (largest seen: 13, a zero-length step) = step size 0, 'does not terminate'
SMALL_BUDGET = 2000      # scripted / single-step solves (largest seen: 65)

# ------------------------------------------------------------------------------------------------ literature tableaus
# Kutta 1901 (classical RK4 and the 3/8 rule), Bogacki & Shampine 1989 (3(2) pair, FSAL), Dormand & Prince 1980 (5(4) pair, FSAL)
_LIT = {
    "euler": dict(order=1, c=[0], A=[[]], b=[1]),
    "rk4": dict(order=4, c=[0, Fr(1, 2), Fr(1, 2), 1], A=[[], [Fr(1, 2)], [0, Fr(1, 2)], [0, 0, 1]],
                b=[Fr(1, 6), Fr(1, 3), Fr(1, 3), Fr(1, 6)]),
    "rk38": dict(order=4, c=[0, Fr(1, 3), Fr(2, 3), 1], A=[[], [Fr(1, 3)], [Fr(-1, 3), 1], [1, -1, 1]],
                 b=[Fr(1, 8), Fr(3, 8), Fr(3, 8), Fr(1, 8)]),
    "rk23": dict(order=3, est_order=2, c=[0, Fr(1, 2), Fr(3, 4)], A=[[], [Fr(1, 2)], [0, Fr(3, 4)]],
                 b=[Fr(2, 9), Fr(1, 3), Fr(4, 9)], bhat=[Fr(7, 24), Fr(1, 4), Fr(1, 3), Fr(1, 8)]),
    "rk45": dict(order=5, est_order=4, c=[0, Fr(1, 5), Fr(3, 10), Fr(4, 5), Fr(8, 9), 1],
                 A=[[], [Fr(1, 5)], [Fr(3, 40), Fr(9, 40)], [Fr(44, 45), Fr(-56, 15), Fr(32, 9)],
                    [Fr(19372, 6561), Fr(-25360, 2187), Fr(64448, 6561), Fr(-212, 729)],
                    [Fr(9017, 3168), Fr(-355, 33), Fr(46732, 5247), Fr(49, 176), Fr(-5103, 18656)]],
                 b=[Fr(35, 384), 0, Fr(500, 1113), Fr(125, 192), Fr(-2187, 6784), Fr(11, 84)],
                 bhat=[Fr(5179, 57600), 0, Fr(7571, 16695), Fr(393, 640), Fr(-92097, 339200), Fr(187, 2100), Fr(1, 40)]),
}
_REF_CACHE = {}


def ref(method):
    """reference tableau as python floats: c (s), A (s x s), b (s), and for the pairs E (s+1) = bhat - (b, 0), order, est_order"""
    if method in _REF_CACHE:
        return _REF_CACHE[method]
    L = _LIT[method]
    s = len(L["c"])
    A = [[Fr(0)] * s for _ in range(s)]
    for i, row in enumerate(L["A"]):
        for j, v in enumerate(row):
            A[i][j] = Fr(v)
    out = {"s": s, "order": L["order"], "c": [float(Fr(x)) for x in L["c"]], "A": [[float(x) for x in r] for r in A],
           "b": [float(Fr(x)) for x in L["b"]], "adaptive": "bhat" in L}
    # consistency of the transcription itself (exact arithmetic): row sums and sum(b)
    for i in range(s):
        if sum(A[i]) != Fr(L["c"][i]):
            raise HarnessBug("literature tableau %s: row %d does not sum to c" % (method, i))
    if sum(Fr(x) for x in L["b"]) != 1:
        raise HarnessBug("literature tableau %s: b does not sum to 1" % method)
    if "bhat" in L:
        bext = [Fr(x) for x in L["b"]] + [Fr(0)]
        E = [Fr(x) - y for x, y in zip(L["bhat"], bext)]
        out["E"] = [float(x) for x in E]
        out["est_order"] = L["est_order"]
        # FSAL: the last row of the extended tableau is b
        try:
            from scipy.integrate._ivp import rk as _rk
            cls = {"rk23": _rk.RK23, "rk45": _rk.RK45}[method]
            ok = (max(abs(a - b) for a, b in zip(out["c"], cls.C)) < 1e-15
                  and max(abs(out["A"][i][j] - cls.A[i][j]) for i in range(s) for j in range(cls.A.shape[1])) < 1e-14
                  and max(abs(a - b) for a, b in zip(out["b"], cls.B)) < 1e-15
                  and max(abs(a - b) for a, b in zip(out["E"], cls.E)) < 1e-15
                  and cls.order == L["order"] and cls.error_estimator_order == L["est_order"])
        except Exception as e:  # pragma: no cover
            raise HarnessBug("cannot cross-check with scipy: %r" % (e,))
        if not ok:
            raise HarnessBug("literature tableau of %s disagrees with scipy.integrate._ivp.rk" % method)
    _REF_CACHE[method] = out
    return out


# ------------------------------------------------------------------------------------------------ rooted trees / order conditions
def _trees_upto(n):
    """rooted trees as nested sorted tuples of children, by order"""
    trees = {1: [()]}

    def forests(m, cache={}):
        # multisets of trees whose orders sum to m (each forest a sorted tuple)
        if m == 0:
            return [()]
        res = set()
        for k in range(1, m + 1):
            for t in trees[k]:
                for rest in forests(m - k):
                    res.add(tuple(sorted(rest + (t,), key=repr)))
        return sorted(res, key=repr)
    for o in range(2, n + 1):
        trees[o] = [f for f in forests(o - 1)]
    return trees


_TREES = _trees_upto(6)
if [len(_TREES[k]) for k in range(1, 7)] != [1, 1, 2, 4, 9, 20]:  # known counts of rooted trees
    raise HarnessBug("rooted tree generator is wrong")


def _order(t):
    return 1 + sum(_order(c) for c in t)


def _gamma(t):
    g = _order(t)
    for c in t:
        g *= _gamma(c)
    return g


def _phi(t, A):
    """elementary weight vector Phi(t) (list of floats, one per stage) for the matrix A"""
    s = len(A)
    out = [1.0] * s
    for c in t:
        pc = _phi(c, A)
        Apc = [sum(A[i][j] * pc[j] for j in range(s)) for i in range(s)]
        out = [o * a for o, a in zip(out, Apc)]
    return out


def order_residuals(A, b, upto):
    """max over rooted trees of order <= upto of |b.Phi(t) - 1/gamma(t)|, per order"""
    res = {}
    for o in range(1, upto + 1):
        worst = 0.0
        for t in _TREES[o]:
            ph = _phi(t, A)
            worst = max(worst, abs(sum(bi * p for bi, p in zip(b, ph)) - 1.0 / _gamma(t)))
        res[o] = worst
    return res


def weight_moments(A, w, order):
    """[w.Phi(t) for trees t of the given order]"""
    return [sum(wi * p for wi, p in zip(w, _phi(t, A))) for t in _TREES[order]]


# ------------------------------------------------------------------------------------------------ the spy
class CallBudget(Exception):
    pass


class StopSolve(Exception):
    """raised by the spy to end a run whose partial history already violates the declared scheme (the violation itself is
    established afterwards by the ordinary replay of the recorded history)"""


class Spy:
    """records every call of the right-hand side: (t as float, flattened y, flattened returned slope)"""

    def __init__(self, rule, budget=CALL_BUDGET):
        self.rule = rule
        self.log = []
        self.n = 0
        self.budget = budget
        self.tlast = None
        self.since_progress = 0
        self.max_since_progress = 0
        self.online = None          # callable(log) -> True when the history has already left the declared scheme
        self.next_online = 256
        self.stopped_online = False
        self.arg_kinds = set()
        self.t_kinds = set()

    def fcn(self):
        spy = self

        def rhs(t, y, *params):
            if spy.n >= spy.budget:
                raise CallBudget()
            idx = spy.n
            spy.n += 1
            if isinstance(y, (tuple, list)):
                spy.arg_kinds.add((type(y).__name__,) + tuple(tuple(c.shape) for c in y))
                yflat = torch.cat([c.detach().reshape(-1) for c in y]).clone()
            else:
                spy.arg_kinds.add(("tensor", tuple(y.shape)))
                yflat = y.detach().reshape(-1).clone()
            spy.t_kinds.add((type(t).__name__, tuple(t.shape) if isinstance(t, torch.Tensor) else None))
            out = spy.rule(idx, t, y, *params)
            if isinstance(out, (tuple, list)):
                oflat = torch.cat([c.detach().reshape(-1) for c in out]).clone()
            else:
                oflat = out.detach().reshape(-1).clone()
            tf = float(t)
            spy.log.append((tf, yflat, oflat))
            if tf != spy.tlast:
                spy.tlast = tf
                spy.since_progress = 0
            else:
                spy.since_progress += 1
                if spy.since_progress > spy.max_since_progress:
                    spy.max_since_progress = spy.since_progress
                if spy.since_progress > STUCK_CALLS:
                    raise CallBudget()
            if spy.online is not None and spy.n >= spy.next_online:
                spy.next_online *= 2
                if spy.online(spy.log):
                    spy.stopped_online = True
                    raise StopSolve()
            return out
        return rhs


def _flat(y):
    if isinstance(y, (tuple, list)):
        return torch.cat([c.reshape(c.shape[0], -1) for c in y], dim=1)
    return y.reshape(y.shape[0], -1)


def _flat0(y0):
    if isinstance(y0, (tuple, list)):
        return torch.cat([c.reshape(-1) for c in y0])
    return y0.reshape(-1)


def _inf(x):
    return float(x.abs().max()) if x.numel() else 0.0


TOL_EPS = 1000.0      # lockstep comparisons: multiples of eps * magnitude of the terms (largest seen: see calibration notes)


class Replay:
    """what the lockstep model saw"""

    def __init__(self):
        self.worst_t = 0.0
        self.worst_y = 0.0
        self.worst_b = 0.0
        self.accepted = 0
        self.rejected = 0
        self.zero_steps = 0
        self.attempts = []
        self.complete = False
        self.nonfinite = 0
        self.max_err_ratio = 0.0


def _ref_t(method):
    """reference coefficients as float64 tensors: Aext (s x (s+1): rows = stages 2..s and the step result, zero padded), E"""
    R = ref(method)
    if "Aext_t" not in R:
        s = R["s"]
        rows = [R["A"][j][:] + [0.0] for j in range(1, s)] + [R["b"][:] + [0.0]]
        R["Aext_t"] = torch.tensor(rows, dtype=torch.float64).reshape(s, s + 1)
        R["c_t"] = torch.tensor(R["c"][1:] + [1.0], dtype=torch.float64)
        if R["adaptive"]:
            R["E_t"] = torch.tensor(R["E"], dtype=torch.float64)
    return R


def _stage_check(R, t0, h, y0, Kmat, tobs, yobs, eps, tmag=0.0, dh=0.0, teps=None):
    """stage times/states and step result predicted by the reference tableau vs the recorded ones, in units of eps*magnitude.
    Kmat: (s+1, N) slopes K_0..K_s (the last row is not used), tobs: (s,) times of stages 2..s and of the end of the step,
    yobs: (s, N) arguments of stages 2..s and the new state.  Returns (rt, ry, rb).
    teps: precision in which the times are computed when it differs from that of the state (time grid of another dtype)."""
    Aext = R["Aext_t"]
    s = R["s"]
    tp = t0 + R["c_t"] * h
    rt = float(((tobs - tp).abs() / ((eps if teps is None else teps) * (abs(t0) + abs(h) + tmag) + 1e-300)).max())
    Kd = Kmat.double()
    pred = y0.double().unsqueeze(0) + h * torch.matmul(Aext, Kd)
    mag = _inf(y0) + abs(h) * torch.matmul(Aext.abs(), Kd.abs().amax(dim=1) if Kd.shape[1] else torch.zeros(s + 1, dtype=torch.float64))
    dev = (yobs.double() - pred).abs().amax(dim=1) if Kd.shape[1] else torch.zeros(s, dtype=torch.float64)
    if dh:
        # h is only known as (end of step) - (start of step), i.e. up to the rounding dh of the recorded times
        dev = torch.clamp(dev - dh * torch.matmul(Aext.abs(), Kd.abs().amax(dim=1)), min=0.0)
    r = dev / (eps * mag + 1e-300)
    ry = float(r[:-1].max()) if s > 1 else 0.0
    rb = float(r[-1])
    return rt, ry, rb


def replay_fixed(method, log, ts, ytf, obs, key, eps, teps=None, dh_rel=0.0):
    """one step of the named scheme per interval: call count, stage times, stage states, step results.
    teps / dh_rel (time grid of another dtype than the state): precision of the stage times; relative uncertainty of the step size
    (ts[i+1]-ts[i] is not representable in the grid's dtype: the scheme may use the rounded or the exact difference)"""
    te = eps if teps is None else teps
    R = _ref_t(method)
    s = R["s"]
    nt = len(ts)
    rp = Replay()
    if not obs.check(len(log) == s * (nt - 1), "calls:%s" % key,
                     "%d right-hand-side calls for %d intervals of a %d-stage scheme (expected %d)" % (len(log), nt - 1, s, s * (nt - 1))):
        return rp
    tl = [float(x) for x in ts]
    bad = None
    N = ytf.shape[1]
    for i in range(nt - 1):
        t0, h = tl[i], tl[i + 1] - tl[i]
        calls = log[i * s:(i + 1) * s]
        first_ok = abs(calls[0][0] - t0) <= TOL_EPS * te * (abs(t0) + abs(h)) and torch.equal(calls[0][1], ytf[i])
        if not first_ok and bad is None:
            bad = ("stage_y", i, 0, float("nan"), _inf(calls[0][1] - ytf[i]), calls[0][0], t0)
        Kmat = torch.stack([c[2] for c in calls] + [torch.zeros(N, dtype=ytf.dtype)])
        tobs = torch.tensor([c[0] for c in calls[1:]] + [tl[i + 1]], dtype=torch.float64)
        yobs = torch.stack([c[1] for c in calls[1:]] + [ytf[i + 1]])
        rt, ry, rb = _stage_check(R, t0, h, ytf[i], Kmat, tobs, yobs, eps, dh=dh_rel * abs(h), teps=teps)
        rp.worst_t, rp.worst_y, rp.worst_b = max(rp.worst_t, rt), max(rp.worst_y, ry), max(rp.worst_b, rb)
        if max(rt, ry, rb) > TOL_EPS and bad is None:
            bad = ("stage_t" if rt > TOL_EPS else ("stage_y" if ry > TOL_EPS else "step_b"), i, -1, rt, max(ry, rb), tl[i], tl[i + 1])
        rp.accepted += 1
    if bad is not None:
        obs.check(False, "%s:%s" % (bad[0], key),
                  "interval %d: recorded calls / returned value differ from one step of the %s tableau by %.3g (t) / %.3g (y) eps-units (t from %r to %r)"
                  % (bad[1], method, bad[3], bad[4], bad[5], bad[6]))
    else:
        obs.check(True, "replay:%s" % key, "")
        rp.complete = True
    return rp


class Attempt:
    __slots__ = ("t0", "h", "y0", "K0", "Kmat", "ynew", "fnew", "err", "scale", "status", "tnew", "start", "finite", "rnd")


class _Collector:
    """stands in for Obs when a partial history is replayed while the solver is still running"""

    def __init__(self):
        self.failed = []

    def check(self, cond, mech, msg, **data):
        if not cond:
            self.failed.append((mech, msg))
        return bool(cond)


def replay_adaptive(method, log, ts, y0f, ytf, atol, rtol, obs, key, eps, partial=False, teps=None):
    """classify every attempted step of the embedded pair from the call history and check it against the reference pair.
    Internal variables: tau = sigma*t, kappa = sigma*k with sigma = sign(ts[1]-ts[0]) (time reflection).
    partial=True: the solver is still running (history incomplete, no result yet): only the checks that a longer history
    cannot revoke are made (the spy uses this to stop a run that has already left the declared scheme).
    teps: precision of the time grid when its dtype differs from the state's; time comparisons use te = max(eps, teps) and the
    uncertainty of the recorded step size enters the rounding bound of the error estimate (te = eps, no change, otherwise)."""
    te = eps if teps is None else max(eps, teps)
    mixed = te > eps
    epsr = max(eps, 2.3e-16)
    R = _ref_t(method)
    s = R["s"]
    rp = Replay()
    if partial:
        log = log[:1 + ((len(log) - 1) // s) * s]
        if len(log) < 1 + s:
            return rp
    tl = [float(x) for x in ts]
    sig = 1.0 if tl[1] >= tl[0] else -1.0
    if tl[1] == tl[0] and tl[-1] < tl[0]:
        sig = -1.0
    tau = [sig * x for x in tl]
    nt = len(tl)
    tmag = max(abs(x) for x in tl)
    eps_t = max(torch.finfo(ts.dtype).eps, te)
    if not obs.check(len(log) >= 1 + s and (len(log) - 1) % s == 0, "calls:%s" % key,
                     "%d right-hand-side calls: not 1 + k*%d (initial slope + %d evaluations per attempted step)" % (len(log), s, s)):
        return rp
    t_first, y_first, k_first = log[0]
    ok0 = abs(sig * t_first - tau[0]) <= 4 * te * tmag and torch.equal(y_first, y0f)
    if not obs.check(ok0, "first_call:%s" % key, "first call is not f(ts[0], y0): t=%r ts[0]=%r" % (t_first, tl[0])):
        return rp
    prev = None
    pos = 1
    fail = None
    nlog = len(log)
    while pos < nlog:
        grp = log[pos:pos + s]
        pos += s
        tobs = torch.tensor([g[0] for g in grp], dtype=torch.float64) * sig
        kap = torch.stack([g[2] for g in grp]) * sig
        yobs = torch.stack([g[1] for g in grp])
        finite = bool(torch.isfinite(kap).all()) and bool(torch.isfinite(yobs).all())
        t_last = float(tobs[-1])
        if prev is None:
            cands = [("init", tau[0], y0f, sig * k_first, True)]
        else:
            cands = [("acc", prev.tnew, prev.ynew, prev.fnew, prev.finite), ("rej", prev.t0, prev.y0, prev.K0, True)]
        best = None
        for name, t0c, y0c, K0c, fin0 in cands:
            h = t_last - t0c
            Kmat = torch.cat([K0c.unsqueeze(0), kap])
            if finite and fin0 and bool(torch.isfinite(K0c).all()):
                rt, ry, rb = _stage_check(R, t0c, h, y0c, Kmat, tobs, yobs, eps, tmag, dh=4 * eps_t * (abs(t0c) + abs(t_last)), teps=te)
            else:
                tp = t0c + R["c_t"] * h
                rt = float(((tobs - tp).abs() / (te * (abs(t0c) + abs(h) + tmag) + 1e-300)).max())
                ry = rb = 0.0
            score = max(rt, ry, rb)
            if best is None or score < best[0]:
                best = (score, name, t0c, y0c, K0c, h, rt, ry, rb, Kmat)
            if score <= TOL_EPS:
                break
        score, name, t0c, y0c, K0c, h, rt, ry, rb, Kmat = best
        if not finite:
            rp.nonfinite += 1
        if score > TOL_EPS:
            which = "stage_t" if rt > TOL_EPS else ("stage_y" if ry > TOL_EPS else "step_b")
            fail = (which, "attempt %d (h=%.6g from t=%.6g): recorded stage calls differ from the %s pair by %.3g (t) / %.3g (stage y) / %.3g (new y) "
                    "eps-units under the best hypothesis '%s'" % (len(rp.attempts), h, sig * t0c, method, rt, ry, rb, name))
            break
        rp.worst_t = max(rp.worst_t, rt)
        rp.worst_y = max(rp.worst_y, ry)
        rp.worst_b = max(rp.worst_b, rb)
        a = Attempt()
        a.t0, a.h, a.y0, a.start, a.K0, a.Kmat, a.finite = t0c, h, y0c, name, K0c, Kmat, finite
        a.ynew = yobs[-1]
        a.fnew = kap[-1]
        a.tnew = t_last
        if finite:
            ev = torch.matmul(R["E_t"], Kmat.double())
            a.err = abs(h) * float(torch.linalg.vector_norm(ev))
            # rounding bound of the estimate (sum_j E_j K_j cancels almost completely for a smooth right-hand side)
            a.rnd = 16 * epsr * abs(h) * math.sqrt(Kmat.shape[1]) * float(torch.matmul(R["E_t"].abs(), Kmat.double().abs().amax(dim=1)))
            if mixed:   # the step size is only known as the difference of two times recorded in the lower precision
                a.rnd += 4 * eps_t * (abs(t0c) + abs(t_last)) * float(torch.linalg.vector_norm(ev))
            a.scale = atol + rtol * max(float(torch.linalg.vector_norm(y0c)), float(torch.linalg.vector_norm(a.ynew)))
        else:
            a.err, a.scale, a.rnd = float("nan"), float("nan"), 0.0
        a.status = None
        if prev is not None:
            prev.status = "accepted" if name == "acc" else "rejected"
        rp.attempts.append(a)
        prev = a
    if fail is not None:
        obs.check(False, "%s:%s" % (fail[0], key), fail[1])
        return rp
    prev.status = "pending" if partial else "accepted"
    # ---- accepted steps: error estimate within tolerance, monotone progress, landing on the requested times
    ttol = 64 * te * tmag
    acc_list = [a for a in rp.attempts if a.status == "accepted"]
    for n, a in enumerate(rp.attempts):
        if a.status == "rejected":
            rp.rejected += 1
            if a.finite and a.err + a.rnd < a.scale * (1 - 1e-6) and fail is None:
                fail = ("reject_below_tol", "attempt %d (h=%.6g) was rejected although the embedded error estimate of the %s pair, %.6g, is below "
                        "atol+rtol*|y| = %.6g: the step control does not use the declared pair's estimate" % (n, a.h, method, a.err, a.scale))
            continue
        if a.status == "pending":
            continue
        rp.accepted += 1
        if a.h == 0.0:
            rp.zero_steps += 1
        within = a.err - a.rnd < a.scale * (1 + max(1e-9, 8 * eps)) or (a.h == 0.0)
        if a.scale > 0 and a.err == a.err:
            rp.max_err_ratio = max(rp.max_err_ratio, a.err / a.scale)
        if not within and fail is None:
            fail = ("accept_above_tol", "attempt %d (h=%.6g) was accepted although the embedded error estimate %.6g exceeds atol+rtol*|y| = %.6g"
                    % (n, a.h, a.err, a.scale))
        if a.h < 0 and fail is None:
            fail = ("backward_step", "attempt %d steps against the direction of ts (h=%.3g)" % (n, sig * a.h))
    # landing: the value returned for ts[i] is the state after the LAST accepted step that ends on ts[i] (a step that ends one
    # rounding error short of ts[i] is followed by a tiny or zero-length step that 'achieves' it), and no accepted step may
    # pass a requested time that has not been landed on
    k = 0
    for it in range(1, nt):
        while k < len(acc_list) and acc_list[k].tnew < tau[it] - ttol:
            k += 1
        if k >= len(acc_list) or acc_list[k].tnew > tau[it] + ttol:
            if fail is None:
                if k < len(acc_list):
                    fail = ("overshoot", "an accepted step ends at t=%r beyond the requested time ts[%d]=%r without landing on it" % (
                        sig * acc_list[k].tnew, it, tl[it]))
                elif not partial:
                    fail = ("landing", "no accepted step ended on requested time ts[%d]=%r (last step ended at %r)" % (
                        it, tl[it], sig * rp.attempts[-1].tnew))
            break
        while k + 1 < len(acc_list) and abs(acc_list[k + 1].tnew - tau[it]) <= ttol:
            k += 1
        a = acc_list[k]
        if ytf is not None and not torch.equal(ytf[it], a.ynew) and fail is None:
            fail = ("landing_value", "returned y[%d] differs (max %.3g) from the state of the last step that ended on ts[%d]" % (
                it, _inf(ytf[it] - a.ynew), it))
    else:
        if k != len(acc_list) - 1 and fail is None and not partial:
            fail = ("extra_steps", "%d accepted steps after the one that landed on the last requested time" % (len(acc_list) - 1 - k))
    if fail is not None:
        obs.check(False, "%s:%s" % (fail[0], key), fail[1])
    else:
        obs.check(True, "replay:%s" % key, "")
        rp.complete = True
    return rp


# ------------------------------------------------------------------------------------------------ running the real thing
def run_solver(obs, key, rule, ts, y0, method, params=(), opts=None, budget=CALL_BUDGET, online=None):
    """calls the real solve_ivp with a recording right-hand side; returns (spy, result or None)"""
    from xitorch.integrate import solve_ivp
    tl = [float(x) for x in ts]
    spy = Spy(rule, budget)
    spy.online = online
    kw = dict(opts or {})
    try:
        with WarnLog():
            with torch.no_grad():
                yt = solve_ivp(spy.fcn(), ts, y0, params=tuple(params), method=method, **kw)
    except CallBudget:
        obs.check(False, "no_termination:%s" % key,
                  "solve_ivp did not return: %d right-hand-side calls, the last %d at the same time (limits %d / %d)" % (
                      spy.n, spy.since_progress, budget, STUCK_CALLS), ts=tl[:10])
        return spy, None
    except StopSolve:
        obs.count("runs_stopped_by_online_monitor")
        return spy, None
    except Exception as e:  # an exception on an input the property covers
        obs.exc_violation("solve:%s" % key, e, ts=[float(x) for x in ts][:10])
        return spy, None
    obs.count("rhs_calls", spy.n)
    obs.count("solves")
    _track(obs, "max_calls_per_solve", spy.n)
    _track(obs, "max_calls_at_same_time", spy.max_since_progress)
    return spy, yt


def basic_checks(obs, key, yt, ts, y0):
    """shape/type of the result and y[0] bitwise y0"""
    nt = len(ts)
    if isinstance(y0, (tuple, list)):
        good = isinstance(yt, (tuple, list)) and len(yt) == len(y0) and all(
            isinstance(a, torch.Tensor) and tuple(a.shape) == (nt,) + tuple(b.shape) and a.dtype == b.dtype for a, b in zip(yt, y0))
        if not obs.check(good, "shape:%s" % key, "tuple state: result is not a sequence of (nt, *shape_i) tensors"):
            return False
        same = all(torch.equal(a[0], b) for a, b in zip(yt, y0))
    else:
        good = isinstance(yt, torch.Tensor) and tuple(yt.shape) == (nt,) + tuple(y0.shape) and yt.dtype == y0.dtype
        if not obs.check(good, "shape:%s" % key, "result has shape %s dtype %s, expected %s %s" % (
                tuple(yt.shape) if isinstance(yt, torch.Tensor) else type(yt), getattr(yt, "dtype", None), (nt,) + tuple(y0.shape), y0.dtype)):
            return False
        same = torch.equal(yt[0], y0)
    obs.check(same, "y0_exact:%s" % key, "y[0] is not bitwise y0")
    obs.count("y0_bitwise_checked")
    return True


def solve_and_replay(obs, key, method, rule, ts, y0, params=(), opts=None, budget=CALL_BUDGET, via_default=False):
    """real call + basic checks + lockstep replay; returns (yt, flattened yt, Replay, spy) or None.
    via_default: pass method=None (documented default = rk45) instead of the name"""
    if via_default:
        if method != "rk45":
            raise HarnessBug("the default method is rk45")
        obs.count("default_method_calls")
    y0f = _flat0(y0)
    eps = torch.finfo(y0f.dtype).eps
    o = opts or {}
    atol, rtol = float(o.get("atol", 1e-8)), float(o.get("rtol", 1e-5))
    online = None
    if method in ADAPTIVE and len(ts) >= 2:
        def online(log):
            c = _Collector()
            replay_adaptive(method, log, ts, y0f, None, atol, rtol, c, key, eps, partial=True)
            return bool(c.failed)
    spy, yt = run_solver(obs, key, rule, ts, y0, None if via_default else method, params, opts, budget, online)
    if spy.stopped_online:
        # the violation is established by replaying the recorded (partial) history with the real observation record
        replay_adaptive(method, spy.log, ts, y0f, None, atol, rtol, obs, key, eps, partial=True)
        return None
    if yt is None:
        return None
    if not basic_checks(obs, key, yt, ts, y0):
        return None
    ytf = _flat(yt)
    if len(ts) < 2:
        rp = Replay()
        rp.complete = obs.check(spy.n == 0 or method in ADAPTIVE, "calls:%s" % key, "single time point but %d calls" % spy.n)
        return yt, ytf, rp, spy
    if method in FIXED:
        rp = replay_fixed(method, spy.log, ts, ytf, obs, key, eps)
    else:
        rp = replay_adaptive(method, spy.log, ts, y0f, ytf, atol, rtol, obs, key, eps)
        obs.count("steps_accepted", rp.accepted)
        obs.count("steps_rejected", rp.rejected)
        obs.count("steps_zero_length", rp.zero_steps)
        obs.count("nonfinite_attempts", rp.nonfinite)
    if rp.complete:
        obs.count("histories_replayed")
        obs.count("replayed_%s" % method)
    obs.note(worst_eps_units=[round(rp.worst_t, 2), round(rp.worst_y, 2), round(rp.worst_b, 2)])
    _track(obs, "max_lockstep_eps_units", max(rp.worst_t, rp.worst_y, rp.worst_b))
    return yt, ytf, rp, spy


def _track(obs, name, value):
    """keeps the largest value seen in the case notes (for calibration evidence)"""
    cur = obs.obs.get(name)
    if cur is None or value > cur:
        obs.obs[name] = float(value)


# ------------------------------------------------------------------------------------------------ ODE families with closed forms
LT_MAX = 4.0     # (Lipschitz bound) x (span of ts) never exceeds this


class Family:
    """fcn(t, y, *params) (torch ops only), y0, params, exact(t_float) -> flattened exact state, L (Lipschitz bound on the region)"""
    name = ""


def make_family(name, rng, tgen, t0, span, layout="tensor", big=False):
    """span = |ts[-1]-ts[0]| is used to keep (Lipschitz constant)*span within the stated bound"""
    f = Family()
    f.name = name
    f.params = ()
    dt = torch.float64
    lmax = min(2.0, LT_MAX / max(span, 1e-9))

    def rnd(*shape):
        return torch.rand(tuple(shape), dtype=dt, generator=tgen)

    def rndn(*shape):
        return torch.randn(tuple(shape), dtype=dt, generator=tgen)
    shape = rng.choice([(1,), (3,), (2, 3), (4, 2), (2, 2, 2), ()])
    if big:     # ensemble of 24 components with independent random coefficients (order tests)
        shape = (24,)
    if name == "linear":
        n = rng.choice([1, 2, 3, 5])
        batch = rng.choice([(), (), (2,), (3,), (2, 2)])
        shared = rng.random() < 0.5
        if big:
            n, batch, shared = 4, (6,), False
        A = rndn(*(() if shared else batch), n, n)
        nrm = torch.linalg.matrix_norm(A, ord=2)
        L = rng.uniform(0.2, 1.0) * lmax
        A = A / nrm[..., None, None] * L
        if rng.random() < 0.5:      # dissipative variant
            A = A - L * torch.eye(n, dtype=dt) * 0.5
            A = A / torch.clamp(torch.linalg.matrix_norm(A, ord=2) / L, min=1.0)[..., None, None]
        y0 = rndn(*batch, n)
        as_param = rng.random() < 0.5
        f.L = float(torch.linalg.matrix_norm(A, ord=2).max())
        if as_param:
            f.params = (A,)
            f.fcn = lambda t, y, A_: torch.matmul(A_, y.unsqueeze(-1)).squeeze(-1)
        else:
            f.fcn = lambda t, y: torch.matmul(A, y.unsqueeze(-1)).squeeze(-1)
        f.y0 = y0
        f.exact = lambda t: torch.matmul(torch.linalg.matrix_exp(A * (t - t0)), y0.unsqueeze(-1)).squeeze(-1).reshape(-1)
    elif name == "logistic":
        r = (0.3 + 0.7 * rnd(*shape)) * lmax
        y0 = 0.1 + 0.8 * rnd(*shape)
        f.fcn = lambda t, y: r * y * (1 - y)
        f.y0 = y0
        f.L = float(r.max())
        f.exact = lambda t: (1.0 / (1.0 + (1.0 / y0 - 1.0) * torch.exp(-r * (t - t0)))).reshape(-1)
    elif name == "separable":
        # y_i' = -a_i (t + s_i) y_i with a per-component shift s_i of the time origin
        sh = 2 * rnd(*shape) - 1
        tm = max(abs(t0), abs(t0) + span) + 1.0
        a = (0.3 + 0.7 * rnd(*shape)) * lmax / tm * (1 if rng.random() < 0.7 else -1)
        y0 = rndn(*shape) + 0.5
        f.fcn = lambda t, y: -a * (t + sh) * y
        f.y0 = y0
        f.L = float(a.abs().max()) * tm
        f.exact = lambda t: (y0 * torch.exp(-a * ((t + sh) ** 2 - (t0 + sh) ** 2) / 2)).reshape(-1)
    elif name == "bernoulli":
        # y_i' = q y_i^2 cos(w (t + s_i)), y = 1/(1/y0 - (q/w) (sin w(t+s) - sin w(t0+s))); 1/y0 >= 3.3 and q <= w keep y <= 0.77.
        # w <= 2.5/span: the forcing does not complete an oscillation inside the longest possible first step (the initial step guess
        # is the whole first interval, and no embedded estimate can see an oscillation that fits inside one step)
        w = min(1.0, 2.5 / max(span, 1e-9))
        q = min(w, lmax / 1.6)
        sh = 6.3 / w * rnd(*shape)
        y0 = 0.1 + 0.2 * rnd(*shape)
        f.fcn = lambda t, y: q * y * y * torch.cos(w * (t + sh))
        f.y0 = y0
        f.L = 1.6 * q
        f.exact = lambda t: (1.0 / (1.0 / y0 - (q / w) * (torch.sin(w * (t + sh)) - torch.sin(w * (t0 + sh))))).reshape(-1)
    elif name in ("harmonic", "damped"):
        shp = rng.choice([(1,), (3,), (2, 2)])
        wmax = max(min(math.sqrt(lmax) if lmax > 1 else lmax, 2.0), 1e-3)
        w = (0.4 + 0.6 * rnd(*shp)) * wmax
        g = (0.1 + 0.5 * rnd(*shp)) * w if name == "damped" else torch.zeros(*shp, dtype=dt)
        x0, v0 = rndn(*shp), rndn(*shp)
        wd = torch.sqrt(w * w - g * g)
        f.L = float(torch.maximum(torch.ones_like(w), w * w + 2 * g).max())

        def exact_xv(t):
            tt = t - t0
            C, S = x0, (v0 + g * x0) / wd
            e = torch.exp(-g * tt)
            co, si = torch.cos(wd * tt), torch.sin(wd * tt)
            x = e * (C * co + S * si)
            v = e * ((-g * C + wd * S) * co + (-g * S - wd * C) * si)
            return x, v
        if layout in ("tuple", "list"):
            f.y0 = [x0, v0] if layout == "list" else (x0, v0)
            f.fcn = lambda t, y: (y[1], -w * w * y[0] - 2 * g * y[1])
            f.exact = lambda t: torch.cat([c.reshape(-1) for c in exact_xv(t)])
        else:
            f.y0 = torch.stack([x0, v0])
            f.fcn = lambda t, y: torch.stack([y[1], -w * w * y[0] - 2 * g * y[1]])
            f.exact = lambda t: torch.stack(list(exact_xv(t))).reshape(-1)
    elif name == "tuplelinear":
        # incl. components of EQUAL element count but different shapes (a matrix next to a vector of the same size)
        shapes = rng.choice([[(2,), (3,)], [(1,), (2, 2)], [(), (3,), (2,)], [(2, 1), (1, 2), (1,)], [(3,)], [(2,), (2,)],
                             [(2, 2), (4,)], [(4,), (2, 2)], [(1, 2), (2, 1)], [(2, 3), (6,), (3, 2)]])
        sizes = [int(torch.Size(sh).numel()) for sh in shapes]
        n = sum(sizes)
        A = rndn(n, n)
        L = rng.uniform(0.2, 1.0) * lmax
        A = A / torch.linalg.matrix_norm(A, ord=2) * L
        z0 = rndn(n)
        f.L = L
        f.shapes, f.sizes = shapes, sizes

        def split(z):
            out, p = [], 0
            for sh, sz in zip(shapes, sizes):
                out.append(z[p:p + sz].reshape(sh))
                p += sz
            return out
        f.split = split
        f.fcn_cat = lambda t, z: torch.matmul(A, z) * (1.0 + 0.0 * t)
        if layout == "list":
            f.y0 = split(z0)
        else:
            f.y0 = tuple(split(z0))
        f.z0 = z0

        def fcn(t, ys):
            z = torch.cat([c.reshape(-1) for c in ys])
            return tuple(split(torch.matmul(A, z) * (1.0 + 0.0 * t)))
        f.fcn = fcn
        f.exact = lambda t: torch.matmul(torch.linalg.matrix_exp(A * (t - t0)), z0)
    else:
        raise HarnessBug("unknown family %s" % name)
    return f


FAMILIES = ["linear", "logistic", "separable", "bernoulli", "harmonic", "damped", "tuplelinear"]
NONLINEAR = ["logistic", "separable", "bernoulli"]


def make_grid(kind, rng, direction):
    """strictly monotone time grid; returns (list of floats, span)"""
    nt = rng.choice([2, 3, 4, 5, 6, 9])
    t0 = rng.choice([0.0, 0.0, rng.uniform(-2, 2), rng.uniform(-2, 2)])
    if kind == "uniform":
        span = rng.choice([0.2, 1.0, 2.0, 5.0])
        pts = [t0 + span * i / (nt - 1) for i in range(nt)]
    elif kind == "ragged":
        span = rng.choice([0.5, 1.0, 3.0, 6.0])
        cuts = sorted(rng.uniform(0.02, 0.98) for _ in range(nt - 2))
        cuts = [c for i, c in enumerate(cuts) if i == 0 or c - cuts[i - 1] > 1e-3]
        pts = [t0] + [t0 + span * c for c in cuts] + [t0 + span]
    elif kind == "short":      # very short intervals only
        span = rng.choice([1e-3, 1e-5, 1e-2])
        pts = [t0 + span * i / (nt - 1) for i in range(nt)]
    elif kind == "shortlong":  # a very short first or inner interval followed by long ones
        span = rng.choice([2.0, 5.0, 10.0])
        nt = max(nt, 3)
        tiny = rng.choice([1e-3, 1e-6])
        where = rng.randrange(nt - 1)
        w = [1.0] * (nt - 1)
        w[where] = tiny
        tot = sum(w)
        pts = [t0]
        for x in w:
            pts.append(pts[-1] + span * x / tot)
    elif kind == "long":       # a single long interval (the initial step guess is the whole interval)
        span = rng.choice([5.0, 8.0, 10.0])
        nt = rng.choice([2, 3])
        pts = [t0 + span * i / (nt - 1) for i in range(nt)]
    else:
        raise HarnessBug("grid kind %s" % kind)
    if direction == "dec":
        pts = [2 * t0 - p for p in pts]
    return pts, abs(pts[-1] - pts[0])


GRIDS = ["uniform", "ragged", "short", "shortlong", "long"]
TOLS = {
    "default": None,
    "loose": (1e-6, 1e-3),
    "tight": (1e-10, 1e-8),
    "vtight": (1e-12, 1e-10),
    "abs": (1e-6, 0.0),
    "rel": (0.0, 1e-6),
}


# ------------------------------------------------------------------------------------------------ case lists
def cases(seed, tier):
    out = []
    q = tier == "quick"

    def add(group, i, **kw):
        d = {"group": group, "seed": sub_seed(seed, "c07", group, i)}
        d.update(kw)
        out.append(d)
    # 1. scripted basis slopes: identification of c, A, b
    n = 0
    for rep in range(6 if q else 40):
        for m in METHODS:
            for direction in ("inc", "dec"):
                for var in ("exact", "generic", "tuple", "f32"):
                    add("tableau", n, method=m, dir=direction, var=var, nint=1 + (n + rep) % 3)
                    n += 1
    # 2. error weights through the controller
    n = 0
    for rep in range(12 if q else 100):
        for m in ADAPTIVE:
            for direction in ("inc", "dec"):
                for var in ("abs", "rel"):
                    add("errw", n, method=m, dir=direction, var=var)
                    n += 1
    # 3. one-step order
    n = 0
    for rep in range(16 if q else 100):
        for m in METHODS:
            for fam in ["linear", "logistic", "bernoulli"]:
                add("order", n, method=m, family=fam, dir="inc" if (n + rep) % 3 else "dec")
                n += 1
    # 4. accuracy of the adaptive methods
    n = 0
    tolnames = list(TOLS)
    for rep in range(40 if q else 300):
        for m in ADAPTIVE:
            for fam in FAMILIES:
                rng = random.Random(sub_seed(seed, "c07acc", n))
                tol = rng.choice(tolnames)
                if m == "rk23" and tol in ("tight", "vtight"):
                    tol = "default"
                add("accuracy", n, method=m, family=fam, grid=rng.choice(GRIDS), dir=rng.choice(["inc", "dec"]), tol=tol,
                    layout=rng.choice(["tensor", "tuple", "list"]), via_default=bool(m == "rk45" and rng.random() < 0.25))
                n += 1
    # 5. accuracy/refinement of the fixed-step methods
    n = 0
    for rep in range(14 if q else 100):
        for m in FIXED:
            for fam in FAMILIES:
                rng = random.Random(sub_seed(seed, "c07fix", n))
                add("fixedacc", n, method=m, family=fam, dir=rng.choice(["inc", "dec"]), layout=rng.choice(["tensor", "tuple", "list"]),
                    ragged=rng.random() < 0.5)
                n += 1
    # 6. metamorphic relations
    n = 0
    for rep in range(8 if q else 60):
        for m in METHODS:
            for fam in FAMILIES:
                rng = random.Random(sub_seed(seed, "c07meta", n))
                for rel in ("meta_prefix", "meta_reflect", "meta_roundtrip", "meta_tuple"):
                    add(rel, n, method=m, family="tuplelinear" if rel == "meta_tuple" and fam not in ("harmonic", "damped") else fam,
                        grid=rng.choice(["uniform", "ragged", "shortlong"]), dir=rng.choice(["inc", "dec"]),
                        tol=rng.choice(["default", "loose", "abs"]))
                    n += 1
    # 7. degenerate grids
    n = 0
    for m in METHODS:
        for var in ("one_point", "repeat_first", "repeat_inner", "repeat_last"):
            for direction in ("inc", "dec"):
                add("degenerate", n, method=m, var=var, dir=direction)
                n += 1
    from vf import c07_extra, c07_tdtype, c07_firststep
    out.extend(c07_extra.cases(seed, tier))
    out.extend(c07_tdtype.cases(seed, tier))
    out.extend(c07_firststep.cases(seed, tier))
    return out


# ------------------------------------------------------------------------------------------------ groups
def _key(desc, extra=None):
    k = "%s:%s" % (desc["method"], desc.get("dir", "inc"))
    if extra:
        k += ":" + extra
    return k


def run_tableau(desc, obs):
    """scripted slopes e_j: read c, A, b off the execution, compare with the literature, insert into the order conditions"""
    m, direction, var = desc["method"], desc["dir"], desc["var"]
    rng = random.Random(desc["seed"])
    R = ref(m)
    s = R["s"]
    nint = desc["nint"]
    dt = torch.float32 if var == "f32" else torch.float64
    N = s + 2 + rng.randrange(3)
    if var == "tuple":
        N = max(N, 5)
    sgn = 1.0 if direction == "inc" else -1.0
    if var in ("exact", "f32"):
        t0 = 0.0
        hs = [sgn * rng.choice([0.25, 0.5, 1.0, 2.0]) for _ in range(nint)]
        y0 = torch.zeros(N, dtype=dt)
    else:
        t0 = rng.uniform(-2, 2)
        hs = [sgn * rng.uniform(0.05, 2.0) for _ in range(nint)]
        y0 = torch.randn(N, dtype=dt)
    pts = [t0]
    for h in hs:
        pts.append(pts[-1] + h)
    ts = torch.tensor(pts, dtype=torch.float64 if var != "f32" else torch.float32)
    key = _key(desc, var)
    per = s  # calls per step
    eye = torch.eye(N, dtype=dt)
    if m in FIXED:
        def rule(idx, t, y, *p):
            return eye[idx % per].clone()
    else:
        # call 0 = initial slope, then groups of s calls; the basis index cycles over N >= s+2 so that the slopes of one
        # attempted step (K0 from the previous group included) are distinct basis vectors
        def rule(idx, t, y, *p):
            return eye[idx % N].clone()
    if var == "tuple":
        sizes = [1, N - 3, 2]
        y0s = tuple(c.clone().reshape(sh) for c, sh in zip(torch.split(y0, sizes), [(1,), (N - 3,), (2, 1)]))
        base_rule = rule

        def rule(idx, t, y, *p):  # noqa
            v = base_rule(idx, t, None)
            return [c.reshape(sh) for c, sh in zip(torch.split(v, sizes), [(1,), (N - 3,), (2, 1)])]
        y0_in = y0s
    else:
        y0_in = y0
    opts = {} if m in FIXED else {"atol": 1e6, "rtol": 0.0}
    res = solve_and_replay(obs, key, m, rule, ts, y0_in, opts=opts, budget=SMALL_BUDGET)
    if res is None:
        obs.nontrivial = True
        return
    yt, ytf, rp, spy = res
    if var == "tuple":
        kinds = {k[0] for k in spy.arg_kinds}
        obs.check(kinds == {"tuple"} and len(spy.arg_kinds) == 1, "tuple_arg:%s" % key,
                  "right-hand side received %s instead of a tuple of tensors with the shapes of y0" % sorted(spy.arg_kinds))
    if not rp.complete:
        obs.nontrivial = True
        return
    # ---- read the coefficients off the first step of each interval
    # largest deviation seen on the unchanged tree: 1.8e-15 (exact), 6.4e-15 (generic, tuple), 7.7e-7 (float32)
    tol = 1e-12 if var == "exact" else (1e-10 if var != "f32" else 1e-4)
    log = spy.log
    worst = 0.0
    ident = None
    if m in FIXED:
        obs.check(len(log) == s * nint, "calls_per_step:%s" % key, "%d calls for %d intervals (expected %d per step)" % (len(log), nint, s))
        steps = [(i, float(ts[i]), float(ts[i + 1]) - float(ts[i]), ytf[i], [log[i * s + j] for j in range(s)], ytf[i + 1]) for i in range(nint)]
    else:
        if nint == 1:
            # initial slope + s stage/FSAL evaluations + one zero-length step (the controller tests t0+h > t1 strictly)
            obs.check(len(log) in (1 + s, 1 + 2 * s), "calls_single_interval:%s" % key,
                      "%d calls for one requested interval (expected %d or %d)" % (len(log), 1 + s, 1 + 2 * s))
        steps = []
        sig = sgn
        for n_, a in enumerate(rp.attempts):
            if a.h != 0.0:
                steps.append((n_, a))
    if m in FIXED:
        for (i, t0_, h, ystart, calls, ynext) in steps:
            idxs = [(i * s + j) % per for j in range(s)]
            cc, AA, bb = [], [], []
            for j in range(s):
                t, ya, k = calls[j]
                cc.append((t - t0_) / h)
                d = (ya.double() - ystart.double()) / h
                AA.append([float(d[idxs[mm]]) for mm in range(s)])
                # nothing outside the basis vectors used so far
                mask = torch.ones(N, dtype=torch.bool)
                for mm in range(j):
                    mask[idxs[mm]] = False
                worst = max(worst, _inf(d[mask]))
            d = (ynext.double() - ystart.double()) / h
            bb = [float(d[idxs[mm]]) for mm in range(s)]
            ident = (cc, AA, bb)
            worst = max(worst, max(abs(a - b) for a, b in zip(cc, R["c"])),
                        max(abs(AA[i_][j_] - R["A"][i_][j_]) for i_ in range(s) for j_ in range(s)),
                        max(abs(a - b) for a, b in zip(bb, R["b"])))
    else:
        # walk the groups again with the basis indices of the script: attempt n used calls 1+n*s .. n*s+s, K0 = previous FSAL call
        for n_, a in steps:
            first = 1 + n_ * s
            k0_idx = 0 if n_ == 0 else (first - 1) % N
            idxs = [k0_idx] + [(first + j) % N for j in range(s)]
            cc, AA = [0.0], [[0.0] * s]
            for j in range(1, s + 1):
                t, ya, k = log[first + j - 1]
                cj = (sig * t - a.t0) / a.h
                d = (ya.double() - a.y0.double()) / (sig * a.h)
                row = [float(d[idxs[mm]]) for mm in range(s)]
                mask = torch.ones(N, dtype=torch.bool)
                for mm in range(j):
                    mask[idxs[mm]] = False
                worst = max(worst, _inf(d[mask]))
                if j < s:
                    cc.append(cj)
                    AA.append(row)
                else:
                    bb = row
                    worst = max(worst, abs(cj - 1.0))
            ident = (cc, AA, bb)
            worst = max(worst, max(abs(x - y) for x, y in zip(cc, R["c"])),
                        max(abs(AA[i_][j_] - R["A"][i_][j_]) for i_ in range(s) for j_ in range(s)),
                        max(abs(x - y) for x, y in zip(bb, R["b"])))
    if ident is None:
        raise HarnessBug("no step identified")
    obs.count("tableaus_identified")
    obs.count("identified_%s" % m)
    _track(obs, "max_coefficient_deviation_%s" % var, worst)
    obs.check(worst <= tol, "tableau:%s" % key,
              "coefficients read off the execution differ from the literature %s tableau by %.3g (tolerance %.1g): c=%s b=%s" % (
                  m, worst, tol, [round(x, 12) for x in ident[0]], [round(x, 12) for x in ident[2]]), A=ident[1])
    # ---- order conditions on the identified coefficients
    cc, AA, bb = ident
    rs = order_residuals(AA, bb, R["order"])
    rowsum = max(abs(sum(AA[i]) - cc[i]) for i in range(s))
    otol = 1e-12 if var == "exact" else (1e-9 if var != "f32" else 2e-4)    # seen: 1.8e-15 / 1.1e-14 / 1.1e-6
    wr = max(max(rs.values()), rowsum)
    _track(obs, "max_order_condition_residual_%s" % var, wr)
    obs.count("order_conditions_evaluated", sum(len(_TREES[o]) for o in range(1, R["order"] + 1)))
    obs.check(wr <= otol, "order_conditions:%s" % key,
              "identified tableau violates an order condition up to order %d: residuals by order %s, row-sum residual %.3g" % (
                  R["order"], {k_: float("%.3g" % v) for k_, v in rs.items()}, rowsum))
    if var == "exact":
        # the declared order is sharp for these schemes: some condition of order p+1 must fail (sanity of the oracle itself)
        nxt = order_residuals(AA, bb, R["order"] + 1)[R["order"] + 1]
        if nxt < 1e-6:
            raise HarnessBug("order conditions of order p+1 hold for %s: oracle cannot discriminate" % m)
    obs.note(identified_c=cc, identified_b=bb)
    obs.nontrivial = True


def run_errw(desc, obs):
    """error weights of the embedded pair, read through (i) the step-size response and (ii) the accept/reject threshold"""
    m, direction, var = desc["method"], desc["dir"], desc["var"]
    rng = random.Random(desc["seed"])
    R = ref(m)
    s = R["s"]
    E = R["E"]
    qexp = R["est_order"] + 1
    sgn = 1.0 if direction == "inc" else -1.0
    N = rng.choice([2, 3, 5])
    key = _key(desc, var)
    nzref = [k for k in range(s + 1) if E[k] != 0.0]
    combos = [(k,) for k in range(s + 1)] + [(k, k + 1) for k in range(s)]
    combos += [pr for pr in zip(nzref[:-1], nzref[1:]) if pr not in combos] + [(0, s), tuple(range(s + 1))]
    Eobs_abs = {}
    worst_rel = 0.0
    n_ident = 0
    probes = 0
    for combo in combos:
        t0 = rng.uniform(-1, 1)
        h0 = rng.choice([0.125, 0.3, 1.0, rng.uniform(0.05, 1.5)])
        T = 1e4 * h0
        ts = torch.tensor([t0, t0 + sgn * h0, t0 + sgn * (h0 + T)], dtype=torch.float64)
        if var == "abs":
            atol, rtol = rng.choice([1.0, 1e-3, 10.0]), 0.0
            y0 = torch.zeros(N, dtype=torch.float64)
        else:
            atol, rtol = rng.choice([0.0, 1e-6]), rng.choice([1e-2, 1e-4])
            y0 = torch.randn(N, dtype=torch.float64) * 3
        wts = [rng.choice([1.0, -1.0]) * rng.uniform(0.5, 2.0) for _ in combo]
        Esum = sum(E[k] * w for k, w in zip(combo, wts))
        unit = torch.zeros(N, dtype=torch.float64)
        unit[rng.randrange(N)] = 1.0
        scale0 = atol + rtol * float(torch.linalg.vector_norm(y0))

        def make_rule(alpha):
            # call j (0 = initial slope, 1..s = stages 2..s and the FSAL slope of the FIRST attempted step) returns alpha*w*unit for
            # the stages in `combo`, zero otherwise; every later call returns zero (error estimate 0, steps accepted)
            def rule(idx, t, y, *p):
                if idx <= s and idx in combo:
                    return sgn * alpha * wts[combo.index(idx)] * unit
                return torch.zeros(N, dtype=torch.float64)
            return rule
        # ---- (i) step-size response: target error ratio ~0.05..0.6 (factor between 0.9 and 10)
        target = rng.uniform(0.05, 0.6)
        if abs(Esum) > 1e-12:
            alpha = target * scale0 / (h0 * abs(Esum))
        else:
            alpha = 1e6 * scale0 / h0
        res = solve_and_replay(obs, key, m, make_rule(alpha), ts, y0, opts={"atol": atol, "rtol": rtol}, budget=SMALL_BUDGET)
        if res is None or not res[2].complete:
            obs.nontrivial = True
            return
        rp = res[2]
        att = rp.attempts
        a0 = att[0]
        nxt = [a for a in att[1:] if a.h != 0.0]
        if a0.status != "accepted" or not nxt:
            # with rtol the scale depends on |y1|; the reference estimate says what must have happened
            obs.check(a0.err >= a0.scale * (1 - 1e-9), "reject_below_tol:%s" % key,
                      "first step rejected although the reference estimate %.6g is below the tolerance scale %.6g" % (a0.err, a0.scale))
            continue
        factor = nxt[0].h / a0.h
        probes += 1
        ratio_ref = a0.err / a0.scale
        if ratio_ref > 0:
            pred = min(10.0, 0.9 * ratio_ref ** (-1.0 / qexp))
        else:
            pred = 10.0
        rel = abs(factor - pred) / pred
        worst_rel = max(worst_rel, rel)
        obs.check(rel <= 1e-9, "controller_response:%s" % key,
                  "after a step with scaled error %.6g the next step is %.12g x the previous one; the %s pair with weights E gives %.12g "
                  "(stages scripted: %s)" % (ratio_ref, factor, m, pred, list(combo)), combo=list(combo))
        if factor < 10.0 * (1 - 1e-12):
            Eo = (factor / 0.9) ** (-qexp) * a0.scale / (abs(a0.h) * alpha)
            Eobs_abs[combo] = (Eo, wts)
            n_ident += 1
        else:
            Eobs_abs[combo] = (0.0, wts)
        # ---- (ii) threshold: scaled error just below / just above 1 (only meaningful for a non-zero weight sum)
        if abs(Esum) > 1e-12 and var == "abs":
            for side, tgt in (("below", 1 - 1e-7), ("above", 1 + 1e-7)):
                alpha_t = tgt * scale0 / (h0 * abs(Esum))
                r2 = solve_and_replay(obs, key, m, make_rule(alpha_t), ts, y0, opts={"atol": atol, "rtol": rtol}, budget=SMALL_BUDGET)
                if r2 is None or not r2[2].complete:
                    obs.nontrivial = True
                    return
                st = r2[2].attempts[0].status
                obs.count("threshold_probes")
                if side == "below":
                    obs.check(st == "accepted", "reject_below_tol:%s" % key,
                              "a step whose embedded estimate is (1-1e-7) x the tolerance was rejected (stages %s)" % (list(combo),))
                else:
                    obs.check(st == "rejected", "accept_above_tol:%s" % key,
                              "a step whose embedded estimate is (1+1e-7) x the tolerance was accepted (stages %s)" % (list(combo),))
                    if st == "rejected":
                        retry = r2[2].attempts[1]
                        obs.check(0 < retry.h < r2[2].attempts[0].h, "retry_not_smaller:%s" % key,
                                  "the retry after a rejection uses step %.6g, not smaller than the rejected %.6g" % (retry.h, r2[2].attempts[0].h))
                        obs.count("rejections_probed")
    obs.count("controller_probes", probes)
    _track(obs, "max_controller_response_rel_dev", worst_rel)
    # ---- assemble signed E (up to a global sign) from singles and adjacent pairs, then the order conditions of the estimator
    mags = []
    for k in range(s + 1):
        if (k,) not in Eobs_abs:
            obs.nontrivial = True
            return
        mags.append(Eobs_abs[(k,)][0] / abs(Eobs_abs[(k,)][1][0]))
    signs = [0] * (s + 1)
    # reference magnitudes comparison first
    dev = max(abs(a - abs(b)) for a, b in zip(mags, E))
    _track(obs, "max_abs_E_deviation", dev)
    obs.check(dev <= 1e-9, "error_weights:%s" % key,
              "|E_j| read off the step-size response %s differ from the %s pair %s" % ([float("%.10g" % x) for x in mags], m, [float("%.10g" % abs(x)) for x in E]))
    # relative signs from the pair sums: |w_k E_k + w_l E_l| observed
    nz = [k for k in range(s + 1) if mags[k] > 1e-9]
    signs[nz[0]] = 1
    for k, l in zip(nz[:-1], nz[1:]):
        # find a combo containing both k and l among adjacent pairs / (0, s); otherwise chain through the full sum is not needed
        pair = (k, l) if (k, l) in Eobs_abs else None
        if pair is None:
            # non-adjacent non-zero weights (rk45: E_1 = 0 sits between E_0 and E_2): use pairs through the zero weight
            # |w_k E_k + w_z E_z| = |w_k E_k| gives nothing; fall back on the reference sign and let the full sum decide
            signs[l] = signs[k] * (1 if E[k] * E[l] > 0 else -1)
            continue
        val, w = Eobs_abs[pair]
        same = abs(abs(w[0]) * mags[k] + abs(w[1]) * mags[l] - val)
        diff = abs(abs(abs(w[0]) * mags[k] - abs(w[1]) * mags[l]) - val)
        rel_same = (1 if w[0] * w[1] > 0 else -1)
        signs[l] = signs[k] * rel_same * (1 if same < diff else -1)
    Eid = [sg * mg for sg, mg in zip(signs, mags)]
    # the full-sum probe and the (0, s) probe must agree with the assembled signed weights
    for combo in ((0, s), tuple(range(s + 1))):
        if combo in Eobs_abs:
            val, w = Eobs_abs[combo]
            pred = abs(sum(Eid[k] * wk for k, wk in zip(combo, w)))
            obs.check(abs(pred - val) <= 1e-9, "error_weight_signs:%s" % key,
                      "scripted stages %s: observed |sum w_j E_j| = %.10g, assembled signed weights give %.10g" % (list(combo), val, pred))
    if Eid[nz[0]] * E[nz[0]] < 0:
        Eid = [-x for x in Eid]
    Aext = [r + [0.0] for r in R["A"]] + [R["b"] + [0.0]]
    worst_m = 0.0
    for o in range(1, R["est_order"] + 1):
        worst_m = max(worst_m, max(abs(x) for x in weight_moments(Aext, Eid, o)))
    lead = max(abs(x) for x in weight_moments(Aext, Eid, R["est_order"] + 1))
    _track(obs, "max_estimator_moment", worst_m)
    obs.count("order_conditions_evaluated", sum(len(_TREES[o]) for o in range(1, R["est_order"] + 2)))
    obs.check(worst_m <= 1e-8, "estimator_order:%s" % key,
              "identified error weights do not annihilate the rooted trees up to order %d (max moment %.3g): the estimate is not the difference of "
              "an order-%d and an order-%d solution" % (R["est_order"], worst_m, R["order"], R["est_order"]), E=Eid)
    obs.check(lead >= 1e-5, "estimator_order_sharp:%s" % key,
              "identified error weights annihilate all trees of order %d as well (max moment %.3g): no leading error term is measured" % (R["est_order"] + 1, lead))
    obs.count("error_weight_sets_identified")
    obs.note(identified_E=Eid)
    obs.nontrivial = n_ident >= s


def _tol(tol):
    """(atol, rtol) or None (= omit the options, defaults atol=1e-8 rtol=1e-5) from a name or a pair"""
    if tol is None or isinstance(tol, (tuple, list)):
        return tol
    return TOLS[tol]


def _solve_family(obs, key, m, fam, pts, tol=None, budget=CALL_BUDGET, via_default=False):
    ts = torch.tensor(pts, dtype=torch.float64)
    opts = {}
    tl = _tol(tol)
    if m in ADAPTIVE and tl is not None:
        opts = {"atol": tl[0], "rtol": tl[1]}

    def rule(idx, t, y, *p):
        return fam.fcn(t, y, *p)
    return solve_and_replay(obs, key, m, rule, ts, fam.y0, params=fam.params, opts=opts, budget=budget, via_default=via_default)


def _errors(fam, pts, ytf):
    """(list of 2-norm errors per time, max norm of the exact solution)"""
    errs, ymax = [], 0.0
    for i, t in enumerate(pts):
        ex = fam.exact(t)
        errs.append(float(torch.linalg.vector_norm(ytf[i] - ex)))
        ymax = max(ymax, float(torch.linalg.vector_norm(ex)))
    return errs, ymax


# observed-order margins: smallest local order seen on the unchanged tree over 2000 draws per family: p+1-0.10 (rk23, rk4, rk38),
# p+1-0.01 (euler), p+1-0.53 (rk45: Dormand-Prince minimises the principal error term, so the next term shows at usable step sizes)
ORDER_MARGIN = {"euler": 0.3, "rk4": 0.4, "rk38": 0.4, "rk23": 0.4, "rk45": 1.0}
GLOBAL_ORDER_MARGIN = 1.2


def run_order(desc, obs):
    """one-step error of an ensemble (>= 6 components with independent random coefficients) at h, h/2, h/4: the better of the
    two observed local orders must reach p + 1 - margin (a single pair of step sizes can be spoiled by an accidental
    cancellation between the leading and the next error term)"""
    m, famname, direction = desc["method"], desc["family"], desc["dir"]
    rng = random.Random(desc["seed"])
    tgen = torch.Generator().manual_seed(desc["seed"])
    R = ref(m)
    p = R["order"]
    sgn = 1.0 if direction == "inc" else -1.0
    t0 = rng.uniform(-1.5, 1.5)
    h = {1: 0.02, 3: 0.1, 4: 0.16, 5: 0.3}[p] * rng.uniform(0.7, 1.3)
    fam = make_family(famname, rng, tgen, t0, 2.0, big=True)
    key = _key(desc, famname)
    errs = []
    for hh in (h, h / 2, h / 4):
        pts = [t0, t0 + sgn * hh]
        ts = torch.tensor(pts, dtype=torch.float64)

        def rule(idx, t, y, *pp):
            return fam.fcn(t, y, *pp)
        res = solve_and_replay(obs, key, m, rule, ts, fam.y0, params=fam.params,
                               opts=({"atol": 1e6, "rtol": 0.0} if m in ADAPTIVE else {}), budget=SMALL_BUDGET)
        if res is None or not res[2].complete:
            obs.nontrivial = True
            return
        yt, ytf, rp, spy = res
        if m in ADAPTIVE:
            nreal = [a for a in rp.attempts if a.h != 0.0]
            if len(nreal) != 1:
                raise HarnessBug("order test: expected one real step, saw %d" % len(nreal))
        e, ymax = _errors(fam, pts, ytf)
        errs.append(e[1])
    floor = 1e-13 * max(ymax, 1e-3)
    obs.note(one_step_errors=errs)
    ords = [math.log2(errs[i] / errs[i + 1]) for i in range(2) if errs[i + 1] > floor and errs[i] > 0]
    if not ords:
        obs.count("order_below_floor")
        return
    order = max(ords)
    obs.count("order_tests")
    obs.note(observed_order=order)
    _track(obs, "min_order_excess", -(order - (p + 1)))
    obs.check(order >= p + 1 - ORDER_MARGIN[m], "order:%s:%s" % (m, famname),
              "one-step errors %s at h, h/2, h/4: observed local order %.2f, declared %d+1" % (["%.3e" % x for x in errs], order, p))
    obs.nontrivial = True


# Calibration (unchanged tree, VERIF_SEED 0..3 thorough, 8400 adaptive / 5000 fixed-step accuracy cases): largest
# err / ((atol+rtol*|y|)(1+LT)sqrt(steps)) seen = 1.16 (rk23) / 0.39 (rk45) when every accepted step has h*L <= 0.5, and 13.9 / 0.48
# when a coarser step was accepted (the initial step guess is the whole first interval: on a coarse grid the embedded estimate of
# such a step can be accidentally small); largest err / (|y| (L h)^p LT e^LT) = 0.37 (euler) / 0.0062 (rk4) / 0.0057 (rk38).
K_ACC = {"rk23": 120.0, "rk45": 40.0}
K_ACC_COARSE = {"rk23": 1400.0, "rk45": 50.0}
HL_RESOLVED = 0.5
K_FIX = {"euler": 40.0, "rk4": 0.7, "rk38": 0.7}


def k_acc(m, hL):
    return K_ACC[m] if hL <= HL_RESOLVED else K_ACC_COARSE[m]


def max_hL(rp, fam):
    return max([a.h for a in rp.attempts if a.status != "rejected"] + [0.0]) * fam.L


def acc_bound(m, tolname, ymax, L, T, nacc):
    atol, rtol = _tol(tolname) if _tol(tolname) is not None else (1e-8, 1e-5)
    return (atol + rtol * ymax) * (1 + L * T) * math.sqrt(max(nacc, 1)), 1e-13 * max(ymax, 1e-3) * max(nacc, 1)


def run_accuracy(desc, obs):
    m, famname = desc["method"], desc["family"]
    rng = random.Random(desc["seed"])
    tgen = torch.Generator().manual_seed(desc["seed"])
    pts, span = make_grid(desc["grid"], rng, desc["dir"])
    layout = desc["layout"] if famname in ("harmonic", "damped", "tuplelinear") else "tensor"
    if famname == "tuplelinear" and layout == "tensor":
        layout = "tuple"
    fam = make_family(famname, rng, tgen, pts[0], span, layout)
    key = _key(desc, "%s:%s" % (desc["tol"], desc["grid"]))
    res = _solve_family(obs, key, m, fam, pts, desc["tol"], via_default=bool(desc.get("via_default")))
    if res is None or not res[2].complete:
        obs.nontrivial = True
        return
    yt, ytf, rp, spy = res
    errs, ymax = _errors(fam, pts, ytf)
    base, floor = acc_bound(m, desc["tol"], ymax, fam.L, span, rp.accepted)
    ratio = max(errs) / (base + floor)
    hL = max_hL(rp, fam)
    obs.note(hL=hL)
    _track(obs, "acc_ratio" if hL <= HL_RESOLVED else "acc_ratio_coarse", ratio)
    obs.count("accuracy_resolved_steps" if hL <= HL_RESOLVED else "accuracy_coarse_steps")
    K = k_acc(m, hL)
    obs.note(err=max(errs), base=base, steps=rp.accepted, rejected=rp.rejected, L=fam.L, span=span, max_step_err_ratio=rp.max_err_ratio)
    obs.count("accuracy_compared")
    obs.count("grid_%s" % desc["grid"])
    obs.count("tol_%s" % desc["tol"])
    if rp.rejected:
        obs.count("cases_with_rejections")
    if isinstance(fam.y0, (tuple, list)):
        obs.count("tuple_state_cases")
    obs.check(ratio <= K, "accuracy:%s:%s" % (m, desc["tol"]),
              "global error %.3e exceeds %.3g x (atol+rtol*|y|)(1+LT)sqrt(steps) = %.3e (family %s, %d steps, L*T=%.2f, largest h*L=%.2f)" % (
                  max(errs), K, K * (base + floor), famname, rp.accepted, fam.L * span, hL), grid=desc["grid"])
    # error must not grow when the tolerances shrink by 100
    if desc["tol"] in ("loose", "abs", "default") and (m == "rk45" or desc["tol"] == "loose"):
        tight = {"loose": (1e-8, 1e-5), "abs": (1e-8, 0.0), "default": (1e-10, 1e-7)}[desc["tol"]]
        res2 = _solve_family(obs, key + ":tightened", m, fam, pts, tight)
        if res2 is not None and res2[2].complete:
            errs2, _ = _errors(fam, pts, res2[1])
            base2, floor2 = acc_bound(m, tight, ymax, fam.L, span, res2[2].accepted)
            obs.count("tolerance_pairs")
            if max(errs2) < max(errs):
                obs.count("tolerance_pairs_improved")
            hL2 = max_hL(res2[2], fam)
            _track(obs, "acc_ratio" if hL2 <= HL_RESOLVED else "acc_ratio_coarse", max(errs2) / (base2 + floor2))
            K2 = k_acc(m, hL2)
            obs.check(max(errs2) <= K2 * (base2 + floor2), "accuracy:%s:tightened" % m,
                      "with 100x tighter tolerances than '%s' the global error is %.3e (was %.3e), bound %.3e" % (
                          desc["tol"], max(errs2), max(errs), K2 * (base2 + floor2)))
    obs.nontrivial = ymax > 0 and rp.accepted >= len(pts) - 1


def run_fixedacc(desc, obs):
    """fixed-step methods on a grid and on the same grid refined by 2: absolute bound and observed global order"""
    m, famname = desc["method"], desc["family"]
    rng = random.Random(desc["seed"])
    tgen = torch.Generator().manual_seed(desc["seed"])
    p = ref(m)["order"]
    t0 = rng.choice([0.0, rng.uniform(-2, 2)])
    span = rng.choice([0.5, 1.0, 2.0])
    n = rng.choice([4, 6, 8]) * (4 if m == "euler" else 1)
    sgn = 1.0 if desc["dir"] == "inc" else -1.0
    if desc["ragged"]:
        w = [rng.uniform(0.6, 1.4) for _ in range(n)]
    else:
        w = [1.0] * n
    tot = sum(w)
    pts = [t0]
    for x in w:
        pts.append(pts[-1] + sgn * span * x / tot)
    fine = [pts[0]]
    for a, b in zip(pts[:-1], pts[1:]):
        fine += [(a + b) / 2, b]
    layout = desc["layout"] if famname in ("harmonic", "damped", "tuplelinear") else "tensor"
    if famname == "tuplelinear" and layout == "tensor":
        layout = "tuple"
    fam = make_family(famname, rng, tgen, t0, span, layout)
    key = _key(desc, "fixed")
    res = _solve_family(obs, key, m, fam, pts)
    res2 = _solve_family(obs, key, m, fam, fine)
    if res is None or res2 is None or not res[2].complete or not res2[2].complete:
        obs.nontrivial = True
        return
    e1, ymax = _errors(fam, pts, res[1])
    e2, _ = _errors(fam, fine, res2[1])
    hmax = max(abs(b - a) for a, b in zip(pts[:-1], pts[1:]))
    LT = fam.L * span
    bound = ymax * (max(fam.L, 0.5) * hmax) ** p * max(LT, 0.1) * math.exp(LT)
    ratio = max(e1) / (bound + 1e-13 * max(ymax, 1e-3))
    _track(obs, "fix_ratio", ratio)
    obs.count("accuracy_compared")
    obs.check(ratio <= K_FIX[m], "accuracy:%s" % m,
              "global error %.3e exceeds %.3g x |y|(L h)^%d LT e^LT = %.3e (family %s, h=%.3g)" % (max(e1), K_FIX[m], p, K_FIX[m] * bound, famname, hmax))
    floor = 1e-12 * max(ymax, 1e-3)
    obs.note(err_h=max(e1), err_h2=max(e2))
    if famname in ("separable", "bernoulli"):
        # non-autonomous with sign changes of the coefficient: errors of successive steps cancel irregularly, no clean global order
        obs.count("global_order_not_applicable")
    elif max(e2) > floor and max(e1) > 0:
        order = math.log2(max(e1) / max(e2))
        obs.count("order_tests")
        _track(obs, "min_global_order_excess", -(order - p))
        obs.check(order >= p - GLOBAL_ORDER_MARGIN, "global_order:%s:%s" % (m, famname),
                  "halving every step changes the global error from %.3e to %.3e: observed order %.2f, declared %d" % (max(e1), max(e2), order, p))
    else:
        obs.count("order_below_floor")
    if isinstance(fam.y0, (tuple, list)):
        obs.count("tuple_state_cases")
    obs.nontrivial = ymax > 0


def _fam_for_meta(desc, rng, tgen, pts, span, layout=None):
    famname = desc["family"]
    lay = layout or ("tuple" if famname == "tuplelinear" else "tensor")
    return make_family(famname, rng, tgen, pts[0], span, lay)


def run_meta(desc, obs):
    m, rel = desc["method"], desc["group"]
    rng = random.Random(desc["seed"])
    tgen = torch.Generator().manual_seed(desc["seed"])
    pts, span = make_grid(desc["grid"], rng, desc["dir"])
    tol = desc["tol"]
    key = _key(desc, rel)
    if rel == "meta_prefix":
        while len(pts) < 3:
            pts.append(pts[-1] + (pts[-1] - pts[0]) * 0.7)
            span = abs(pts[-1] - pts[0])
        fam = _fam_for_meta(desc, rng, tgen, pts, span)
        full = _solve_family(obs, key, m, fam, pts, tol)
        k = rng.randrange(2, len(pts))
        part = _solve_family(obs, key, m, fam, pts[:k], tol)
        if full is None or part is None or not full[2].complete or not part[2].complete:
            obs.nontrivial = True
            return
        same = torch.equal(full[1][:k], part[1])
        obs.count("metamorphic_compared")
        obs.check(same, "prefix:%s" % _key(desc), "values at ts[:%d] change (max %.3g) when later time points are requested" % (
            k, _inf(full[1][:k] - part[1])), nt=len(pts))
        obs.nontrivial = True
    elif rel == "meta_reflect":
        # y' = f(t, y) on ts  <=>  z' = -f(-s, z) on s = -ts
        fam = _fam_for_meta(desc, rng, tgen, pts, span)
        a = _solve_family(obs, key, m, fam, pts, tol)
        ref_fam = Family()
        ref_fam.y0, ref_fam.params = fam.y0, fam.params
        if isinstance(fam.y0, (tuple, list)):
            ref_fam.fcn = lambda s_, z, *p: tuple(-c for c in fam.fcn(-s_, z, *p))
        else:
            ref_fam.fcn = lambda s_, z, *p: -fam.fcn(-s_, z, *p)
        b = _solve_family(obs, key + ":mirror", m, ref_fam, [-x for x in pts], tol)
        if a is None or b is None or not a[2].complete or not b[2].complete:
            obs.nontrivial = True
            return
        d = _inf(a[1] - b[1])
        sc = max(_inf(a[1]), 1e-3)
        obs.count("metamorphic_compared")
        _track(obs, "reflect_dev_eps", d / (sc * 2.2e-16))
        obs.check(d <= 1e-12 * sc, "reflect:%s" % _key(desc),
                  "solution on ts and solution of the time-reflected problem on -ts differ by %.3g" % d)
        obs.nontrivial = True
    elif rel == "meta_roundtrip":
        fam = _fam_for_meta(desc, rng, tgen, pts, span)
        a = _solve_family(obs, key, m, fam, pts, tol)
        if a is None or not a[2].complete:
            obs.nontrivial = True
            return
        yt = a[0]
        back = Family()
        back.params, back.fcn = fam.params, fam.fcn
        back.y0 = tuple(c[-1].clone() for c in yt) if isinstance(yt, (tuple, list)) else yt[-1].clone()
        rpts = pts[::-1]
        b = _solve_family(obs, _key(dict(desc, dir="dec" if desc["dir"] == "inc" else "inc"), rel), m, back, rpts, tol)
        if b is None or not b[2].complete:
            obs.nontrivial = True
            return
        e_f, ymax = _errors(fam, pts, a[1])
        e_b, _ = _errors(fam, rpts, b[1])
        ret = float(torch.linalg.vector_norm(b[1][-1] - _flat0(fam.y0)))
        if m in ADAPTIVE:
            base, floor = acc_bound(m, tol, ymax, fam.L, span, a[2].accepted + b[2].accepted)
            lim = 2 * k_acc(m, max(max_hL(a[2], fam), max_hL(b[2], fam))) * (base + floor)
        else:
            p = ref(m)["order"]
            hmax = max(abs(y - x) for x, y in zip(pts[:-1], pts[1:]))
            LT = fam.L * span
            lim = 2 * K_FIX[m] * (ymax * (max(fam.L, 0.5) * hmax) ** p * max(LT, 0.1) * math.exp(LT) + 1e-13 * max(ymax, 1e-3)) * math.exp(LT)
        obs.count("metamorphic_compared")
        _track(obs, "roundtrip_ratio", max(ret, max(e_b)) / lim * 2)
        obs.check(max(ret, max(e_b)) <= lim, "roundtrip:%s" % m,
                  "forward then backward along the reversed grid: returns to y0 within %.3e, backward leg error %.3e, bound %.3e" % (ret, max(e_b), lim))
        obs.nontrivial = ymax > 0
    elif rel == "meta_tuple":
        famname = desc["family"]
        lay = rng.choice(["tuple", "list"])
        fam = make_family(famname, rng, tgen, pts[0], span, lay)
        a = _solve_family(obs, key + ":" + lay, m, fam, pts, tol)
        cat = Family()
        cat.params = ()
        if famname == "tuplelinear":
            cat.y0 = fam.z0.clone()
            cat.fcn = fam.fcn_cat
            shapes = fam.shapes
        else:
            x0, v0 = fam.y0
            shapes = [tuple(x0.shape), tuple(v0.shape)]
            cat.y0 = torch.cat([x0.reshape(-1), v0.reshape(-1)])
            nx = x0.numel()

            def fcat(t, z):
                out = fam.fcn(t, (z[:nx].reshape(shapes[0]), z[nx:].reshape(shapes[1])))
                return torch.cat([c.reshape(-1) for c in out])
            cat.fcn = fcat
        b = _solve_family(obs, key + ":cat", m, cat, pts, tol)
        if a is None or b is None or not a[2].complete or not b[2].complete:
            obs.nontrivial = True
            return
        yt = a[0]
        kinds = {k[0] for k in a[3].arg_kinds}
        obs.check(kinds == {"tuple"} or kinds == {"list"}, "tuple_arg:%s" % _key(desc),
                  "right-hand side received %s for a %s state" % (sorted(kinds), lay))
        shapes_seen = {k[1:] for k in a[3].arg_kinds}
        obs.check(shapes_seen == {tuple(tuple(c.shape) for c in fam.y0)}, "tuple_arg_shapes:%s" % _key(desc),
                  "component shapes passed to the right-hand side %s differ from those of y0" % (sorted(shapes_seen),))
        pos = 0
        ok = True
        for comp, sh in zip(yt, shapes):
            nsz = int(torch.Size(sh).numel())
            ok = ok and torch.equal(comp.reshape(len(pts), -1), b[1][:, pos:pos + nsz])
            pos += nsz
        obs.count("metamorphic_compared")
        obs.count("tuple_state_cases")
        obs.check(ok, "tuple_vs_concat:%s" % _key(desc), "%s-of-tensors state and concatenated state give different values (max %.3g)" % (
            lay, _inf(a[1] - b[1])))
        obs.nontrivial = True


def run_degenerate(desc, obs):
    """grids at the edge of 'monotone': a single time point; a repeated time (zero-length interval) first / inside / last.
    Oracle: y[0] is y0, a repeated time repeats the value, and the values at the distinct times are those of the grid without
    the repetition (bitwise for the unchanged tree; 1e-12 relative is required)"""
    m, var = desc["method"], desc["var"]
    rng = random.Random(desc["seed"])
    sgn = 1.0 if desc["dir"] == "inc" else -1.0
    t0 = rng.uniform(-1, 1)
    y0 = torch.randn(3, dtype=torch.float64)
    lam = torch.tensor([0.5, -1.0, 0.2], dtype=torch.float64)
    base = [t0, t0 + sgn * 0.5, t0 + sgn * 1.0]
    if var == "one_point":
        pts, keep = [t0], [0]
    elif var == "repeat_first":
        pts, keep = [t0, t0, base[1], base[2]], [0, 2, 3]
    elif var == "repeat_inner":
        pts, keep = [t0, base[1], base[1], base[2]], [0, 1, 3]
    else:
        pts, keep = [t0, base[1], base[2], base[2]], [0, 1, 2]
    ts = torch.tensor(pts, dtype=torch.float64)
    key = "%s:%s" % (m, var)

    def rule(idx, t, y, *p):
        return lam * y * torch.cos(t)
    spy, yt = run_solver(obs, key, rule, ts, y0, m, budget=4000)
    obs.nontrivial = True
    obs.count("degenerate_grids")
    if yt is None:
        return
    if not basic_checks(obs, key, yt, ts, y0):
        return
    for i in range(1, len(pts)):
        if pts[i] == pts[i - 1]:
            obs.check(torch.equal(yt[i], yt[i - 1]), "repeated_time:%s" % key, "y at a repeated time point differs from the previous value")
    if var != "one_point":
        spy2, yt2 = run_solver(obs, key + ":distinct", rule, torch.tensor(base, dtype=torch.float64), y0, m, budget=4000)
        if yt2 is None:
            return
        d = _inf(yt[keep] - yt2)
        obs.check(d <= 1e-12 * max(_inf(yt2), 1e-3), "degenerate_value:%s" % key,
                  "values at the distinct times differ by %.3g from the solution on the grid without the repeated time" % d)
        obs.count("metamorphic_compared")


def run_case(desc):
    if desc.get("group") == "alias":
        from vf import c07_extra
        return c07_extra.run_case(desc)
    if desc.get("group") == "tdtype":
        from vf import c07_tdtype
        return c07_tdtype.run_case(desc)
    if desc.get("group") == "firststep":
        from vf import c07_firststep
        return c07_firststep.run_case(desc)
    obs = Obs(desc)
    g = desc["group"]
    obs.count("group_%s" % g)
    if g == "tableau":
        run_tableau(desc, obs)
    elif g == "errw":
        run_errw(desc, obs)
    elif g == "order":
        run_order(desc, obs)
    elif g == "accuracy":
        run_accuracy(desc, obs)
    elif g == "fixedacc":
        run_fixedacc(desc, obs)
    elif g.startswith("meta_"):
        run_meta(desc, obs)
    elif g == "degenerate":
        run_degenerate(desc, obs)
    else:
        raise HarnessBug("unknown group %s" % g)
    return obs.result()
