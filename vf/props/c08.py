"""C08 - solve_ivp gradients w.r.t. y0, parameters and times are the true sensitivities
(reference-model monitor: closed-form / matrix-exponential solutions differentiated by plain autograd from the same leaves)."""
import math
import random

import torch

from vf.common import Obs, sub_seed, WarnLog, HarnessBug

LEVEL = "exploration"
TECHNIQUE = ("runtime reference-model monitor: first- and second-order autograd gradients of random contractions of the trajectory "
             "returned by solve_ivp against the same contractions of closed-form / matrix-exponential solutions built from the same leaves")
DT = torch.float64

# ------------------------------------------------------------------------------------------------ method configurations
TIGHT = 1e-10
# name -> (forward method, forward options, bck_options, class, order used by the refinement test)
#   class "tight": both integrations adaptive with tolerances <= 1e-8  -> one grid, fixed tolerance
#   class "grid" : at least one fixed-step integrator                  -> grid refined twice: order test + tolerance on the finest
CONFS = {
    "rk45": ("rk45", {"atol": TIGHT, "rtol": TIGHT}, None, "tight", None),
    "rk45_default_method": (None, {"atol": TIGHT, "rtol": TIGHT}, None, "tight", None),
    "rk23": ("rk23", {"atol": 1e-9, "rtol": 1e-9}, None, "tight", None),
    "rk45_b23": ("rk45", {"atol": TIGHT, "rtol": TIGHT}, {"method": "rk23", "atol": 1e-9, "rtol": 1e-9}, "tight", None),
    "rk23_b45": ("rk23", {"atol": 1e-9, "rtol": 1e-9}, {"method": "rk45", "atol": TIGHT, "rtol": TIGHT}, "tight", None),
    "rk45_btol": ("rk45", {"atol": TIGHT, "rtol": TIGHT}, {"atol": 1e-9, "rtol": 1e-9}, "tight", None),
    "rk4": ("rk4", {}, None, "grid", 4),
    "rk38": ("rk38", {}, None, "grid", 4),
    "euler": ("euler", {}, None, "grid", 1),
    "rk4_b45": ("rk4", {}, {"method": "rk45", "atol": TIGHT, "rtol": TIGHT}, "grid", 4),
    "rk45_b4": ("rk45", {"atol": TIGHT, "rtol": TIGHT}, {"method": "rk4"}, "grid", 4),
    "rk38_b4": ("rk38", {}, {"method": "rk4"}, "grid", 4),
    "rk45_b38": ("rk45", {"atol": TIGHT, "rtol": TIGHT}, {"method": "rk38"}, "grid", 4),
}
# forward deliberately inaccurate, backward tight: for a LINEAR system dL/dy0 is decided by the backward integrator alone
BCKLIN_CONFS = {
    "euler_b45": ("euler", {}, {"method": "rk45", "atol": TIGHT, "rtol": TIGHT}),
    "rk4_b45": ("rk4", {}, {"method": "rk45", "atol": TIGHT, "rtol": TIGHT}),
    "rk45loose_b45": ("rk45", {"atol": 1.0, "rtol": 1.0}, {"atol": TIGHT, "rtol": TIGHT}),
    "rk23loose_b45": ("rk23", {"atol": 3e-2, "rtol": 3e-2}, {"method": "rk45", "atol": TIGHT, "rtol": TIGHT}),
}

# Tolerances (relative, see _kind_errors), >= 100 x the largest error seen on the repaired tree (seeds 0..3 and 7 quick, 0 and 1 thorough):
#   both integrations rk45 at 1e-10          first order 1.5e-8, second order 6e-8   -> 3e-6 / 3e-5
#   rk45 at 1e-10, backward rk45 at 1e-9     first order 2.8e-8                      -> 1e-5 / 1e-4
#   configurations with rk23 at 1e-9         first order 6.4e-7                      -> 1e-4 / 1e-3
#   rk4/rk38, finest grid (49..97 points)    first order 2.3e-5, second order (once-refined grid) 7.6e-5 -> 3e-3 / 3e-2
#   linear system, tight backward, inaccurate forward: dL/dy0 5e-11 -> 1e-6
# The mutations tried (sign, missing term, index shifted by one, options ignored, detached copies) give errors of 1e-2 .. 1.
def tol_tight(conf):
    if "23" in conf:
        return (1e-4, 1e-3)
    if conf == "rk45_btol":
        return (1e-5, 1e-4)
    return (3e-6, 3e-5)


TOL_GRID4 = (3e-3, 3e-2)
TOL_BCKLIN = 1e-6
# refinement test: required error reduction per halving (expected 1/16 and 1/2; observed <= 0.13 and <= 0.56 above the floor).
# An error below the floor is not required to shrink: that small, the leading error term of a component can cancel by accident and
# the sequence is not monotone (seen once in 10^4 cases for Euler: 5.5e-4 -> 5.4e-4 -> 3.4e-4 on a 33-point grid).  Errors of the
# kind the test is there for (a wrong or missing term, an index shifted by one interval) are >= 5e-3 on these grids.
RATIO = {4: 0.35, 1: 0.80}
FLOOR = {4: 1e-4, 1: 5e-3}

FAMILIES = ["linsys", "forced", "separable", "logistic", "yindep"]
PMODES = ["explicit", "nn", "em", "mixed_nn", "mixed_em"]
COTS = ["dense", "one", "two", "first", "last"]
TUPLE_SHAPES = [[[1], [2, 1]], [[2], [1, 2]], [[1], [1, 1], [2]]]
THETA_NAMES = {"linsys": ["A", "s", "b", "w"], "forced": ["a", "b", "w"], "separable": ["a", "b", "w"], "logistic": ["r", "K"],
               "yindep": ["c", "b", "w"]}


def _theta_names(desc):
    names = list(THETA_NAMES[desc["family"]])
    if desc["family"] == "linsys" and not desc.get("timemod"):
        names = ["A", "s"]
    return names


LEVEL_TEXT = ("Held on every generated case of the run: 5 ODE families with closed-form solutions (time-modulated linear systems via "
              "matrix_exp incl. tuple/list states, forced linear, separable time-dependent, logistic, right-hand side independent of y) x "
              "13 forward/backward method configurations (+4 with a deliberately inaccurate forward and a tight backward) x {explicit, "
              "nn.Module, EditableModule, mixed, one tensor supplied twice} parameters x subsets of {y0, theta, ts} requiring grad (leaf and "
              "non-leaf) x 5 cotangent patterns x increasing/decreasing, uniform/ragged grids x first order (both backward code paths) and "
              "second order; every gradient incl. d/dts[0] compared with autograd of the closed form from the same leaves; unused tensors "
              "must get None/0.  Histories on one graph: 10 sequences of 2-3 backward passes of different modes (plain, graph-recording + second "
              "order, .backward(), subset of leaves, two cotangents), each pass also against the same pass on a fresh graph.  Right-hand sides "
              "returning a tensor they do not own (parameter, module attribute, state, time; untouched or as a view).")
LEVEL_NOTE = ("Relative tolerance 3e-6 / 3e-5 (first / second order; 1e-4 / 1e-3 with rk23 at 1e-9) for adaptive integrators at 1e-10; "
              "fixed-step methods are decided on a twice-refined grid (order-of-convergence test + 3e-3 on the finest grid; Euler by the "
              "order test alone); trusts torch.linalg.matrix_exp and its autograd formulas.")
RULE = ("seeded sampling over family x method configuration x parameter mode x requires-grad subset x cotangent pattern x direction x grid "
        "x order, plus directed classes (graph-recording backward w.r.t. ts for every adaptive configuration; one tensor supplied in two "
        "places; linear systems with inaccurate forward and tight backward; a repeated or a single requested time); non-trivial = non-zero cotangent, >= 1 leaf with a non-zero "
        "reference gradient, the right-hand side was evaluated during the backward pass (spy count) and the gradients were compared "
        "leaf by leaf")
RULE += ('; extra kind abort_reuse: right-hand side raising at a seeded evaluation of forward / backward, the object reused afterwards')
RULE += ('; group multipass: ONE solve_ivp graph, 2-3 backward passes of seeded modes (plain / create_graph + second differentiation / '
         '.backward() into .grad / subset of leaves; same or different cotangents), every pass against the closed form and against the same pass '
         'alone on a fresh graph; kind passthrough: right-hand sides returning the parameter / module attribute / state / time itself or a view of it')
MIN_NONTRIVIAL = {"quick": 500, "thorough": 5000}
ASSUMPTIONS = [
    "float64 only; state size <= 6, <= 9 requested times for adaptive methods, time span 0.3..1.5, |t0| <= 1, strictly monotone grids "
    "(smallest/largest spacing >= 0.03 for adaptive, >= 1/3 for fixed-step methods) except in the directed class 'degengrid' "
    "(one requested time given twice; a single requested time), which is run with adaptive methods only",
    "linear systems: A = -0.3 I + 0.7 N(0,1)/sqrt(n), scale 0.5..1.2, modulation 1 + b cos(w t) with b in 0.3..0.8, w in 1..3",
    "logistic: y0/K in 0.2..0.9 (no blow-up in either time direction)",
    "adaptive integrators are run with atol=rtol=1e-10 (rk45) or 1e-9 (rk23); comparison tolerance 3e-6 / 3e-5 (backward at 1e-9: 1e-5 / 1e-4; with rk23: 1e-4 / 1e-3) "
    "relative to the largest reference gradient of the leaf kind, floored at 1e-2 * max(largest reference gradient of any leaf, "
    "largest cotangent entry)",
    "fixed-step methods: base grids of 13..25 points (Euler 49) with spacing ratio <= 3, refined twice by midpoints; required error "
    "reduction per halving 0.35 (order 4) / 0.80 (Euler) unless the error is already below 1e-4 / 5e-3",
    "'bck_options are honoured' is decided numerically on linear systems only (dL/dy0 there depends on the backward integrator alone)",
    "aliasing: one tensor supplied twice in params, or as an object's parameter and in params; two attributes of one object sharing "
    "a tensor are not generated here (C09/C10)",
    "multipass: 2-3 backward passes per graph, every pass with retain_graph=True; adaptive configurations are compared with the closed form "
    "(tolerances of the adaptive group) and every configuration with the same pass on a fresh graph of an identical call (1e-9 relative: the "
    "same floating-point computation); in-place modification of inputs between passes is not generated",
    "passthrough: dy/dt = v, dy/dt = y, dy/dt = t (0-dim state) and the tuple state (v, y2) with the returned tensor being the input itself "
    "(return x / x.contiguous() / x.to(dtype)) or a view (view / [...] / expand); schemes integrate constant and linear-in-t right-hand sides "
    "exactly (1e-10 / 1e-9); dy/dt = y with rk4/rk38 on a 48-fold refined grid, h <= 0.032 (1e-5 / 1e-4), Euler not generated there",
    "removing the re-seeding of y with the stored forward values changes the gradients by less than the integrators' accuracy and "
    "is therefore not detectable (nor required) by this property",
]
BUDGET = {"quick": {"worker_timeout": 900, "case_timeout": 200}, "thorough": {"worker_timeout": 3300, "case_timeout": 400}}
SHARDS_PER_JOB = 2
_REQ = {"abort_reuse_compared": 20, "long_horizon_compared": 10, "first_nograph_path": 150, "first_graph_path": 300, "second_order_compared": 150, "ts_grad_compared": 300,
        "ts_second_adaptive": 60, "tuple_state": 40, "decreasing_ts": 200, "objparams_grad_compared": 250, "unused_checked": 120,
        "bck_different": 200, "rhs_calls_backward": 100000, "rhs_calls_backward2": 30000, "bcklin_compared": 60,
        "refinement_tests": 200, "cot_one_time": 250, "aliased_compared": 40, "derived_leaves": 80,
        "degenerate_grid_compared:lead": 8, "degenerate_grid_compared:inner": 8, "degenerate_grid_compared:trail": 8,
        "degenerate_grid_compared:single": 8,
        # several backward passes of different modes through one graph (vf/c08_passes.py)
        "multipass_cg_after_plain_ts": 15, "multipass_cg_after_plain_ts_closed_form": 10, "multipass_plain_after_cg": 6,
        "multipass_fresh_compared": 40, "multipass_second_order_closed_form": 25, "multipass_conf_grid": 10,
        # right-hand sides returning tensors they do not own (vf/c08_passes.py)
        "passthrough_param_returned_untouched_plain_backward": 12, "passthrough_state_returned_untouched": 10,
        "passthrough_view_returned": 40, "passthrough_compared_cg": 60, "passthrough_compared_nocg": 35,
        "passthrough_second_order_compared": 18, "passthrough_exact": 70, "passthrough_adaptive": 15, "passthrough_fine": 10}
REQUIRED_COUNTERS = {"quick": dict(_REQ), "thorough": {k: 8 * v for k, v in _REQ.items()}}


# ------------------------------------------------------------------------------------------------ case lists
def _common(rng, d):
    d["family"] = rng.choice(FAMILIES)
    d["pmode"] = rng.choice(PMODES)
    d["m"] = rng.choice([1, 2, 3])
    d["ybatch"] = rng.choice([0, 0, 2])
    d["timemod"] = rng.random() < 0.6
    d["tuple"] = d["family"] == "linsys" and rng.random() < 0.4
    d["tshape"] = rng.randrange(len(TUPLE_SHAPES))
    d["ystruct"] = rng.choice(["list", "tuple"])
    d["rstruct"] = rng.choice(["list", "tuple"])
    d["decreasing"] = rng.random() < 0.45
    d["ragged"] = rng.random() < 0.6
    d["cot"] = rng.choice(COTS)
    d["rg_y0"] = rng.random() < 0.7
    d["rg_ts"] = rng.random() < 0.6
    d["rg_th"] = rng.randrange(16)          # bit k: k-th theta name requires grad
    if not d["rg_y0"] and not d["rg_ts"] and d["rg_th"] & ((1 << len(_theta_names(d))) - 1) == 0:
        d["rg_th"] = 15
    d["unused"] = rng.random() < 0.3
    d["derived"] = rng.random() < 0.25
    return d


def cases(seed, tier):
    out = []
    quick = tier == "quick"
    # ---- adaptive integrators, first order (one backward code path per case) and second order
    tight = [k for k, v in CONFS.items() if v[3] == "tight"]
    n_ad = 520 if quick else 5200
    for i in range(n_ad):
        rng = random.Random(sub_seed(seed, "c08a", i))
        d = _common(rng, {"group": "adaptive", "seed": sub_seed(seed, "c08as", i)})
        d["conf"] = tight[i % len(tight)] if rng.random() < 0.6 else "rk45"
        d["nt"] = rng.choice([2, 3, 4, 5, 7, 9])
        d["order"] = 2 if i % 3 == 2 else 1
        d["cg"] = (i // 3) % 2 if d["order"] == 1 else 1
        if d["order"] == 2:
            d["nt"] = rng.choice([2, 3, 4])
            if "23" in d["conf"] and rng.random() < 0.7:
                d["conf"] = "rk45"
        out.append(d)
    # ---- directed: graph-recording backward w.r.t. the time points for every adaptive configuration (first and second order)
    k = 0
    for conf in tight:
        for fam in FAMILIES:
            for order in (1, 2):
                rng = random.Random(sub_seed(seed, "c08t", k))
                d = _common(rng, {"group": "adaptive_ts_graph", "seed": sub_seed(seed, "c08ts", k)})
                d.update(family=fam, conf=conf, order=order, cg=1, rg_ts=True, nt=rng.choice([3, 4]), tuple=False,
                         cot=rng.choice(["dense", "one", "two", "last"]))
                if order == 2 and "23" in conf:
                    d["nt"] = 3          # cost: the backward of an rk23 backward at 1e-9
                out.append(d)
                k += 1
    # ---- fixed-step integrators (and mixed fixed/adaptive): refinement protocol
    grid = [k for k, v in CONFS.items() if v[3] == "grid"]
    n_fx = 300 if quick else 3000
    for i in range(n_fx):
        rng = random.Random(sub_seed(seed, "c08f", i))
        d = _common(rng, {"group": "fixed", "seed": sub_seed(seed, "c08fs", i)})
        d["conf"] = grid[i % len(grid)]
        d["nt"] = rng.choice([13, 17, 25]) if d["conf"] != "euler" else 49
        d["order"] = 2 if i % 4 == 3 else 1
        d["cg"] = (i // 4) % 2 if d["order"] == 1 else 1
        out.append(d)
    # ---- one tensor supplied in two places (twice in params, or as an object's parameter and in params)
    n_al = 60 if quick else 600
    for i in range(n_al):
        rng = random.Random(sub_seed(seed, "c08l", i))
        d = _common(rng, {"group": "alias", "seed": sub_seed(seed, "c08ls", i)})
        d.update(family=rng.choice(["linsys", "forced", "separable", "yindep"]), timemod=True, alias=True,
                 pmode=rng.choice(["explicit", "mixed_nn", "mixed_em"]), conf=rng.choice(["rk45", "rk45", "rk45_btol", "rk23_b45"]),
                 nt=rng.choice([2, 3, 4]), order=2 if i % 3 == 2 else 1)
        d["cg"] = (i // 3) % 2 if d["order"] == 1 else 1
        out.append(d)
    # ---- degenerate grids: a requested time given twice (first, inner or last interval of zero length), a single requested time
    n_dg = 48 if quick else 480
    for i in range(n_dg):
        rng = random.Random(sub_seed(seed, "c08g", i))
        d = _common(rng, {"group": "degengrid", "seed": sub_seed(seed, "c08gs", i)})
        d.update(conf=rng.choice(["rk45", "rk45", "rk45_btol", "rk23_b45", "rk45_default_method"]), order=2 if i % 3 == 2 else 1,
                 repeat=["lead", "inner", "trail", "single"][i % 4])
        d["nt"] = 1 if d["repeat"] == "single" else rng.choice([4, 5] if d["repeat"] == "inner" or d["order"] == 1 else [3, 4])
        d["cg"] = (i // 3) % 2 if d["order"] == 1 else 1
        if d["repeat"] == "single":
            d["rg_y0"] = True
        out.append(d)
    # ---- bck_options honoured: linear systems, inaccurate forward, tight backward; dL/dy0 only
    n_bl = 96 if quick else 960
    names = sorted(BCKLIN_CONFS)
    for i in range(n_bl):
        rng = random.Random(sub_seed(seed, "c08b", i))
        d = _common(rng, {"group": "bcklin", "seed": sub_seed(seed, "c08bs", i)})
        d.update(family="linsys", conf=names[i % len(names)], nt=rng.choice([3, 4, 6]), order=1, cg=i // len(names) % 2, rg_y0=True,
                 tuple=rng.random() < 0.4, cot=rng.choice(["dense", "last", "two"]))
        out.append(d)
    # ---- extra scenarios (right-hand side with control flow on t; one bck_options dict shared by several calls): vf/c08_extra.py
    from vf import c08_extra
    out.extend(c08_extra.cases(seed, tier))
    # ---- several backward passes of different modes through ONE graph; right-hand sides returning tensors they do not own: vf/c08_passes.py
    from vf import c08_passes
    out.extend(c08_passes.multipass_cases(seed, tier, _common))
    out.extend(c08_passes.passthrough_cases(seed, tier))
    # the monitors of C09 on solve_ivp: special representations (tied / duplicated / aliased tensors ...) and a failing call followed by a normal one
    from vf import c09_extra as _c9x
    out.extend(_c9x.delegated_cases(seed, tier, ("solve_ivp",), "c08d"))
    return out


# ------------------------------------------------------------------------------------------------ problem construction
def _u(tgen, lo, hi, shape=()):
    return lo + (hi - lo) * torch.rand(shape, dtype=DT, generator=tgen)


class Problem:
    """leaves, the right-hand side in the requested parameter mode (with call counters) and the closed-form solution"""
    pass


def build_problem(desc):
    import xitorch
    rng = random.Random(desc["seed"])
    tgen = torch.Generator().manual_seed(desc["seed"])
    fam = desc["family"]
    m = desc["m"]
    P = Problem()
    P.fam = fam
    P.is_tuple = bool(desc.get("tuple")) and fam == "linsys"
    names = _theta_names(desc)
    P.names = names
    timemod = bool(desc.get("timemod"))
    consts = {}
    vals = {}
    # ---- values
    if fam == "linsys":
        if P.is_tuple:
            shapes = [tuple(s) for s in TUPLE_SHAPES[desc["tshape"]]]
            n = sum(int(math.prod(s)) for s in shapes)
            P.shapes = shapes
            y0v = [torch.randn(s, dtype=DT, generator=tgen) for s in shapes]
        else:
            n = max(2, m)
            bshape = (desc["ybatch"],) if desc["ybatch"] else ()
            y0v = torch.randn(*bshape, n, dtype=DT, generator=tgen)
        vals["A"] = -0.3 * torch.eye(n, dtype=DT) + 0.7 * torch.randn(n, n, dtype=DT, generator=tgen) / math.sqrt(n)
        vals["s"] = _u(tgen, 0.5, 1.2)
        if timemod:
            vals["b"] = _u(tgen, 0.3, 0.8)
            vals["w"] = _u(tgen, 1.0, 3.0)
    else:
        bshape = (desc["ybatch"],) if desc["ybatch"] else ()
        if fam == "forced":
            vals["a"] = _u(tgen, 0.3, 1.5, (m,))
            vals["b"] = _u(tgen, 0.5, 1.5)
            vals["w"] = _u(tgen, 1.0, 3.0)
            consts["phi"] = rng.uniform(0.0, 3.0)
            y0v = torch.randn(*bshape, m, dtype=DT, generator=tgen)
        elif fam == "separable":
            vals["a"] = _u(tgen, 0.3, 1.5, (m,))
            vals["b"] = _u(tgen, 0.5, 1.5)
            vals["w"] = _u(tgen, 1.0, 3.0)
            y0v = torch.randn(*bshape, m, dtype=DT, generator=tgen)
            y0v = y0v + 0.3 * torch.sign(y0v)
        elif fam == "yindep":
            vals["c"] = torch.randn(m, dtype=DT, generator=tgen)
            vals["b"] = _u(tgen, 0.5, 1.5)
            vals["w"] = _u(tgen, 1.0, 3.0)
            consts["phi"] = rng.uniform(0.0, 3.0)
            y0v = torch.randn(*bshape, m, dtype=DT, generator=tgen)
        elif fam == "logistic":
            vals["r"] = _u(tgen, 0.5, 2.0, (m,))
            vals["K"] = _u(tgen, 0.8, 2.0)
            y0v = vals["K"] * _u(tgen, 0.2, 0.9, (*bshape, m))
        else:
            raise HarnessBug("family %s" % fam)
    # ---- time grid
    nt = desc["nt"]
    T = rng.uniform(0.3, 1.5)
    t0 = rng.uniform(-1.0, 1.0)
    if nt == 1:
        frac = [0.0]
    elif nt == 2:
        frac = [0.0, 1.0]
    elif desc.get("ragged"):
        if desc["group"] == "fixed":
            w_ = [rng.uniform(1.0, 3.0) for _ in range(nt - 1)]
        else:
            w_ = [math.exp(rng.uniform(math.log(0.03), 0.0)) for _ in range(nt - 1)]
        tot = sum(w_)
        frac = [0.0]
        for x in w_:
            frac.append(frac[-1] + x / tot)
        frac[-1] = 1.0
    else:
        frac = [i / (nt - 1) for i in range(nt)]
    rep = desc.get("repeat")          # a requested time given twice (zero-length interval)
    if rep == "lead" and nt >= 3:
        frac[1] = frac[0]
    elif rep == "trail" and nt >= 3:
        frac[-2] = frac[-1]
    elif rep == "inner" and nt >= 4:
        k_rep = 1 + rng.randrange(nt - 3)
        frac[k_rep + 1] = frac[k_rep]
    sgn = -1.0 if desc.get("decreasing") else 1.0
    tsv = torch.tensor([t0 + sgn * T * f for f in frac], dtype=DT)
    P.T = T
    # ---- leaves
    derived = bool(desc.get("derived"))
    alias = bool(desc.get("alias"))       # one tensor supplied in two places (names b and w share it)
    leaves = []       # (kind, name, leaf tensor)

    def mk(v, rg, kind, name, allow_derived=True):
        leaf = v.clone().requires_grad_(bool(rg))
        if rg:
            leaves.append((kind, name, leaf))
        used = leaf * 1.0 if (derived and rg and allow_derived) else leaf
        return used

    if P.is_tuple:
        y0 = [mk(v, desc["rg_y0"], "y0", "y0[%d]" % i) for i, v in enumerate(y0v)]
        if desc.get("ystruct") == "tuple":
            y0 = tuple(y0)
    else:
        y0 = mk(y0v, desc["rg_y0"], "y0", "y0")
    ts = mk(tsv, desc["rg_ts"], "ts", "ts")
    pmode = desc["pmode"]
    if pmode == "explicit":
        objset = []
    elif pmode in ("nn", "em"):
        objset = list(names)
    elif alias:
        objset = names[:names.index("w")]          # b lives in the object, w is passed explicitly
    else:
        objset = names[:1] if len(names) <= 2 or rng.random() < 0.5 else names[:2]
    if alias and pmode in ("nn", "em"):
        raise HarnessBug("alias cases are generated for explicit / mixed parameter modes only")
    P.objset = objset
    nn_mode = pmode in ("nn", "mixed_nn")
    th = {}
    for k_, nm in enumerate(names):
        rg = bool(desc["rg_th"] >> k_ & 1)
        in_obj = nm in objset
        if alias and nm == "w":
            continue
        if alias and nm == "b":
            th[nm] = mk(_u(tgen, 1.0, 1.4), True, "alias", nm, allow_derived=not (in_obj and nn_mode))
            continue
        th[nm] = mk(vals[nm], rg, "obj" if in_obj else "theta", nm, allow_derived=not (in_obj and nn_mode))
    P.th = th
    P.y0, P.ts = y0, ts
    unused = None
    if desc.get("unused"):
        unused = torch.randn(2, dtype=DT, generator=tgen).requires_grad_()
    unused_explicit = unused is not None and (pmode == "explicit" or (pmode.startswith("mixed") and rng.random() < 0.5))
    P.unused_kind = None if unused is None else ("theta" if unused_explicit else "obj")
    P.leaves = leaves
    P.consts = consts
    P.cnt = {"fwd": 0, "bwd": 0, "bwd2": 0}
    P.phase = ["fwd"]
    phi = consts.get("phi", 0.0)
    is_tuple = P.is_tuple
    shapes = getattr(P, "shapes", None)
    rstruct = desc.get("rstruct", desc.get("ystruct", "list"))

    # ---- the dynamics, written from the differential equation (the reference below is written from its solution)
    def rhs(t, y, q):
        P.cnt[P.phase[0]] += 1
        if fam == "linsys":
            if is_tuple:
                if not isinstance(y, (list, tuple)) or len(y) != len(shapes):
                    raise TypeError("tuple state not passed to the right-hand side as a sequence of %d tensors" % len(shapes))
                flat = torch.cat([yi.reshape(-1) for yi in y])
            else:
                flat = y
            g = q["s"]
            if timemod:
                g = g * (1 + q["b"] * torch.cos(q["w"] * t))
            out = g * torch.matmul(flat, q["A"].transpose(-2, -1))
            if is_tuple:
                res, o = [], 0
                for s_ in shapes:
                    k__ = int(math.prod(s_))
                    res.append(out[o:o + k__].reshape(s_))
                    o += k__
                return res if rstruct == "list" else tuple(res)
            return out
        if fam == "forced":
            return -q["a"] * y + q["b"] * torch.sin(q["w"] * t + q["phi"])
        if fam == "separable":
            return (-q["a"] * t + q["b"] * torch.cos(q["w"] * t)) * y
        if fam == "logistic":
            return q["r"] * y * (1 - y / q["K"])
        if fam == "yindep":          # does not depend on y at all
            return (q["b"] * torch.cos(q["w"] * t + q["phi"]) * q["c"]).expand(y.shape)
        raise HarnessBug(fam)

    exnames = [nm for nm in names if nm not in objset]
    sig = list(exnames)
    if fam in ("forced", "yindep"):          # a non-tensor parameter
        sig.insert(rng.randrange(len(sig) + 1), "phi")
    if unused_explicit:
        sig.insert(rng.randrange(len(sig) + 1), "_unused")

    def gather(obj, ex):
        q = dict(zip(sig, ex))
        q.setdefault("phi", phi)
        for nm in objset:
            q[nm] = getattr(obj, nm)
        return q

    if pmode == "explicit":
        def fcn(t, y, *ex):
            return rhs(t, y, gather(None, ex))
        P.fcn = fcn
        P.obj = None
    elif nn_mode:
        class Mod(torch.nn.Module):
            def __init__(self):
                super().__init__()
                for nm in objset:
                    setattr(self, nm, torch.nn.Parameter(th[nm].detach().clone(), requires_grad=th[nm].requires_grad))
                if unused is not None and not unused_explicit:
                    self.zz_unused = torch.nn.Parameter(unused.detach().clone())

            def forward(self, t, y, *ex):
                return rhs(t, y, gather(self, ex))
        mod = Mod()
        # the module's Parameters ARE the leaves of the object-held names
        for nm in objset:
            prm = getattr(mod, nm)
            th[nm] = prm
            for i_, (kind, name, leaf) in enumerate(leaves):
                if name == nm:
                    leaves[i_] = (kind, name, prm)
        if unused is not None and not unused_explicit:
            unused = mod.zz_unused
        P.fcn = mod.forward if rng.random() < 0.7 else mod
        P.obj = mod
    else:
        class EM(xitorch.EditableModule):
            def __init__(self):
                for nm in objset:
                    setattr(self, nm, th[nm])
                if unused is not None and not unused_explicit:
                    self.zz_unused = unused

            def forward(self, t, y, *ex):
                return rhs(t, y, gather(self, ex))

            def getparamnames(self, methodname, prefix=""):
                res = [prefix + nm for nm in objset]
                if hasattr(self, "zz_unused"):
                    res.append(prefix + "zz_unused")
                return res
        em = EM()
        P.fcn = em.forward
        P.obj = em
    if alias:
        th["w"] = th["b"]         # the very same tensor object in both places
    P.unused = unused
    P.params = tuple(phi if nm == "phi" else (unused if nm == "_unused" else th[nm]) for nm in sig)

    # ---- closed-form solution on an arbitrary grid built from the same leaves
    def ref(tsx, y0x, q):
        t0_ = tsx[0]
        if fam == "linsys":
            G = tsx - t0_
            if timemod:
                G = G + q["b"] * (torch.sin(q["w"] * tsx) - torch.sin(q["w"] * t0_)) / q["w"]
            E = torch.linalg.matrix_exp(q["s"] * q["A"].unsqueeze(0) * G.reshape(-1, 1, 1))       # (nt, n, n)
            if is_tuple:
                flat = torch.cat([yi.reshape(-1) for yi in y0x])
                Y = torch.einsum("tij,j->ti", E, flat)
                res, o = [], 0
                for s_ in shapes:
                    k__ = int(math.prod(s_))
                    res.append(Y[:, o:o + k__].reshape(-1, *s_))
                    o += k__
                return res
            if y0x.dim() == 2:
                return torch.einsum("tij,bj->tbi", E, y0x)
            return torch.einsum("tij,j->ti", E, y0x)
        tt = tsx.reshape(-1, *([1] * y0x.dim()))
        t00 = t0_
        if fam == "forced":
            a, b, w = q["a"], q["b"], q["w"]

            def Pp(t):
                return b * (a * torch.sin(w * t + phi) - w * torch.cos(w * t + phi)) / (a * a + w * w)
            return Pp(tt) + (y0x - Pp(t00)) * torch.exp(-a * (tt - t00))
        if fam == "separable":
            a, b, w = q["a"], q["b"], q["w"]
            return y0x * torch.exp(-a * (tt * tt - t00 * t00) / 2 + b * (torch.sin(w * tt) - torch.sin(w * t00)) / w)
        if fam == "logistic":
            r, K = q["r"], q["K"]
            return K / (1 + (K / y0x - 1) * torch.exp(-r * (tt - t00)))
        if fam == "yindep":
            c, b, w = q["c"], q["b"], q["w"]
            return y0x + b * c * (torch.sin(w * tt + phi) - torch.sin(w * t00 + phi)) / w
        raise HarnessBug(fam)
    P.ref = ref
    return P, rng, tgen


def refine(ts):
    """insert the midpoint of every interval (differentiable in ts)"""
    mid = 0.5 * (ts[:-1] + ts[1:])
    return torch.cat([torch.stack([ts[:-1], mid], dim=1).reshape(-1), ts[-1:]])


def cot_indices(desc, rng):
    """indices of the requested times that the cotangent touches"""
    nt = desc["nt"]
    mode = desc["cot"]
    idx = list(range(nt))
    if mode == "one":
        return [rng.randrange(nt)]
    if mode == "two":
        return sorted(rng.sample(idx, 2)) if nt > 2 else idx
    if mode == "first":
        return [0]
    if mode == "last":
        return [nt - 1]
    return idx


def _aslist(y):
    return list(y) if isinstance(y, (list, tuple)) else [y]


def _zeros_if_none(gs, leaves):
    return [torch.zeros_like(l) if g is None else g for g, l in zip(gs, leaves)]


def _kind_errors(kinds, gs, grefs, cscale):
    """relative error per leaf kind (ts split into ts0 = ts[0] and ts = the rest); the denominator is the largest reference
    gradient of the kind, floored at 1e-2 * max(largest reference gradient of any leaf, largest cotangent entry): states and
    parameters are O(1) by construction, so the cotangent size is the natural absolute scale of an exactly-zero gradient"""
    groups = {}
    for kind, g, r in zip(kinds, gs, grefs):
        g = g.detach().reshape(-1)
        r = r.detach().reshape(-1)
        if kind == "ts":
            groups.setdefault("ts0", []).append((g[:1], r[:1]))
            if g.numel() > 1:
                groups.setdefault("ts", []).append((g[1:], r[1:]))
        else:
            groups.setdefault(kind, []).append((g, r))
    scale = {k: max(float(r.abs().max()) for _, r in v) for k, v in groups.items()}
    s_all = max(scale.values()) if scale else 0.0
    errs = {}
    for k, v in groups.items():
        den = max(scale[k], 1e-2 * max(s_all, cscale), 1e-300)
        e = max(float((g - r).abs().max()) for g, r in v)
        if not math.isfinite(e):
            e = float("inf")
        errs[k] = e / den
    return errs, s_all


# ------------------------------------------------------------------------------------------------ one differentiation experiment
class Outcome:
    pass


def differentiate(obs, desc, P, conf, ts_used, cot_sel, stride, order, cg, tag):
    """run solve_ivp on ts_used (base grid refined `stride`-fold), contract with a cotangent living on the base points,
    differentiate (first order with create_graph=cg; second order if order == 2) and do the same with the closed form."""
    from xitorch.integrate import solve_ivp
    method, fwd_opts, bck = conf[0], dict(conf[1]), conf[2]
    kw = dict(fwd_opts)
    if bck is not None:
        kw["bck_options"] = dict(bck)
    if method is not None:
        kw["method"] = method
    out = Outcome()
    out.failed = True
    P.phase[0] = "fwd"
    leaves = [l for _, _, l in P.leaves]
    kinds = [k for k, _, _ in P.leaves]
    all_leaves = leaves + ([P.unused] if P.unused is not None else [])
    mcls = "%s:%s" % (tag, "cg" if cg else "nocg")
    try:
        with WarnLog():
            yt = solve_ivp(P.fcn, ts_used, P.y0, params=P.params, **kw)
    except HarnessBug:
        raise
    except Exception as e:
        obs.exc_violation("forward:%s" % tag, e)
        return out
    ylist = _aslist(yt)
    if P.is_tuple:
        obs.check(isinstance(yt, (list, tuple)) and len(ylist) == len(P.shapes), "tuple_struct:%s" % tag,
                  "tuple state: returned %s of length %d" % (type(yt).__name__, len(ylist)))
    Yref = _aslist(P.ref(ts_used, P.y0, P.th))
    ok_shape = len(ylist) == len(Yref) and all(tuple(a.shape) == tuple(b.shape) for a, b in zip(ylist, Yref))
    obs.check(ok_shape, "shape:%s" % tag, "trajectory shapes %s, expected %s" % ([tuple(a.shape) for a in ylist], [tuple(b.shape) for b in Yref]))
    if not ok_shape:
        return out
    # cotangent (seeded independently of everything else so that every refinement level sees the same values)
    cgen = torch.Generator().manual_seed(desc["seed"] ^ 0x5A5A5A)
    cots = []
    for Y in Yref:
        c = torch.zeros_like(Y.detach())
        for i in cot_sel:
            c[i * stride] = torch.randn(Y.shape[1:], dtype=DT, generator=cgen)
        cots.append(c)
    out.val_err = max(float((a.detach() - b.detach()).abs().max()) for a, b in zip(ylist, Yref))
    L = sum((a * c).sum() for a, c in zip(ylist, cots))
    Lr = sum((a * c).sum() for a, c in zip(Yref, cots))
    if not L.requires_grad:
        obs.check(False, "no_graph:%s" % tag, "the trajectory does not require grad although %s do" % sorted(set(kinds)))
        return out
    second = order == 2
    P.phase[0] = "bwd"
    try:
        with WarnLog():
            g = torch.autograd.grad(L, all_leaves, create_graph=bool(cg or second), retain_graph=True, allow_unused=True)
    except HarnessBug:
        raise
    except Exception as e:
        obs.exc_violation("backward:%s:%s" % (mcls, "ts" if desc["rg_ts"] else "nots"), e)
        return out
    finally:
        P.phase[0] = "fwd"
    gr = torch.autograd.grad(Lr, leaves, create_graph=second, retain_graph=True, allow_unused=True)
    gr = _zeros_if_none(gr, leaves)
    out.g_unused = g[len(leaves):]
    g = list(g[:len(leaves)])
    out.none_kinds = sorted({k for k, x, r in zip(kinds, g, gr) if x is None and float(r.abs().max()) > 0})
    bad_shape = [k for k, x, l in zip(kinds, g, leaves) if x is not None and tuple(x.shape) != tuple(l.shape)]
    obs.check(not bad_shape, "grad_shape:%s" % mcls, "gradient shape differs from the leaf for %s" % bad_shape)
    if bad_shape:
        return out
    gz = _zeros_if_none(g, leaves)
    cmax = max(float(c.abs().max()) for c in cots)
    out.errs1, out.scale1 = _kind_errors(kinds, gz, gr, cmax)
    out.g, out.gr = g, gr
    out.failed = False
    out.errs2 = None
    if second:
        rgen = torch.Generator().manual_seed(desc["seed"] ^ 0x3C3C3C)
        Rs = [torch.randn(l.shape, dtype=DT, generator=rgen) for l in leaves]
        s = sum((x * R).sum() for x, R in zip(g, Rs) if x is not None and x.requires_grad)
        sr = sum((x * R).sum() for x, R in zip(gr, Rs) if x.requires_grad)
        out.second_possible = isinstance(sr, torch.Tensor) and sr.requires_grad
        if out.second_possible:
            if isinstance(s, torch.Tensor) and s.requires_grad:
                P.phase[0] = "bwd2"
                try:
                    with WarnLog():
                        h = torch.autograd.grad(s, all_leaves, retain_graph=True, allow_unused=True)
                except HarnessBug:
                    raise
                except Exception as e:
                    obs.exc_violation("backward2:%s:%s" % (tag, "ts" if desc["rg_ts"] else "nots"), e)
                    out.failed = True
                    return out
                finally:
                    P.phase[0] = "fwd"
            else:
                # the returned first-order gradients are constants: their derivative is zero (compared with the exact one below)
                h = [None] * len(all_leaves)
            hr = torch.autograd.grad(sr, leaves, retain_graph=True, allow_unused=True)
            hr = _zeros_if_none(hr, leaves)
            out.h_unused = h[len(leaves):]
            h = _zeros_if_none(list(h[:len(leaves)]), leaves)
            rmax = max(float(R.abs().max()) for R in Rs)
            out.errs2, out.scale2 = _kind_errors(kinds, h, hr, cmax * rmax)
    return out


def _check_errs(obs, errs, tol, mech_fmt, what, worst):
    for k, e in sorted(errs.items()):
        worst[0] = max(worst[0], e / tol)
        obs.check(e <= tol, mech_fmt % k, "%s: relative error %.3e for leaf kind %s exceeds %.1e" % (what, e, k, tol), errors=errs)


def _check_unused(obs, desc, P, out, tag):
    if P.unused is None:
        return
    obs.count("unused_checked")
    for order, gu in (("1", getattr(out, "g_unused", None)), ("2", getattr(out, "h_unused", None))):
        if not gu:
            continue
        x = gu[0]
        obs.check(x is None or float(x.detach().abs().max()) == 0.0, "unused_nonzero:%s:%s:order%s" % (P.unused_kind, tag, order),
                  "a tensor that does not enter the dynamics received a non-zero gradient (max %s)" % (
                      None if x is None else float(x.detach().abs().max())))


def run_case(desc):
    if desc.get("group") == "multipass":
        from vf import c08_passes
        return c08_passes.run_multipass(desc)
    if desc.get("group") == "extra" and desc.get("kind") == "passthrough":
        from vf import c08_passes
        return c08_passes.run_passthrough(desc)
    if desc.get("group") == "extra":
        from vf import c08_extra
        return c08_extra.run_case(desc)
    if desc.get("group") in ("c09rep", "c09abort"):
        from vf import c09_extra
        return c09_extra.run_delegated(desc)
    obs = Obs(desc)
    P, rng, tgen = build_problem(desc)
    group = desc["group"]
    if group == "bcklin":
        conf = BCKLIN_CONFS[desc["conf"]] + ("tight", None)
    else:
        conf = CONFS[desc["conf"]]
    cot_sel = cot_indices(desc, rng)
    order, cg = desc["order"], desc["cg"]
    kinds = sorted({k for k, _, _ in P.leaves})
    fb = "%s" % desc["conf"]
    worst = [0.0]
    obs.note(leaf_kinds=kinds, T=P.T, conf=desc["conf"], nparams=len(P.params))

    def reach(out):
        obs.count("rhs_calls_forward", P.cnt["fwd"])
        obs.count("rhs_calls_backward", P.cnt["bwd"])
        obs.count("rhs_calls_backward2", P.cnt["bwd2"])
        obs.count("first_graph_path" if (cg or order == 2) else "first_nograph_path")
        if desc["rg_ts"]:
            obs.count("ts_grad_compared")
        if "obj" in kinds:
            obs.count("objparams_grad_compared")
        if P.is_tuple:
            obs.count("tuple_state")
        if desc["decreasing"]:
            obs.count("decreasing_ts")
        if conf[2] is not None:
            obs.count("bck_different")
        if desc["cot"] in ("one", "first", "last"):
            obs.count("cot_one_time")
        if desc.get("derived"):
            obs.count("derived_leaves")
        obs.count("family_%s" % desc["family"])
        obs.count("conf_%s" % desc["conf"])
        obs.count("pmode_%s" % desc["pmode"])

    if group in ("adaptive", "adaptive_ts_graph", "bcklin", "alias", "degengrid"):
        gname = {"adaptive": "adaptive", "adaptive_ts_graph": "adaptive", "bcklin": "bcklin", "alias": "aliased",
                 "degengrid": "degengrid"}[group]
        tag = gname + ":" + fb
        out = differentiate(obs, desc, P, conf, P.ts, cot_sel, 1, order, cg, tag)
        if out.failed:
            obs.nontrivial = True
            return obs.result()
        reach(out)
        path = "cg" if (cg or order == 2) else "nocg"
        if group == "bcklin":
            e = {"y0": out.errs1["y0"]}
            _check_errs(obs, e, TOL_BCKLIN, "grad1:%%s:bcklin:%s:%s" % (fb, path), "dL/dy0 of a linear system with a tight backward integrator", worst)
            obs.count("bcklin_compared")
            obs.note(errs1=out.errs1, val_err=out.val_err)
        else:
            for k in out.none_kinds:
                obs.check(False, "grad1_none:%s:%s:%s" % (k, gname, path), "gradient None for a leaf of kind %s that enters the solution" % k)
            tol1, tol2 = tol_tight(desc["conf"])
            _check_errs(obs, out.errs1, tol1, "grad1:%%s:%s:%s:%s" % (gname, fb, path), "first-order gradient", worst)
            obs.note(errs1=out.errs1, val_err=out.val_err)
            if order == 2 and out.errs2 is not None:
                _check_errs(obs, out.errs2, tol2, "grad2:%%s:%s:%s" % (gname, fb), "second-order gradient", worst)
                obs.count("second_order_compared")
                if desc["rg_ts"]:
                    obs.count("ts_second_adaptive")
            if group == "alias":
                obs.count("aliased_compared")
            if group == "degengrid":
                obs.count("degenerate_grid_compared:%s" % desc["repeat"])
                obs.note(errs2=out.errs2)
        _check_unused(obs, desc, P, out, gname)
        obs.note(worst_ratio=worst[0], rhs_calls=dict(P.cnt))
        if worst[0] > 1e-2:
            obs.count("error_above_1pct_of_tolerance:%s:order%d" % (tag, order))
        obs.nontrivial = out.scale1 > 0 and P.cnt["bwd"] > 0
        return obs.result()

    if group == "fixed":
        p = conf[4]
        tag = "fixed:" + fb
        levels = []
        ts_l = P.ts
        stride = 1
        for lev in range(3):
            o_ = order if lev == 1 else 1       # second order on the middle grid only (cost)
            out = differentiate(obs, desc, P, conf, ts_l, cot_sel, stride, o_, cg, tag)
            if out.failed:
                obs.nontrivial = True
                return obs.result()
            levels.append(out)
            ts_l = refine(ts_l)
            stride *= 2
        reach(levels[0])
        path = "cg" if cg else "nocg"
        for k in levels[0].none_kinds:
            obs.check(False, "grad1_none:%s:fixed:%s" % (k, path), "gradient None for a leaf of kind %s that enters the solution" % k)
        e = [max(l.errs1.values()) for l in levels]
        obs.note(err_levels=e, errs_finest=levels[2].errs1, val_err=[l.val_err for l in levels])
        if p == 4:      # Euler (O(h) error of a few per cent on 129 points) is decided by the refinement test alone
            _check_errs(obs, levels[2].errs1, TOL_GRID4[0], "grad1:%%s:fixed:%s:%s" % (fb, path), "first-order gradient on the finest grid", worst)
        obs.count("refinement_tests")
        for a_, b_, nm in ((e[0], e[1], "01"), (e[1], e[2], "12")):
            okr = b_ <= max(FLOOR[p], RATIO[p] * a_)
            obs.check(okr, "refine1:fixed:%s:%s" % (fb, path),
                      "halving the steps reduced the gradient error only from %.3e to %.3e (order %d method)" % (a_, b_, p), errs=e)
        if order == 2 and levels[1].errs2 is not None:
            if p == 4:
                _check_errs(obs, levels[1].errs2, TOL_GRID4[1], "grad2:%%s:fixed:%s" % fb, "second-order gradient on the once-refined grid", worst)
            obs.count("second_order_compared")
            obs.note(errs2=levels[1].errs2)
        _check_unused(obs, desc, P, levels[1], "fixed")
        obs.note(worst_ratio=worst[0], rhs_calls=dict(P.cnt))
        if worst[0] > 1e-2:
            obs.count("error_above_1pct_of_tolerance:%s:order%d" % (tag, order))
        obs.nontrivial = levels[0].scale1 > 0 and P.cnt["bwd"] > 0
        return obs.result()
    raise HarnessBug("unknown group %s" % group)
