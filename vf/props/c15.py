"""C15 - SQuad integrates the interpolant of the samples exactly (reference-model monitor).

Every case builds one SQuad on a generated grid, calls the REAL cumsum / integrate for every way of naming the
integrated axis (positive and negative dim, keepdim on/off, a second axis of the same length where the shape has
one) and compares shapes and values with numpy.apply_along_axis of an independent 1-D reference (exact integral of
the piecewise-linear interpolant, of the Simpson parabolas, scipy CubicSpline.antiderivative)."""
import random

import numpy as np
import torch

from vf.common import Obs, sub_seed, HarnessBug
from vf import interp_ref as ir
from vf import c15_extra as cx

LEVEL = "exploration"
TECHNIQUE = ("runtime reference-model monitor: SQuad.cumsum/integrate on generated grids and tensor layouts vs "
             "numpy.apply_along_axis of independent 1-D references (scipy CubicSpline.antiderivative, exact parabola/"
             "trapezoid integrals), closed-form polynomial exactness, linearity and wrong-length rejection")
LEVEL_TEXT = ("Held on every generated case of the run: methods {trapz, simpson, cspline} x boundary conditions x grids "
              "(uniform/random/clustered/graded, 2-40 points) x y of rank 1-4 with the integrated axis at every position, "
              "named by its positive and its negative index, keepdim on/off, float64/float32.  Every returned tensor is "
              "compared (shape, dtype, values) with the 1-D reference applied along that axis.")
LEVEL_NOTE = ("Trusts scipy.interpolate.CubicSpline and numpy; tolerances are C*eps*(range*max|y|) with a grid-irregularity "
              "factor, C >= 100x the largest error seen on the repaired tree; adjacent spacing ratios <= e^3, max/min spacing <= 1e3.")
RULE = ("cases = seeded samples over method x bc_type x grid kind x nx in [2,40] x rank in [1,4] x axis position x "
        "twin-axis x dtype, plus the exhaustive (rank, axis) table for every method and the nx in {2,3,4,5} table for every "
        "method/bc; non-trivial = y has at least two distinct non-zero values along the integrated axis, every "
        "cumsum/integrate call of the case returned, and the value oracle was evaluated for every named axis")
RULE += ('; group big: stacks of 10^4..10^5 values, integrated axis anywhere')
RULE += ('; group mixdtype: samples of another dtype than the sample positions (float32 / float64 / int64 / int32), result = integral of the '
         'exact sample values in the promoted dtype')
RULE += ('; how the method is specified (every rand case draws one spelling: keyword / positional name, upper / title / alternating case, '
         'implementation class, and for the documented default cspline also omitted / None, each with the option set of the case; group '
         'method_spec: one request written in every spelling, compared with the reference of the REQUESTED boundary condition and with each other)')
MIN_NONTRIVIAL = {"quick": 900, "thorough": 9000}
ASSUMPTIONS = ["sample positions strictly increasing, 1-D, never requiring grad; x in [-3, 6], range 0.5-4",
               "adjacent spacing ratio <= e^3 (clustered), total max/min spacing <= 1e3",
               "y ~ N(0,1) entries (plus polynomial samples with coefficients in [-2,2]); periodic bc gets y[0]==y[-1] along the axis",
               "cspline needs nx >= 2 (not-a-knot on 2 / 3 points = straight line / parabola, scipy's convention)",
               "value tolerance: 2e3*eps*G*range*max|y| (G = 1 trapz, adj_ratio^2 simpson, adj_ratio cspline, incl. last/first spacing for periodic); float32 uses eps32",
               "y.numel() <= 4096",
               "mixdtype: x float64/float32, y of the other floating dtype or int64/int32 with |y| <= 9; tolerance with the eps of x's dtype",
               "method spellings: only documented behaviour is required - None / omitted means cspline, bc_type defaults to natural, a callable "
               "(the implementation class) is accepted; a name in upper / mixed case may be refused with RuntimeError, but if accepted it must "
               "select the named method with the given options"]
BUDGET = {"quick": {"worker_timeout": 600, "case_timeout": 60}, "thorough": {"worker_timeout": 2400, "case_timeout": 60}}
REQUIRED_COUNTERS = {
    "quick": {"big_stack_cases": 10, "method_trapz": 200, "method_simpson": 200, "method_cspline": 300, "axis_notlast_negdim": 200,
              "axis_notlast_posdim": 200, "rank1": 60, "rank4": 60, "keepdim_calls": 900, "wrong_length_rejected": 900,
              "spline_mat_built": 300, "simpson_weights_built": 200, "trapz_weights_built": 200, "odd_nx": 200, "even_nx": 200,
              "twin_axis_cases": 40, "bc_not-a-knot": 40, "bc_natural": 40, "bc_clamped": 40, "bc_periodic": 40, "bc_default": 40,
              "spec_name": 300, "spec_case": 100, "spec_class": 60, "spec_omitted": 30, "spec_none": 60, "method_spec_cases": 40,
              "defaulted_method_bc_default": 8, "defaulted_method_bc_natural": 8, "defaulted_method_bc_clamped": 8,
              "defaulted_method_bc_not-a-knot": 8, "defaulted_method_bc_periodic": 8, "spelling_agreement_checked": 250,
              "mixdtype_cases": 35, "mixdtype_cspline": 25, "mixdtype_y_int": 15, "mixdtype_y_finer": 7, "mixdtype_y_coarser": 7},
    "thorough": {"big_stack_cases": 80, "method_trapz": 2000, "method_simpson": 2000, "method_cspline": 3000, "axis_notlast_negdim": 2000,
                 "axis_notlast_posdim": 2000, "rank1": 600, "rank4": 600, "keepdim_calls": 9000, "wrong_length_rejected": 9000,
                 "spline_mat_built": 3000, "simpson_weights_built": 2000, "trapz_weights_built": 2000, "odd_nx": 2000,
                 "even_nx": 2000, "twin_axis_cases": 400, "bc_not-a-knot": 400, "bc_natural": 400, "bc_clamped": 400,
                 "bc_periodic": 400, "bc_default": 400,
                 "spec_name": 3000, "spec_case": 1000, "spec_class": 600, "spec_omitted": 300, "spec_none": 600, "method_spec_cases": 240,
                 "defaulted_method_bc_default": 80, "defaulted_method_bc_natural": 80, "defaulted_method_bc_clamped": 80,
                 "defaulted_method_bc_not-a-knot": 80, "defaulted_method_bc_periodic": 80, "spelling_agreement_checked": 1500,
                 "mixdtype_cases": 210, "mixdtype_cspline": 150, "mixdtype_y_int": 90, "mixdtype_y_finer": 42, "mixdtype_y_coarser": 42},
}

METHODS = ["trapz", "simpson", "cspline"]
BCS = ["default", "natural", "clamped", "not-a-knot", "periodic"]
C_TOL = 2.0e3


def cases(seed, tier):
    out = []
    N = 1400 if tier == "quick" else 16000
    for i in range(N):
        rng = random.Random(sub_seed(seed, "c15", i))
        d = {"group": "rand", "seed": sub_seed(seed, "c15s", i)}
        d["method"] = METHODS[i % 3] if rng.random() < 0.8 else "cspline"
        d["bc"] = rng.choice(BCS) if d["method"] == "cspline" else "-"
        d["nx"] = rng.choice([2, 3, 4, 5, 6, 7, 8, 9, 10, 11, 12, 13, 16, 17, 24, 25, 33, 40])
        d["grid"] = rng.choice(ir.GRID_KINDS)
        d["gridmod"] = rng.choice([None, None, None, None, "tiny", "jitter"])
        d["rank"] = rng.choice([1, 2, 2, 3, 3, 3, 4, 4])
        d["ax"] = rng.randrange(d["rank"])
        d["twin"] = int(d["rank"] >= 2 and d["nx"] <= 8 and rng.random() < 0.3)
        d["dtype"] = rng.choice(["float64", "float64", "float64", "float32"])
        d["noncontig"] = int(rng.random() < 0.25)
        # how the method is specified: a dimension of its own (separate stream, so that the other draws do not depend on it)
        rs = random.Random(sub_seed(seed, "c15spec_r", i))
        d["spec"] = "kw" if rs.random() < 0.4 else rs.choice(cx.spellings_for(d["method"])[1:])
        out.append(d)
    # exhaustive (rank, axis) table for every method / bc, odd and even nx
    k = 0
    for rank in (1, 2, 3, 4):
        for ax in range(rank):
            for method in METHODS:
                for bc in (BCS if method == "cspline" else ["-"]):
                    for nx in (6, 9):
                        out.append({"group": "rank_axis_table", "seed": sub_seed(seed, "c15t", k), "method": method, "bc": bc,
                                    "nx": nx, "grid": ir.GRID_KINDS[k % 4], "rank": rank, "ax": ax, "twin": 0,
                                    "dtype": "float64", "noncontig": 0})
                        k += 1
    # smallest grids for every method / bc
    k = 0
    for nx in (2, 3, 4, 5):
        for method in METHODS:
            for bc in (BCS if method == "cspline" else ["-"]):
                for rank, ax in ((1, 0), (2, 0), (3, 1)):
                    out.append({"group": "small_nx", "seed": sub_seed(seed, "c15n", k), "method": method, "bc": bc, "nx": nx,
                                "grid": ir.GRID_KINDS[k % 4], "rank": rank, "ax": ax, "twin": 0, "dtype": "float64",
                                "noncontig": 0})
                    k += 1
    # large stacks of curves (10^4 .. 10^5 values: beyond any internal chunking / temporary-size threshold), integrated axis anywhere
    k = 0
    for rep_ in range(1 if tier == "quick" else 8):
        for method in METHODS:
            for rank, ax in ((3, 0), (3, 1), (4, 1), (3, 2), (2, 0)):
                rng = random.Random(sub_seed(seed, "c15b", k))
                out.append({"group": "big", "seed": sub_seed(seed, "c15bs", k), "method": method, "bc": rng.choice(BCS) if method == "cspline" else "-",
                            "nx": rng.choice([17, 33, 40]), "grid": ir.GRID_KINDS[k % 4], "rank": rank, "ax": ax, "twin": 0, "dtype": "float64",
                            "noncontig": int(rng.random() < 0.3), "big": 1})
                k += 1
    out.extend(cx.spec_cases(seed, tier, sub_seed))
    out.extend(cx.mix_cases(seed, tier, sub_seed))
    return out


def _axis_class(rank, ax):
    if rank == 1:
        return "only"
    if ax == rank - 1:
        return "last"
    if ax == 0:
        return "first"
    return "mid"


def _shape_for(desc, rng):
    rank, ax, nx = desc["rank"], desc["ax"], desc["nx"]
    shape = [rng.choice([1, 2, 3, 4]) for _ in range(rank)]
    if desc.get("big"):
        per = {2: (1500, 2500), 3: (35, 55), 4: (11, 15)}[rank]
        shape = [rng.randint(*per) for _ in range(rank)]
        shape[ax] = nx
        return shape, None
    shape[ax] = nx
    twin_ax = None
    if desc["twin"]:
        others = [a for a in range(rank) if a != ax]
        twin_ax = rng.choice(others)
        shape[twin_ax] = nx
    # bound on the amount of data
    while int(np.prod(shape)) > 4096:
        cand = [a for a in range(rank) if a != ax and a != twin_ax and shape[a] > 1]
        if not cand:
            break
        shape[cand[0]] -= 1
    return shape, twin_ax


def _grid_factor(method, st, periodic=False):
    """how much the weights of the rule exceed the spacing: 1 for the trapezoid, (ratio of adjacent spacings)^2 for the
    Simpson parabolas, the ratio for the spline slopes (for the periodic spline the last and first spacing are adjacent)"""
    if method == "trapz":
        return 1.0
    if method == "simpson":
        return max(1.0, st["adj_ratio"]) ** 2
    r = max(1.0, st["adj_ratio"])
    if periodic:
        r = max(r, st["wrap_ratio"])
    return r


def run_case(desc):
    if desc["group"] == "method_spec":
        return cx.run_spec_case(desc)
    if desc["group"] == "mixdtype":
        return cx.run_mixdtype_case(desc)
    import xitorch  # noqa: F401
    from xitorch.integrate import SQuad
    import xitorch._impls.integrate.samples_quad as sqmod

    obs = Obs(desc)
    rng = random.Random(desc["seed"])
    method, bc, nx, rank, ax = desc["method"], desc["bc"], desc["nx"], desc["rank"], desc["ax"]
    f32 = desc["dtype"] == "float32"
    dt = torch.float32 if f32 else torch.float64
    eps = float(torch.finfo(dt).eps)
    xnp = ir.make_grid(desc["grid"], nx, rng, float32=f32)
    # scale / near-uniformity of the grid as dimensions of their own: positions in tiny units (spacings ~1e-9) and an almost
    # equidistant grid (relative jitter 1e-6): the rules must use the given positions, whatever their scale
    gm = desc.get("gridmod")
    if gm == "tiny" and not f32:
        xnp = xnp * 1e-9
    elif gm == "jitter" and not f32 and nx >= 3:
        base = np.linspace(xnp[0], xnp[-1], nx)
        h0 = base[1] - base[0]
        jit = np.array([rng.uniform(-1.0, 1.0) for _ in range(nx)]) * 1e-6 * h0
        jit[0] = jit[-1] = 0.0
        xnp = base + jit
    if gm in ("tiny", "jitter") and not f32:
        obs.count("gridmod_%s" % gm)
    st = ir.grid_stats(xnp)
    x = torch.tensor(xnp, dtype=dt)
    if not np.array_equal(x.double().numpy(), xnp):
        raise HarnessBug("grid not exactly representable in the working precision")
    shape, twin_ax = _shape_for(desc, rng)
    if desc.get("big"):
        obs.count("big_stack_cases")
    nprng = np.random.default_rng(desc["seed"])
    ynp = nprng.standard_normal(shape)
    if f32:
        ynp = ynp.astype(np.float32).astype(np.float64)
    bc_eff = None
    opts = {}
    if method == "cspline":
        bc_eff = "natural" if bc == "default" else bc        # documented default of CubicSplineSQuad
        if bc != "default":
            opts["bc_type"] = bc
        if bc_eff == "periodic":
            # the periodic spline is defined for periodic samples (along every axis that will be integrated)
            for a in [ax] + ([twin_ax] if twin_ax is not None else []):
                sl_last = [slice(None)] * rank
                sl_first = [slice(None)] * rank
                sl_last[a] = -1
                sl_first[a] = 0
                ynp[tuple(sl_last)] = ynp[tuple(sl_first)]
    y = torch.tensor(ynp, dtype=dt)
    if desc["noncontig"] and rank >= 2:
        # same values, different memory layout
        y = y.transpose(0, rank - 1).contiguous().transpose(0, rank - 1)
    obs.count("method_%s" % method)
    if method == "cspline":
        obs.count("bc_%s" % bc)
    obs.count("odd_nx" if nx % 2 else "even_nx")
    obs.count("rank%d" % rank)
    if twin_ax is not None:
        obs.count("twin_axis_cases")
    mtag = method if method != "cspline" else "cspline:%s" % bc
    spec = desc.get("spec", "kw")
    if spec != "kw":
        mtag += "@" + spec                      # the way the method was written is part of the configuration class
    ntag = "n%d" % nx if nx <= 3 else "n4+"

    # ---- reach counters on the weight builders (restored in finally)
    orig = {"spl": sqmod._get_spline_mat_inv, "tr": sqmod.get_trapz_weights, "si": sqmod.get_simpson_weights}
    built = {"spl": 0, "tr": 0, "si": 0}

    def wrap(key):
        def w(*a, **k):
            built[key] += 1
            return orig[key](*a, **k)
        return w
    sqmod._get_spline_mat_inv = wrap("spl")
    sqmod.get_trapz_weights = wrap("tr")
    sqmod.get_simpson_weights = wrap("si")
    try:
        try:
            sq = cx.build(SQuad, sqmod, x, method, spec, opts)
        except Exception as e:
            if spec in cx.CASE_SPELLINGS and isinstance(e, RuntimeError):
                obs.count("case_spelling_refused")      # letter case is not promised by the documentation
                return obs.result()
            obs.exc_violation("construct:%s:%s" % (mtag, ntag), e, nx=nx)
            obs.nontrivial = True
            return obs.result()
    finally:
        sqmod._get_spline_mat_inv = orig["spl"]
        sqmod.get_trapz_weights = orig["tr"]
        sqmod.get_simpson_weights = orig["si"]
    cx.count_spelling(obs, method, spec, bc)
    obs.count("spline_mat_built", built["spl"])
    if method == "trapz":
        obs.count("trapz_weights_built", built["tr"])
    if method == "simpson":
        obs.count("simpson_weights_built", built["si"])

    L = float(xnp[-1] - xnp[0])
    ymax = float(np.abs(ynp).max())
    tol = C_TOL * eps * _grid_factor(method, st, bc_eff == "periodic") * L * max(ymax, 1e-300)
    worst = 0.0
    all_returned = True
    n_value_checks = 0

    def ref_along(axis, arr):
        return np.apply_along_axis(lambda v: ir.ref_cumsum_1d(method, bc_eff, xnp, v), axis, arr)

    axes = [ax] + ([twin_ax] if twin_ax is not None else [])
    named = []
    for a in axes:
        named.append((a, a, "pos"))
        named.append((a, a - rank, "neg"))
    for a, dim, sign in named:
        acls = _axis_class(rank, a)
        last = "last" if a == rank - 1 else "notlast"
        obs.count("axis_%s_%sdim" % (last, sign))
        key = "%s:r%d:%s:%s" % (method, rank, acls, sign)
        ref_c = ref_along(a, ynp)
        ref_i = np.take(ref_c, -1, axis=a)
        # ------------------------------------------------------------ cumsum
        cum = None
        try:
            cum = sq.cumsum(y, dim=dim)
        except Exception as e:
            obs.exc_violation("cumsum:%s" % key, e, shape=shape, dim=dim)
            all_returned = False
        if cum is not None:
            okshape = obs.check(tuple(cum.shape) == tuple(shape), "shape:cumsum:%s" % key,
                                "cumsum of y%s along dim=%d returned shape %s" % (tuple(shape), dim, tuple(cum.shape)),
                                shape=shape, dim=dim)
            obs.check(cum.dtype == dt, "dtype:cumsum:%s" % method, "cumsum returned %s for %s samples" % (cum.dtype, dt))
            if okshape:
                cn = cum.detach().double().numpy()
                err = float(np.abs(cn - ref_c).max())
                worst = max(worst, err / tol)
                n_value_checks += 1
                obs.check(err <= tol, "value:cumsum:%s:%s" % (mtag, ntag),
                          "cumsum differs from the running integral of the interpolant by %.3e (tolerance %.3e)" % (err, tol),
                          shape=shape, dim=dim, grid=desc["grid"], adj_ratio=st["adj_ratio"], nx=nx)
                first = np.take(cn, 0, axis=a)
                obs.check(float(np.abs(first).max()) <= 10 * eps * L * ymax, "first_zero:%s" % mtag,
                          "first entry of cumsum is %.3e, not zero" % float(np.abs(first).max()), shape=shape, dim=dim)
        # ------------------------------------------------------------ integrate
        for kd in (False, True):
            want = list(shape)
            if kd:
                want[a] = 1
                obs.count("keepdim_calls")
            else:
                del want[a]
            res = None
            try:
                res = sq.integrate(y, dim=dim, keepdim=kd)
            except Exception as e:
                obs.exc_violation("integrate:%s:kd%d" % (key, int(kd)), e, shape=shape, dim=dim, keepdim=kd)
                all_returned = False
            if res is None:
                continue
            okshape = obs.check(tuple(res.shape) == tuple(want), "shape:integrate:%s:kd%d" % (key, int(kd)),
                                "integrate of y%s along dim=%d keepdim=%s returned shape %s, expected %s" % (
                                    tuple(shape), dim, kd, tuple(res.shape), tuple(want)), shape=shape, dim=dim, keepdim=kd)
            obs.check(res.dtype == dt, "dtype:integrate:%s" % method, "integrate returned %s for %s samples" % (res.dtype, dt))
            if not okshape:
                continue
            rn = res.detach().double().numpy()
            refk = np.expand_dims(ref_i, a) if kd else ref_i
            err = float(np.abs(rn - refk).max()) if rn.size else 0.0
            worst = max(worst, err / tol)
            n_value_checks += 1
            obs.check(err <= tol, "value:integrate:%s:%s" % (mtag, ntag),
                      "integrate differs from the integral of the interpolant by %.3e (tolerance %.3e)" % (err, tol),
                      shape=shape, dim=dim, keepdim=kd, grid=desc["grid"], adj_ratio=st["adj_ratio"], nx=nx)
            if cum is not None and tuple(cum.shape) == tuple(shape):
                lastc = np.take(cum.detach().double().numpy(), -1, axis=a)
                if kd:
                    lastc = np.expand_dims(lastc, a)
                e2 = float(np.abs(rn - lastc).max()) if rn.size else 0.0
                worst = max(worst, e2 / tol)
                obs.check(e2 <= 0.05 * tol, "last_eq_integrate:%s" % mtag,
                          "last entry of cumsum and integrate differ by %.3e" % e2, shape=shape, dim=dim, keepdim=kd)

    # ---------------------------------------------------------------- linearity and the weight matrix (main axis, default call)
    try:
        y1 = torch.tensor(np.moveaxis(ynp, ax, -1).reshape(-1, nx)[:3].copy(), dtype=dt)     # (<=3, nx)
        z1 = torch.tensor(nprng.standard_normal(tuple(y1.shape)), dtype=dt)
        if bc_eff == "periodic":
            z1[..., -1] = z1[..., 0]
        a_c, b_c = rng.uniform(-2, 2), rng.uniform(-2, 2)
        lhs_c = sq.cumsum(a_c * y1 + b_c * z1)
        rhs_c = a_c * sq.cumsum(y1) + b_c * sq.cumsum(z1)
        lhs_i = sq.integrate(a_c * y1 + b_c * z1)
        rhs_i = a_c * sq.integrate(y1) + b_c * sq.integrate(z1)
        sc = max(float(y1.abs().max()), float(z1.abs().max()), 1e-300) / max(ymax, 1e-300)
        e = max(float((lhs_c - rhs_c).abs().max()), float((lhs_i - rhs_i).abs().max()))
        worst = max(worst, e / (4 * tol * max(sc, 1.0)))
        obs.check(tuple(lhs_c.shape) == tuple(y1.shape) and e <= 4 * tol * max(sc, 1.0), "linear:%s" % mtag,
                  "cumsum/integrate not linear in y: |f(ay+bz) - a f(y) - b f(z)| = %.3e" % e, nx=nx)
        # weight matrix by integrating the unit vectors: row j = response to e_j
        W = sq.cumsum(torch.eye(nx, dtype=dt))                        # (nx, nx): W[j, k] = cumulative weight of y_j at x_k
        if tuple(W.shape) == (nx, nx) and tuple(lhs_c.shape) == tuple(y1.shape):
            viaW = torch.matmul(y1, W)
            e = float((viaW - sq.cumsum(y1)).abs().max())
            worst = max(worst, e / tol)
            obs.check(e <= tol * max(sc, 1.0), "weights:%s" % mtag,
                      "cumsum(y) differs from y @ W (W = cumsum of the unit vectors) by %.3e" % e, nx=nx)
            obs.count("weight_matrices_extracted")
        else:
            obs.check(False, "shape:cumsum:%s:r2:last:default" % method,
                      "cumsum of a (k,nx) tensor with the default dim returned shape %s / %s" % (tuple(lhs_c.shape), tuple(W.shape)))
        # ------------------------------------------------------------ closed-form exactness on polynomials
        deg = {"trapz": 1, "simpson": 2}.get(method)
        if method == "cspline":
            deg = {"natural": 1, "clamped": 0, "periodic": 0, "not-a-knot": min(3, nx - 1)}[bc_eff]
        coef = [rng.uniform(-2, 2) for _ in range(deg + 1)]
        xc = xnp - xnp[0]
        pol = sum(c * xc ** k for k, c in enumerate(coef))
        prim = sum(c * xc ** (k + 1) / (k + 1) for k, c in enumerate(coef))
        yp = torch.tensor(pol, dtype=dt)
        cp = sq.cumsum(yp).detach().double().numpy().reshape(-1)
        ip = float(sq.integrate(yp).reshape(-1)[0])
        if cp.shape == (nx,):
            mask = np.ones(nx, dtype=bool)
            if method == "simpson" and deg == 2 and nx > 1:
                mask[1] = False                          # the single first interval is the trapezoid (as cited)
            ptol = C_TOL * eps * _grid_factor(method, st, bc_eff == "periodic") * L * max(float(np.abs(pol).max()), 1e-300) * (4.0 if f32 else 1.0)
            e = float(np.abs(cp - prim)[mask].max())
            e = max(e, abs(ip - prim[-1]) if (nx != 2 or method != "simpson") else 0.0)
            worst = max(worst, e / ptol)
            obs.check(e <= ptol, "exact_poly:%s:%s" % (mtag, ntag),
                      "degree-%d polynomial not integrated exactly: error %.3e (tolerance %.3e)" % (deg, e, ptol),
                      nx=nx, grid=desc["grid"])
            obs.count("polynomial_exactness_checked")
    except Exception as e:
        obs.exc_violation("call:%s:default_dim" % mtag, e, nx=nx)
        all_returned = False

    # ---------------------------------------------------------------- wrong length must be rejected
    for Lbad, lcls in ((nx - 1, "minus1"), (nx + 1, "plus1"), (1, "one")):
        if Lbad < 1 or Lbad == nx:
            continue
        bshape = list(shape)
        bshape[ax] = Lbad
        if twin_ax is not None:
            bshape[twin_ax] = Lbad
        yb = torch.randn(*bshape, dtype=dt)
        for fname in ("cumsum", "integrate"):
            for dim in (ax, ax - rank):
                try:
                    r = getattr(sq, fname)(yb, dim=dim)
                    obs.check(False, "accepts_wrong_length:%s:%s:%s" % (fname, method, lcls),
                              "%s accepted y%s along dim=%d although x has %d points (returned shape %s)" % (
                                  fname, tuple(bshape), dim, nx, tuple(r.shape)))
                except Exception:
                    obs.check(True, "-", "-")
                    obs.count("wrong_length_rejected")

    obs.note(worst_err_over_tol=worst, adj_ratio=st["adj_ratio"], shape=shape, tol=tol)
    slab = np.moveaxis(ynp, ax, -1).reshape(-1, nx)
    varied = bool(np.any(np.abs(slab).max(axis=1) > 0) and np.any(slab.max(axis=1) > slab.min(axis=1)))
    obs.nontrivial = bool(varied and all_returned and n_value_checks >= 3 * len(named))
    return obs.result()
