"""C06 - gradients of eigenpairs and singular triplets are exact, incl. degeneracy.

Reference-model monitor.  Every case builds Hermitian A (and SPD M) with a *prescribed* generalised spectrum from leaf
tensors, calls the real xitorch.linalg.symeig / svd, and differentiates a gauge-invariant loss (one that only depends on
eigenvalues and on the projectors of complete groups of eigenvectors) with torch.autograd.grad.

* groups 'eig' / 'svd' (separated spectra): the same loss on torch.linalg.eigh (through a Cholesky reduction when M is
  given) / torch.linalg.svd of the dense matrix built from the same leaves; first and second order.
* groups 'eigdeg' / 'svddeg' (exactly repeated eigen/singular values, groups complete inside the selection): autograd of
  every dense decomposition is undefined there, so the reference is a five-point central finite difference (h = 1e-4,
  unit direction) of the independent forward along random directions of the leaves that BREAK the degeneracy.
* loss classes at exact degeneracy: 'group' / 'triplet' (sum of the group's values, projector / rank-one terms: must hold);
  'spectral' / 'proj' (eigenvalue-weighted group terms, one-sided singular projectors: structurally wrong in xitorch on every
  path - reported under their own mechanism keys, see known findings); suffix '_full' = the repeated value fills the space.
* a FORWARD that raises or is inaccurate is C05's subject and is skipped here (counted).
"""
import random
import sys

import torch

from vf.common import Obs, sub_seed, WarnLog, HarnessBug
from vf import gen

LEVEL = "exploration"
TECHNIQUE = ("runtime reference-model monitor: autograd gradients (1st and 2nd order) of gauge-invariant losses of symeig/svd "
             "outputs vs torch.linalg.eigh/svd on the same leaves; five-point finite differences of an independent forward along "
             "degeneracy-breaking directions at exactly repeated eigenvalues; counting spies on the implicit/dense backward paths")
LEVEL_TEXT = ("Held on every generated problem of the run: methods {exacteig, custom_exacteig, davidson, user callable} x {no M, M} x "
              "operator kinds {dense-wrapped, matrix-free mv-only, matrix-free with fullmatrix, two-parameter diag+low-rank} x "
              "neig<n and neig=n x lowest/uppest/uppermost x gaps {1, 0.1} and exact degeneracies (complete groups inside the "
              "selection, also batches mixing degenerate and split elements) x 7 batch patterns of A and M x {float64, complex128} x "
              "backward solver {default, exactsolve, cg, bicgstab} x first and second order (second order through a generic nonlinear loss, through "
              "losses linear in the eigen/singular values only, and through least-squares losses evaluated at zero residual); svd over tall/wide/square operators "
              "(dense, mv+rmv, all products, mv only). Bounds: n<=8 (n<=24 quick / 40 thorough for davidson), cond(M)<=6, "
              "|eigenvalues|<~8, singular values in [0.5, ~8].")
LEVEL_NOTE = ("Trusts torch.linalg.eigh/svd/cholesky and their autograd formulas away from degeneracy, and five-point central "
              "differences (h=1e-4, unit direction: truncation ~1e-12, round-off ~1e-10) at exact degeneracy. Tolerances are >=250x "
              "the largest error seen on the repaired tree over ~150k comparisons; 14 seeded breaks of the backward formulas miss "
              "them by >=1e3. A failing or inaccurate FORWARD is skipped (C05 decides it), a backward solve that warned is skipped.")
RULE = ("seeded sampling over group {eig, eigdeg, svd, svddeg} x method x M x operator kind x n x neig x mode x gap / multiplicity "
        "pattern x batch pattern x dtype x backward solver x loss class; non-trivial = the forward pairs agree with the reference, "
        "the reference gradient (or finite-difference derivative) of every compared leaf is non-zero, the backward path promised by "
        "the method was observed by the spies (implicit: >=1 shifted backward solve from symeig_torchfcn.backward; dense: "
        "degen_symeig.backward ran) and, for degenerate cases on the implicit path, the backward built a degeneracy map")
RULE += ('; second-order loss classes (descriptor key lossclass, groups eig and svd, separated spectra): linear = a linear functional of the eigen / '
         'singular values only (weights ones / gap / fixed / random: the cotangents entering the implicit backward are constants without a graph), '
         'stationary = 0.5*||q(e, X) - q.detach()||^2 (every cotangent exactly zero at the point), stat_evec / stat_eval = only the eigenvector / '
         'only the eigenvalue part stationary; a Hessian-vector product by double backward is compared with the same loss on torch.linalg.eigh / svd; '
         'non-trivial for class stationary = the reference Hessian-vector product is non-zero')
RULE += ('; group extra (vf/c06_extra.py): matrix-free A (3 tensors) and M (2 tensors) with requires-grad masks, one pair of operator objects re-assigned between two decompositions with one backward, one of the operators without tensor parameters')
MIN_NONTRIVIAL = {"quick": 2500, "thorough": 25000}
ASSUMPTIONS = [
    "generalised eigenvalues are prescribed (A = L Q diag(e) Q^H L^H, M = L L^H): neighbouring distinct values differ by >= gap in "
    "{1, 0.1}; exactly repeated values only in groups 'eigdeg'/'svddeg', where every repeated group lies completely inside or "
    "completely outside the selection; the two-parameter operator diag(d)+UU^H is skipped when it draws a gap < 0.08",
    "M = Q diag(m) Q^H with m in [1,6]; a batched M that A broadcasts over is a scalar multiple c in [0.6,1] of one matrix",
    "singular values >= 0.5 with the same gap rules (rank-deficient inputs are outside the generator)",
    "leaves are unconstrained matrices P with A = (P+P^H)/2 (M likewise), so gradients w.r.t. Hermitian matrices are unambiguous",
    "losses: sum of each complete group's eigenvalues, <W, X_g X_g^H>, a quartic in the projector; for separated spectra also "
    "<W2, X_g f(E_g) X_g^H>; svd: sum of s_g, <R, U_g S_g V_g^H>, a quartic in it; for separated values also U_g U_g^H, V_g V_g^H, "
    "U_g V_g^H. Loss classes 'spectral' (eigdeg) and 'proj' (svddeg) add the eigenvalue-weighted / one-sided terms at exact degeneracy",
    "second-order loss classes: linear losses sum_g w_g e_g (w = 1 | last-minus-first | 2/(1+g) | random), stationary losses 0.5*||q - q.detach()||^2 "
    "with q = (c_g e_g, X_g X_g^H, <W, X_g X_g^H>) (svd: c_g s_g, U_g S_g V_g^H, U_g V_g^H, U_g U_g^H, V_g V_g^H), mixed classes with the other part "
    "c e + e^2/4 resp. <W, P> + quartic; same tolerances as the generic second-order comparison (largest error/tolerance ratio seen 9e-7); a first-order "
    "gradient that comes back without a graph counts as a zero second derivative",
    "davidson: float64 only (the method transposes without conjugation), min_eps=1e-12, max_niter=1000",
    "iterative backward solvers are given rtol=1e-11, atol=1e-13, max_niter=40n+60; a backward that emits a ConvergenceWarning is "
    "not compared (it told the user)",
    "tolerances relative to max(|reference gradient|, 1e-2): first order 2e-6 (largest seen 1.5e-9), second order 5e-4 (largest seen "
    "2e-6: double backward through a direct solve of the singular shifted system), finite differences |<g,d>-FD| <= 2e-6*max(1,|FD|) "
    "(largest seen 8e-9); each widened to 1e8 * (forward residual / orthonormality error) because a gradient cannot be more accurate "
    "than the pairs it is evaluated at (davidson returns pairs accurate to ~1e-11 only); forward error > 1e-10 => skipped",
]
BUDGET = {"quick": {"worker_timeout": 900, "case_timeout": 120}, "thorough": {"worker_timeout": 3300, "case_timeout": 300}}
REQUIRED_COUNTERS = {
    "quick": {"lossclass_linear_second_compared": 120, "lossclass_linear_svd_second_compared": 30, "lossclass_stationary_second_compared": 60,
              "lossclass_stationary_svd_second_compared": 15, "lossclass_stat_evec_second_compared": 60, "lossclass_stat_evec_svd_second_compared": 12,
              "lossclass_stat_eval_second_compared": 60, "implicit_backward_constant_cotangents": 70, "implicit_backward_zero_evec_cotangent": 190,
              "implicit_backward_zero_eval_cotangent": 80, "zero_rhs_backward_solves": 190, "zero_rhs_direct_backward_solves": 100,
              "extra_first_order_compared": 100, "extra_first_M_param_frozen": 15, "extra_noparam_operator_compared": 15, "extra_repeated_backward_compared": 20, "implicit_backward_solves": 1500, "dense_backward_calls": 300, "degeneracy_maps_seen": 400, "bck_exactsolve": 800,
              "bck_cg": 500, "bck_bicgstab": 400, "davidson_calls": 400, "first_order_compared": 700, "second_order_compared": 500,
              "fd_directions_compared": 1500, "svd_cases_compared": 350, "with_M_compared": 400, "degenerate_level_at_zero": 150},
    "thorough": {"lossclass_linear_second_compared": 1200, "lossclass_linear_svd_second_compared": 300, "lossclass_stationary_second_compared": 600,
                 "lossclass_stationary_svd_second_compared": 150, "lossclass_stat_evec_second_compared": 600, "lossclass_stat_evec_svd_second_compared": 120,
                 "lossclass_stat_eval_second_compared": 600, "implicit_backward_constant_cotangents": 700, "implicit_backward_zero_evec_cotangent": 1900,
                 "implicit_backward_zero_eval_cotangent": 800, "zero_rhs_backward_solves": 1900, "zero_rhs_direct_backward_solves": 1000,
                 "extra_first_order_compared": 1000, "extra_first_M_param_frozen": 150, "extra_noparam_operator_compared": 150, "extra_repeated_backward_compared": 200, "implicit_backward_solves": 15000, "dense_backward_calls": 3000, "degeneracy_maps_seen": 4000, "bck_exactsolve": 8000,
                 "bck_cg": 5000, "bck_bicgstab": 4000, "davidson_calls": 4000, "first_order_compared": 7000,
                 "second_order_compared": 5000, "fd_directions_compared": 15000, "svd_cases_compared": 3500, "with_M_compared": 4000,
                 "degenerate_level_at_zero": 1500},
}

METHODS = ["exacteig", "custom_exacteig", "davidson", "custom_exacteig", "davidson", "callable"]
BATCHES = [((), ()), ((), ()), ((2,), ()), ((), (2,)), ((2,), (2,)), ((2, 1), (3,)), ((3,), (2, 1))]
BCK = ["default", "default", "exactsolve", "cg", "bicgstab"]
FD_H = 1e-4
# second-order loss classes (descriptor key "lossclass"; absent = the generic nonlinear loss of _eig_loss / _svd_loss)
METHODS2 = ["custom_exacteig", "davidson", "callable", "custom_exacteig", "davidson", "exacteig"]
LOSSCLASSES = ["linear", "stationary", "stat_evec", "linear", "stat_eval"]
LINKINDS = ["ones", "ones", "random", "gap", "fixed"]


# ------------------------------------------------------------------------------------------------ case lists
def cases(seed, tier):
    out = []
    N = {"quick": (1600, 1200, 700, 400), "thorough": (16000, 12000, 7000, 4000)}[tier]
    big = [12, 16, 24] if tier == "quick" else [12, 16, 24, 40]
    # ---- separated spectra, symeig
    for i in range(N[0]):
        rng = random.Random(sub_seed(seed, "c06e", i))
        d = {"group": "eig", "seed": sub_seed(seed, "c06es", i)}
        d["method"] = METHODS[i % len(METHODS)]
        d["M"] = bool((i // len(METHODS)) % 2)
        d["dtype"] = "complex128" if (d["method"] != "davidson" and rng.random() < 0.4) else "float64"
        d["n"] = rng.choice([2, 3, 4, 5, 6, 8])
        d["opkind"] = rng.choice(["dense", "mv", "full", "lowrank"])
        d["mkind"] = rng.choice(["dense", "mv", "full"])
        if d["method"] == "davidson" and rng.random() < 0.3:
            d["n"] = rng.choice(big)
        d["neig"] = rng.choice([None, d["n"]] + list(range(1, d["n"])) * 2) if d["n"] <= 8 else rng.choice([1, 2, 3])
        d["mode"] = rng.choice(["lowest", "uppest", "uppermost"])
        d["gap"] = rng.choice([1.0, 0.1])
        d["batch"] = rng.randrange(len(BATCHES)) if d["n"] <= 8 else rng.choice([0, 2])
        d["bck"] = rng.choice(BCK)
        d["order2"] = d["n"] <= 8
        out.append(d)
    # ---- exactly degenerate spectra, symeig (finite-difference oracle)
    for i in range(N[1]):
        rng = random.Random(sub_seed(seed, "c06d", i))
        d = {"group": "eigdeg", "seed": sub_seed(seed, "c06ds", i)}
        d["method"] = METHODS[i % len(METHODS)]
        d["M"] = bool((i // len(METHODS)) % 2)
        d["dtype"] = "complex128" if (d["method"] != "davidson" and rng.random() < 0.4) else "float64"
        d["n"] = rng.choice([3, 4, 5, 6, 8])
        d["opkind"] = rng.choice(["dense", "mv", "full"])
        d["mkind"] = rng.choice(["dense", "mv", "full"])
        if d["method"] == "davidson" and rng.random() < 0.2:
            d["n"] = rng.choice(big[:2])
        d["mult"] = _draw_mult(rng, d["n"])
        d["mode"] = rng.choice(["lowest", "uppest", "uppermost"])
        d["ngroups_sel"] = _draw_nsel(rng, d["mult"], d["mode"])
        d["gap"] = rng.choice([1.0, 0.1])
        d["batch"] = rng.randrange(len(BATCHES)) if d["n"] <= 8 else 0
        d["mixed"] = rng.random() < 0.25        # some batch elements have the groups split (same loss, no degeneracy there)
        d["bck"] = rng.choice(BCK)
        d["loss"] = "spectral" if rng.random() < 0.15 else "group"
        if i % 5 == 3:
            d["zero_level"] = True       # the first repeated group sits exactly at zero
        out.append(d)
    # ---- directed: one repeated eigenvalue fills the whole space (A = e M), every path and backward solver
    k = 0
    for n in (2, 3):
        for method in ("exacteig", "custom_exacteig", "davidson"):
            for withM in (False, True):
                for bck in (("default", "exactsolve", "cg") if tier == "quick" else ("default", "exactsolve", "cg", "bicgstab")):
                    out.append({"group": "eigdeg", "seed": sub_seed(seed, "c06f", k), "method": method, "M": withM,
                                "dtype": "float64" if (method == "davidson" or k % 2) else "complex128", "n": n, "opkind": "dense",
                                "mkind": "dense", "mult": [n], "mode": "lowest", "ngroups_sel": 1, "gap": 1.0, "batch": k % 3,
                                "mixed": False, "bck": bck, "loss": "group"})
                    k += 1
    # ---- separated singular values
    for i in range(N[2]):
        rng = random.Random(sub_seed(seed, "c06s", i))
        d = {"group": "svd", "seed": sub_seed(seed, "c06ss", i)}
        d["method"] = METHODS[i % len(METHODS)]
        d["dtype"] = "complex128" if (d["method"] != "davidson" and rng.random() < 0.4) else "float64"
        d["m"], d["n"] = rng.choice([(3, 3), (5, 3), (3, 5), (6, 4), (2, 6), (4, 4), (7, 2)])
        d["opkind"] = rng.choice(["dense", "mv_rmv", "all", "mv"])
        mn = min(d["m"], d["n"])
        d["k"] = rng.choice([None, mn] + list(range(1, mn)) * 2)
        d["mode"] = rng.choice(["lowest", "uppest", "uppermost"])
        d["gap"] = rng.choice([1.0, 0.1])
        d["batch"] = rng.choice([0, 0, 2, 5])
        d["bck"] = rng.choice(BCK)
        d["order2"] = True
        out.append(d)
    # ---- exactly repeated singular values
    for i in range(N[3]):
        rng = random.Random(sub_seed(seed, "c06t", i))
        d = {"group": "svddeg", "seed": sub_seed(seed, "c06ts", i)}
        d["method"] = METHODS[i % len(METHODS)]
        d["dtype"] = "complex128" if (d["method"] != "davidson" and rng.random() < 0.4) else "float64"
        d["m"], d["n"] = rng.choice([(3, 3), (5, 3), (3, 5), (6, 4), (4, 6), (4, 4)])
        d["opkind"] = rng.choice(["dense", "mv_rmv", "all"])
        mn = min(d["m"], d["n"])
        d["mult"] = _draw_mult(rng, mn)
        d["mode"] = rng.choice(["lowest", "uppest", "uppermost"])
        d["ngroups_sel"] = _draw_nsel(rng, d["mult"], d["mode"])
        d["gap"] = rng.choice([1.0, 0.1])
        d["batch"] = rng.choice([0, 0, 2])
        d["bck"] = rng.choice(BCK)
        d["loss"] = "proj" if rng.random() < 0.2 else "triplet"
        out.append(d)
    # ---- second-order loss classes (separated spectra): losses with CONSTANT cotangents (linear in the eigen/singular values only) and
    #      STATIONARY losses (0.5*||q - q.detach()||^2: cotangents that are exactly zero at the point of evaluation but carry a graph)
    NH = {"quick": (420, 160), "thorough": (4200, 1600)}[tier]
    for i in range(NH[0]):
        rng = random.Random(sub_seed(seed, "c06h", i))
        d = {"group": "eig", "seed": sub_seed(seed, "c06hs", i)}
        d["method"] = METHODS2[i % len(METHODS2)]
        d["lossclass"] = LOSSCLASSES[(i // len(METHODS2)) % len(LOSSCLASSES)]
        d["M"] = bool((i // (len(METHODS2) * len(LOSSCLASSES))) % 2)
        d["dtype"] = "complex128" if (d["method"] != "davidson" and rng.random() < 0.4) else "float64"
        d["n"] = rng.choice([2, 3, 4, 5, 6, 8])
        d["opkind"] = rng.choice(["dense", "mv", "full", "lowrank"])
        d["mkind"] = rng.choice(["dense", "mv", "full"])
        d["neig"] = rng.choice([None, d["n"]] + list(range(1, d["n"])) * 2)
        d["mode"] = rng.choice(["lowest", "uppest", "uppermost"])
        d["gap"] = rng.choice([1.0, 0.1])
        d["batch"] = rng.randrange(len(BATCHES))
        d["bck"] = rng.choice(BCK)
        d["lin"] = rng.choice(LINKINDS)
        d["order2"] = True
        out.append(d)
    for i in range(NH[1]):
        rng = random.Random(sub_seed(seed, "c06g", i))
        d = {"group": "svd", "seed": sub_seed(seed, "c06gs", i)}
        d["method"] = METHODS2[i % len(METHODS2)]
        d["lossclass"] = LOSSCLASSES[(i // len(METHODS2)) % len(LOSSCLASSES)]
        d["dtype"] = "complex128" if (d["method"] != "davidson" and rng.random() < 0.4) else "float64"
        d["m"], d["n"] = rng.choice([(3, 3), (5, 3), (3, 5), (6, 4), (2, 6), (4, 4), (7, 2)])
        d["opkind"] = rng.choice(["dense", "mv_rmv", "all", "mv"])
        mn = min(d["m"], d["n"])
        d["k"] = rng.choice([None, mn] + list(range(1, mn)) * 2)
        d["mode"] = rng.choice(["lowest", "uppest", "uppermost"])
        d["gap"] = rng.choice([1.0, 0.1])
        d["batch"] = rng.choice([0, 0, 2, 5])
        d["bck"] = rng.choice(BCK)
        d["lin"] = rng.choice(LINKINDS)
        d["order2"] = True
        out.append(d)
    from vf import c06_extra
    out.extend(c06_extra.cases(seed, tier))
    return out


def _draw_mult(rng, n):
    """multiplicities (ascending order of the values) summing to n with at least one group of size >= 2"""
    for _ in range(100):
        mult, left = [], n
        while left > 0:
            m = min(left, rng.choice([1, 1, 2, 2, 3]))
            mult.append(m)
            left -= m
        if max(mult) >= 2:
            return mult
    return [2] + [1] * (n - 2)


def _draw_nsel(rng, mult, mode):
    """number of complete groups taken from the requested end such that a repeated group is among them"""
    order = mult if mode == "lowest" else mult[::-1]
    first = next(i for i, m in enumerate(order) if m >= 2) + 1
    return rng.randrange(first, len(mult) + 1)


# ------------------------------------------------------------------------------------------------ helpers
def _H(x):
    return x.transpose(-2, -1).conj()


def _sym(x):
    return 0.5 * (x + _H(x))


def _nb(batch):
    k = 1
    for b in batch:
        k *= b
    return k


zero_levels = [0]     # reach counter: prescribed spectra with a repeated group exactly at zero (reset per case)


def _values(rng, mult, gap, lo=-3.0, zero=False):
    """ascending values, one per group, neighbouring groups separated by gap*(1..2.5), repeated by multiplicity;
    zero=True shifts the spectrum so that the first repeated group sits exactly at 0 (a degenerate level at zero: LAPACK returns
    copies differing by ~1e-17 there, which only an absolute degeneracy threshold recognises)"""
    vals, v = [], lo + rng.uniform(0, 1.0)
    shift = None
    for m in mult:
        if zero and shift is None and m >= 2:
            shift = v
        vals += [v] * m
        v += gap * rng.uniform(1.0, 2.5)
    if shift is not None:
        vals = [x - shift for x in vals]
    return vals


def _unitary(n, dt, tgen):
    q, _ = torch.linalg.qr(torch.randn(n, n, dtype=dt, generator=tgen))
    return q


def _make_op(kind, mat, counter):
    if kind == "dense":
        return gen.leaf_operator("dense_herm", mat)
    if kind == "mv":
        return gen.leaf_operator("herm_mv", mat, counter)
    if kind == "full":
        return gen.leaf_operator("herm_all", mat, counter)
    raise HarnessBug("operator kind %s" % kind)


def _ref_eig(A, M, idx):
    """independent dense reference: eigenpairs idx of A x = e M x (M-normalised), via Cholesky reduction + torch.linalg.eigh"""
    if M is None:
        e, V = torch.linalg.eigh(_sym(A))
    else:
        L = torch.linalg.cholesky(_sym(M))
        bs = torch.broadcast_shapes(A.shape[:-2], L.shape[:-2])
        Lb = L.expand(*bs, *L.shape[-2:])
        Y = torch.linalg.solve_triangular(Lb, A.expand(*bs, *A.shape[-2:]), upper=False)          # L^-1 A
        C = _H(torch.linalg.solve_triangular(Lb, _H(Y), upper=False))                             # L^-1 A L^-H
        e, W = torch.linalg.eigh(_sym(C))
        V = torch.linalg.solve_triangular(_H(Lb), W, upper=True)
    return e[..., idx], V[..., idx]


def _ref_svd(A, idx):
    U, S, Vh = torch.linalg.svd(A, full_matrices=False)
    U, S, Vh = U.flip(-1), S.flip(-1), Vh.flip(-2)        # ascending, like the eigenvalues of A^H A
    return U[..., idx], S[..., idx], Vh[..., idx, :]


def _cotangents(groups, bs, n1, n2, dt, tgen, svd):
    """random seeded tensors defining the loss; one set per group of indices"""
    rdt = torch.float64
    cot = []
    for g in groups:
        bs = tuple(bs)
        c = {"c": torch.randn(bs, dtype=rdt, generator=tgen),
             "W": torch.randn(bs + (n1, n1), dtype=dt, generator=tgen),
             "Q": torch.randn(bs + (n1, n1), dtype=rdt, generator=tgen)}
        if svd:
            c["R"] = torch.randn(bs + (n1, n2), dtype=dt, generator=tgen)
            c["W2"] = torch.randn(bs + (n2, n2), dtype=dt, generator=tgen)
            c["Q"] = torch.randn(bs + (n1, n2), dtype=rdt, generator=tgen) * 0.2
            c["Q2"] = torch.randn(bs + (n1, n2), dtype=rdt, generator=tgen)
        else:
            c["W2"] = torch.randn(bs + (n1, n1), dtype=dt, generator=tgen)
        cot.append(c)
    return cot


def _eig_loss(e, X, groups, cot, spectral=False):
    """depends on the sum of the eigenvalues and on the projector X_g X_g^H of every complete group only;
    spectral=True adds tr(W2 X_g f(E_g) X_g^H), f(e) = e + e^2/4: also independent of the basis inside a degenerate group,
    but it weights the members of a group by their individual eigenvalues"""
    tot = 0.0
    for g, c in zip(groups, cot):
        Xg = X[..., g]
        P = torch.matmul(Xg, _H(Xg))
        tot = tot + (c["c"] * e[..., g].sum(-1)).sum()
        tot = tot + (c["W"] * P).sum().real
        tot = tot + 0.5 * (c["Q"] * (P.real ** 2 + (P.imag ** 2 if P.is_complex() else 0.0))).sum()
        if spectral:
            eg = e[..., g]
            fe = (eg + 0.25 * eg * eg).unsqueeze(-2).to(Xg.dtype)
            tot = tot + (c["W2"] * torch.matmul(Xg * fe, _H(Xg))).sum().real
    return tot


def _svd_loss(U, S, Vh, groups, cot, proj=True):
    """depends on sum(s_g) and on the rank-one terms T_g = U_g diag(s_g) V_g^H of complete groups;
    proj=True adds the one-sided projectors U_g U_g^H, V_g V_g^H and the polar term U_g V_g^H (also basis-independent
    inside a group of equal singular values)"""
    tot = 0.0
    for g, c in zip(groups, cot):
        Ug, Sg, Vhg = U[..., g], S[..., g], Vh[..., g, :]
        T = torch.matmul(Ug * Sg.unsqueeze(-2).to(Ug.dtype), Vhg)
        tot = tot + (c["c"] * Sg.sum(-1)).sum()
        tot = tot + (c["R"].conj() * T).sum().real
        tot = tot + 0.5 * (c["Q"] * (T.real ** 2 + (T.imag ** 2 if T.is_complex() else 0.0))).sum()
        if proj:
            K = torch.matmul(Ug, Vhg)
            tot = tot + (c["W"] * torch.matmul(Ug, _H(Ug))).sum().real
            tot = tot + (c["W2"] * torch.matmul(_H(Vhg), Vhg)).sum().real
            tot = tot + 0.5 * (c["Q2"] * (K.real ** 2 + (K.imag ** 2 if K.is_complex() else 0.0))).sum()
    return tot


def _lin_weight(kind, gi, ngroups, c):
    """weights of a loss that is LINEAR in the (sums of the groups') eigenvalues / singular values only"""
    if kind == "ones":          # sum of the k requested values (band energy, Ky-Fan / nuclear norm)
        return 1.0
    if kind == "gap":           # last minus first of the selection (a gap); a single value when k = 1
        if ngroups == 1:
            return 1.0
        return 1.0 if gi == ngroups - 1 else (-1.0 if gi == 0 else 0.0)
    if kind == "fixed":         # a fixed linear combination (occupation numbers)
        return 2.0 / (1.0 + gi)
    return c["c"]               # random weights per group and batch element


def _abs2(z):
    return z.real ** 2 + z.imag ** 2 if z.is_complex() else z ** 2


def _stat(q):
    """0.5*||q - q.detach()||^2: value zero, first derivative w.r.t. q EXACTLY zero (a tensor of zeros that carries a graph),
    second derivative the identity (Gauss-Newton / synthetic-data fit evaluated at its own optimum)"""
    return 0.5 * _abs2(q - q.detach()).sum()


def _eig_loss2(e, X, groups, cot, lc, lin):
    """second-order loss classes, separated spectra:
    linear     - sum_g w_g e_g: the cotangents entering the backward are constants (no graph), the eigenvector cotangent is zero;
    stationary - 0.5||q(e, X) - const||^2 with const = q at the same point, q = (c_g e_g, X_g X_g^H, <W, X_g X_g^H>);
    stat_evec  - eigenvector part stationary (exactly zero cotangent), eigenvalue part c e + e^2/4 (non-zero cotangent);
    stat_eval  - eigenvalue part stationary, eigenvector part <W, P> + quartic (non-zero cotangent)"""
    tot = 0.0
    for gi, (g, c) in enumerate(zip(groups, cot)):
        eg = e[..., g].sum(-1)
        if lc == "linear":
            tot = tot + (_lin_weight(lin, gi, len(groups), c) * eg).sum()
            continue
        Xg = X[..., g]
        P = torch.matmul(Xg, _H(Xg))
        if lc in ("stationary", "stat_eval"):
            tot = tot + _stat(c["c"] * eg)
        else:
            tot = tot + (c["c"] * eg).sum() + 0.25 * (eg * eg).sum()
        if lc in ("stationary", "stat_evec"):
            tot = tot + _stat(P) + _stat((c["W"] * P).sum((-2, -1)).real)
        else:
            tot = tot + (c["W"] * P).sum().real + 0.5 * (c["Q"] * _abs2(P)).sum()
    return tot


def _svd_loss2(U, S, Vh, groups, cot, lc, lin):
    """the same classes for singular triplets: values s_g, vector quantities U_g V_g^H, U_g U_g^H, V_g V_g^H (no dependence on s),
    and for 'stationary' also the rank-one term U_g S_g V_g^H"""
    tot = 0.0
    for gi, (g, c) in enumerate(zip(groups, cot)):
        Sg = S[..., g]
        sg = Sg.sum(-1)
        if lc == "linear":
            tot = tot + (_lin_weight(lin, gi, len(groups), c) * sg).sum()
            continue
        Ug, Vhg = U[..., g], Vh[..., g, :]
        K = torch.matmul(Ug, Vhg)
        PU = torch.matmul(Ug, _H(Ug))
        PV = torch.matmul(_H(Vhg), Vhg)
        if lc in ("stationary", "stat_eval"):
            tot = tot + _stat(c["c"] * sg)
        else:
            tot = tot + (c["c"] * sg).sum() + 0.25 * (sg * sg).sum()
        if lc == "stationary":
            T = torch.matmul(Ug * Sg.unsqueeze(-2).to(Ug.dtype), Vhg)
            tot = tot + _stat(T) + _stat(K)
        elif lc == "stat_evec":
            tot = tot + _stat(K) + _stat(PU) + _stat(PV)
        else:
            tot = tot + (c["W"] * PU).sum().real + (c["W2"] * PV).sum().real + 0.5 * (c["Q2"] * _abs2(K)).sum()
    return tot


def _inner(g, d):
    """directional derivative of a real loss with torch's gradient convention: Re sum conj(g) d"""
    return float((g.conj() * d).sum().real)


def _relerr(g, r):
    return float((g - r).abs().max()) / max(float(r.abs().max()), 1e-2)


class _Spies:
    """Counting wrappers on internals (looked up by name at call time inside xitorch); removed in __exit__."""

    def __init__(self, obs):
        self.obs = obs
        self.saved = []
        self.n = {"solve": 0, "degmap": 0, "dense_bwd": 0, "exactsolve": 0, "cg": 0, "bicgstab": 0, "davidson": 0, "ortho_D": 0,
                  "zero_rhs": 0, "zero_rhs_direct": 0, "bwd_graph": 0, "cot_const": 0, "cot_evec_zero": 0, "cot_eval_zero": 0}

    def _patch(self, holder, name, new):
        self.saved.append((holder, name, holder.__dict__[name] if isinstance(holder, type) else getattr(holder, name)))
        setattr(holder, name, new)

    def __enter__(self):
        import xitorch.linalg  # noqa
        symmod = sys.modules["xitorch.linalg.symeig"]
        solvemod = sys.modules["xitorch.linalg.solve"]
        implmod = sys.modules["xitorch._impls.linalg.symeig"]
        n = self.n

        def wrap(fn, key, post=None):
            def w(*a, **k):
                n[key] += 1
                r = fn(*a, **k)
                if post is not None:
                    post(r)
                return r
            w.__wrapped__ = fn
            return w

        orig_solve = symmod.solve

        def solve_w(A, B, *a, **k):
            # the shifted backward solve of symeig_torchfcn.backward; inside a differentiable (create_graph) pass an exactly zero
            # right-hand side is recorded together with the solver that received it
            n["solve"] += 1
            zero = torch.is_grad_enabled() and isinstance(B, torch.Tensor) and bool((B == 0).all())
            before = n["exactsolve"]
            r = orig_solve(A, B, *a, **k)
            if zero:
                n["zero_rhs"] += 1
                if n["exactsolve"] > before:
                    n["zero_rhs_direct"] += 1
            return r
        solve_w.__wrapped__ = orig_solve
        self._patch(symmod, "solve", solve_w)
        orig_ibwd = symmod.symeig_torchfcn.__dict__["backward"]
        ifn = orig_ibwd.__func__ if isinstance(orig_ibwd, staticmethod) else orig_ibwd

        def ibwd(ctx, grad_evals, grad_evecs):
            # what the implicit backward receives inside a differentiable pass: constant cotangents (no graph), exactly zero ones
            if torch.is_grad_enabled() and isinstance(grad_evals, torch.Tensor) and isinstance(grad_evecs, torch.Tensor):
                n["bwd_graph"] += 1
                if not (grad_evals.requires_grad or grad_evecs.requires_grad):
                    n["cot_const"] += 1
                if bool((grad_evecs == 0).all()):
                    n["cot_evec_zero"] += 1
                if bool((grad_evals == 0).all()):
                    n["cot_eval_zero"] += 1
            return ifn(ctx, grad_evals, grad_evecs)
        ibwd.__wrapped__ = ifn
        self._patch(symmod.symeig_torchfcn, "backward", staticmethod(ibwd))

        def post_degen(r):
            if r[1]:
                n["degmap"] += 1
        n["_cd"] = 0
        self._patch(symmod, "_check_degen", wrap(symmod._check_degen, "_cd", post_degen))
        self._patch(symmod, "davidson", wrap(symmod.davidson, "davidson"))
        for nm in ("exactsolve", "cg", "bicgstab"):
            self._patch(solvemod, nm, wrap(getattr(solvemod, nm), nm))
        orig_bwd = implmod.degen_symeig.__dict__["backward"]
        fn = orig_bwd.__func__ if isinstance(orig_bwd, staticmethod) else orig_bwd
        self._patch(implmod.degen_symeig, "backward", staticmethod(wrap(fn, "dense_bwd")))
        return self

    def __exit__(self, *a):
        for holder, name, old in reversed(self.saved):
            setattr(holder, name, old)
        self.saved = []
        o, n = self.obs, self.n
        o.count("implicit_backward_solves", n["solve"])
        o.count("degeneracy_maps_seen", n["degmap"])
        o.count("dense_backward_calls", n["dense_bwd"])
        o.count("bck_exactsolve", n["exactsolve"])
        o.count("bck_cg", n["cg"])
        o.count("bck_bicgstab", n["bicgstab"])
        o.count("davidson_calls", n["davidson"])
        o.count("implicit_backward_constant_cotangents", n["cot_const"])
        o.count("implicit_backward_zero_evec_cotangent", n["cot_evec_zero"])
        o.count("implicit_backward_zero_eval_cotangent", n["cot_eval_zero"])
        o.count("zero_rhs_backward_solves", n["zero_rhs"])
        o.count("zero_rhs_direct_backward_solves", n["zero_rhs_direct"])
        return False


def _bck_options(bck, n):
    opts = {"rtol": 1e-11, "atol": 1e-13, "max_niter": 40 * n + 60}
    if bck == "default":
        return opts
    if bck == "exactsolve":
        return {"method": "exactsolve"}
    opts["method"] = bck
    return opts


def _method_arg(method):
    if method == "callable":
        implmod = sys.modules["xitorch._impls.linalg.symeig"]

        def my_eig(A, neig, mode, M=None, **unused):
            return implmod.exacteig(A, neig, mode, M)
        return my_eig, {}
    if method == "davidson":
        return "davidson", {"min_eps": 1e-12, "max_niter": 1000}
    return method, {}


def _sel(n, k, mode):
    return list(range(k)) if mode == "lowest" else list(range(n - k, n))


# ------------------------------------------------------------------------------------------------ problem builders
def _build_eig(desc, rng, tgen):
    """leaves and a function leaves -> (A, M) dense; prescribed generalised spectrum"""
    dt = gen.rdtype(desc["dtype"])
    n = desc["n"]
    BA, BM = BATCHES[desc["batch"]]
    withM = desc["M"]
    if not withM:
        BM = ()
    bs = gen.bshape(BA, BM)
    degen = desc["group"] == "eigdeg"
    mult = desc["mult"] if degen else [1] * n
    # ---- M
    Ms, M0 = None, None
    independent = withM and (BM == () or BM == BA)
    if withM:
        def one_M():
            q = _unitary(n, dt, tgen)
            mv = ([1.0, rng.uniform(2.0, 6.0)] + [rng.uniform(1.0, 6.0) for _ in range(n)])[:n]
            return _sym(torch.matmul(q * torch.tensor(mv, dtype=torch.float64).to(dt), _H(q)))
        if independent:
            Ms = torch.stack([one_M() for _ in range(_nb(BM))]).reshape(*BM, n, n) if BM else one_M()
        else:
            # A broadcasts over M's batch: every M_b is a scalar multiple (<= 1, so gaps only grow) of one matrix
            M0 = one_M()
            scal = torch.tensor([rng.uniform(0.6, 1.0) for _ in range(_nb(BM))], dtype=torch.float64).reshape(*BM, 1, 1).to(dt)
            Ms = scal * M0
    # ---- A (one per element of BA), generalised eigenvalues prescribed
    mats = []
    lowrank = desc.get("opkind") == "lowrank" and not degen
    for b in range(_nb(BA)):
        m_b = mult
        if degen and desc.get("mixed") and b % 2 == 1:
            m_b = [1] * n          # this batch element has the same index groups, but separated values
        vals = _values(rng, m_b, desc["gap"], zero=bool(desc.get("zero_level")))
        if desc.get("zero_level") and any(x == 0.0 for x in vals):
            zero_levels[0] += 1
        s = torch.tensor(vals, dtype=torch.float64).to(dt)
        q = _unitary(n, dt, tgen)
        C = torch.matmul(q * s, _H(q))
        if withM:
            if not independent:
                Mb = M0
            elif BM == ():
                Mb = Ms
            else:
                Mb = Ms.reshape(-1, n, n)[b]
            L = torch.linalg.cholesky(Mb)
            C = torch.matmul(L, torch.matmul(C, _H(L)))
        mats.append(_sym(C))
    A0 = torch.stack(mats).reshape(*BA, n, n) if BA else mats[0]
    leaves = {}
    if lowrank:
        # two-parameter matrix-free operator diag(d) + U U^H: spectrum is not prescribed, the gap is checked below
        r = max(1, n // 2)
        leaves["d"] = (torch.randn(*BA, n, dtype=torch.float64, generator=tgen) * 2.0).to(dt).requires_grad_()
        leaves["U"] = torch.randn(*BA, n, r, dtype=dt, generator=tgen).requires_grad_()
    else:
        leaves["PA"] = A0.clone().requires_grad_()
    if withM:
        leaves["PM"] = Ms.clone().requires_grad_()

    def dense(lv):
        if lowrank:
            dd = lv["d"].real.to(dt) if dt.is_complex else lv["d"]
            A = torch.diag_embed(dd) + torch.matmul(lv["U"], _H(lv["U"]))
        else:
            A = _sym(lv["PA"])
        M = _sym(lv["PM"]) if withM else None
        return A, M
    return leaves, dense, bs, mult, lowrank


def _eig_groups(desc, n, mult):
    """selected index list (into the ascending spectrum) and the groups as positions inside the selection"""
    if desc["group"] == "eig":
        k = desc["neig"] if desc["neig"] is not None else n
        idx = _sel(n, k, "lowest" if desc["mode"] == "lowest" else "uppest")
        return k, idx, [[i] for i in range(k)]
    ng = desc["ngroups_sel"]
    if desc["mode"] == "lowest":
        chosen = mult[:ng]
        k = sum(chosen)
        idx = list(range(k))
    else:
        chosen = mult[len(mult) - ng:]
        k = sum(chosen)
        idx = list(range(n - k, n))
    groups, pos = [], 0
    for m in chosen:
        groups.append(list(range(pos, pos + m)))
        pos += m
    return k, idx, groups


# ------------------------------------------------------------------------------------------------ the monitored runs
def run_case(desc):
    import xitorch.linalg  # noqa
    if desc.get("group") == "extra":
        from vf import c06_extra
        return c06_extra.run_case(desc)
    obs = Obs(desc)
    zero_levels[0] = 0
    if desc["group"] in ("eig", "eigdeg"):
        _run_eig(desc, obs)
    else:
        _run_svd(desc, obs)
    if zero_levels[0] and not obs.skipped:
        obs.count("degenerate_level_at_zero", zero_levels[0])
    return obs.result()


def _mech(desc, what):
    path = "dense" if desc["method"] == "exacteig" else "implicit"
    if desc["group"] in ("eig", "eigdeg"):
        cfg = "%s:%s:%s:%s" % (path, desc["method"], "M" if desc["M"] else "noM", desc["bck"] if path == "implicit" else "-")
    else:
        cfg = "%s:%s:svd:%s" % (path, desc["method"], desc["bck"] if path == "implicit" else "-")
    if desc["group"] in ("eigdeg", "svddeg"):
        # "_full": one repeated value fills the whole space (A = e M, or A^H A = s^2 I): A - e M is the zero matrix
        cfg += ":" + desc.get("loss", "-") + ("_full" if len(desc["mult"]) == 1 else "")
    if desc.get("lossclass"):
        cfg += ":" + desc["lossclass"]
    return "%s:%s:%s" % (desc["group"], what, cfg)


TOL1, TOL2, TOLFD = 2e-6, 5e-4, 2e-6
FWD_AMPL = 1e8          # a gradient cannot be more accurate than the forward pairs it is evaluated at
FWD_Q_MAX = 1e-10


def _tols(fwd_q):
    """(first order, second order, finite difference) tolerances, widened by the measured inaccuracy of the forward pairs"""
    return max(TOL1, FWD_AMPL * fwd_q), max(TOL2, 10 * FWD_AMPL * fwd_q), max(TOLFD, FWD_AMPL * fwd_q)


def _run_eig(desc, obs):
    from xitorch.linalg import symeig
    rng = random.Random(desc["seed"])
    tgen = torch.Generator().manual_seed(desc["seed"])
    n = desc["n"]
    degen = desc["group"] == "eigdeg"
    leaves, dense, bs, mult, lowrank = _build_eig(desc, rng, tgen)
    k, idx, groups = _eig_groups(desc, n, mult)
    withM = desc["M"]
    # ---- bounds of the generator: check the realised gaps of the dense pencil (redraw is not needed for prescribed spectra)
    with torch.no_grad():
        A_, M_ = dense(leaves)
        e_all, _ = _ref_eig(A_, M_, list(range(n)))
        gaps = (e_all[..., 1:] - e_all[..., :-1])
        if not degen:
            mingap = float(gaps.min()) if n > 1 else 9.0
            if mingap < 0.08:
                if lowrank:
                    obs.skip("lowrank operator drew a gap < 0.08 (outside the generator bounds)")
                    obs.count("skipped_small_gap")
                    return
                raise HarnessBug("prescribed spectrum has gap %.3e" % mingap)
    cot = _cotangents(groups, bs, n, n, gen.rdtype(desc["dtype"]), tgen, svd=False)
    names = list(leaves)
    lv = [leaves[nm] for nm in names]
    method, fwd = _method_arg(desc["method"])
    bck = _bck_options(desc["bck"], n)
    counter = {}
    spectral = (not degen) or desc.get("loss") == "spectral"
    lc = desc.get("lossclass")
    if lc and degen:
        raise HarnessBug("loss classes are generated for separated spectra only")

    def lossfn(e_, X_):
        if lc:
            return _eig_loss2(e_, X_, groups, cot, lc, desc["lin"])
        return _eig_loss(e_, X_, groups, cot, spectral)

    def xi_forward():
        A, M = dense(leaves)
        if lowrank:
            Aop = gen.LowRankOp.make(leaves["d"].real.to(A.dtype) if A.is_complex() else leaves["d"], leaves["U"], True, False)
        else:
            Aop = _make_op(desc["opkind"], A, counter)
        Mop = _make_op(desc["mkind"], M, counter) if withM else None
        kw = dict(fwd)
        if desc["method"] != "exacteig":
            kw["bck_options"] = bck
        neig = k if not (desc["group"] == "eig" and desc["neig"] is None) else None
        e, X = symeig(Aop, neig=neig, mode=desc["mode"], M=Mop, method=method, **kw)
        return e, X

    with _Spies(obs) as sp, WarnLog() as wl:
        try:
            e, X = xi_forward()
        except Exception as ex:
            # a failing FORWARD is C05's subject (the requested pairs are returned); there is no gradient to decide here
            if isinstance(ex, HarnessBug):
                raise
            _forward_raised(obs, ex)
            return
        try:
            want = tuple(bs) + (k,)
            if tuple(e.shape) != want or tuple(X.shape) != tuple(bs) + (n, k):
                obs.check(False, _mech(desc, "shape"), "symeig returned shapes %s %s, expected %s" % (tuple(e.shape), tuple(X.shape), want))
                obs.nontrivial = True
                return
            loss = lossfn(e, X)
            g1 = torch.autograd.grad(loss, lv, create_graph=bool(desc.get("order2")), allow_unused=True)
        except Exception as ex:          # the property says these gradients exist
            if isinstance(ex, HarnessBug):
                raise
            obs.exc_violation(_mech(desc, "first"), ex)
            obs.nontrivial = True
            return
        warned1 = bool(wl.convergence)
        # ---- reference, first order
        A, M = dense(leaves)
        er, Xr = _ref_eig(A, M, idx)
        fwd_err = float((e.detach() - er.detach()).abs().max())
        with torch.no_grad():
            Xd = X.detach()
            MX = torch.matmul(M, Xd) if M is not None else Xd
            q_res = float((torch.matmul(A, Xd) - MX * e.detach().unsqueeze(-2)).abs().max())
            q_ort = float((torch.matmul(_H(Xd), MX) - torch.eye(k, dtype=Xd.dtype)).abs().max())
        fwd_q = max(q_res, q_ort)
        obs.note(forward_eigenvalue_error=fwd_err, forward_quality=fwd_q, k=k, groups=groups, batch=list(bs))
        if fwd_err > 1e-6 or fwd_q > FWD_Q_MAX:
            # the forward itself is wrong / not accurate enough: C05's business; the gradient comparison would be meaningless
            obs.skip("forward pairs too inaccurate for a gradient comparison (C05 decides the forward)")
            obs.count("skipped_forward_inaccurate")
            return
        tol1, tol2, tolfd = _tols(fwd_q)
        if warned1:
            obs.skip("backward solve emitted a ConvergenceWarning")
            obs.count("skipped_backward_warned")
            return
        if any(g is None for g in g1):
            miss = [nm for nm, g in zip(names, g1) if g is None]
            obs.check(False, _mech(desc, "first:none"), "no gradient reached leaves %s" % miss)
            obs.nontrivial = True
            return
        finite = all(bool(torch.isfinite(g).all()) for g in g1)
        obs.check(finite, _mech(desc, "first:finite"), "first-order gradient contains nan/inf")
        if not finite:
            obs.nontrivial = True
            return
        ok_reach = (sp.n["solve"] >= 1) if desc["method"] != "exacteig" else (sp.n["dense_bwd"] >= 1)
        if withM:
            obs.count("with_M_compared")
        if not degen:
            lossr = lossfn(er, Xr)
            r1 = torch.autograd.grad(lossr, lv, create_graph=bool(desc.get("order2")))
            worst, nz = 0.0, True
            for nm, g, r in zip(names, g1, r1):
                err = _relerr(g.detach(), r.detach())
                worst = max(worst, err)
                nz = nz and float(r.detach().abs().max()) > 1e-8
                _cmp(obs, err, tol1, _mech(desc, "first:d%s" % nm),
                          "d loss/d %s differs from the dense reference: rel. error %.3e (tol %.1e)" % (nm, err, tol1),
                          n=n, k=k, mode=desc["mode"], gap=desc["gap"], opkind=desc["opkind"], batch=list(bs), dtype=desc["dtype"])
            obs.count("first_order_compared")
            obs.note(first_order_relerr=worst)
            obs.nontrivial = ok_reach and (nz or lc == "stationary")
            if desc.get("order2") and worst <= tol1:
                # second order: differentiate a random contraction of the first-order gradients again
                R = [torch.randn(g.shape, dtype=g.dtype, generator=tgen) for g in g1]
                try:
                    s2 = sum((g * Ri.conj()).sum().real for g, Ri in zip(g1, R))
                    if lc and not s2.requires_grad:
                        # the first-order gradients came back without a graph: their derivative is identically zero for autograd
                        g2 = [None] * len(lv)
                    else:
                        g2 = torch.autograd.grad(s2, lv, allow_unused=True)
                except Exception as ex:
                    obs.exc_violation(_mech(desc, "second"), ex)
                    return
                if wl.convergence:
                    obs.count("skipped_backward_warned_2nd")
                    return
                s2r = sum((g * Ri.conj()).sum().real for g, Ri in zip(r1, R))
                r2 = torch.autograd.grad(s2r, lv)
                worst2 = 0.0
                nz2 = True
                for nm, g, r in zip(names, g2, r2):
                    nograph = ""
                    if g is None:
                        if not lc:
                            obs.check(False, _mech(desc, "second:none"), "no second-order gradient reached leaf %s" % nm)
                            continue
                        # loss classes: an absent second derivative is the zero tensor (it is what the caller gets)
                        g, nograph = torch.zeros_like(r), " (autograd found NO graph from the first-order gradient to this leaf)"
                    err = _relerr(g.detach(), r.detach())
                    worst2 = max(worst2, err)
                    nz2 = nz2 and float(r.detach().abs().max()) > 1e-8
                    _cmp(obs, err, tol2, _mech(desc, "second:d%s" % nm),
                              "second-order gradient w.r.t. %s differs from the dense reference%s: rel. error %.3e (tol %.1e)" % (nm, nograph, err, tol2),
                              n=n, k=k, mode=desc["mode"], gap=desc["gap"], opkind=desc["opkind"], batch=list(bs), dtype=desc["dtype"],
                              **({"lossclass": lc, "lin": desc["lin"]} if lc else {}))
                obs.count("second_order_compared")
                obs.note(second_order_relerr=worst2)
                if lc:
                    obs.count("lossclass_%s_second_compared" % lc)
                    if lc == "stationary":
                        obs.nontrivial = ok_reach and nz2
                    obs.note(first_order_reference_max=max(float(r.detach().abs().max()) for r in r1),
                             second_order_reference_max=max(float(r.detach().abs().max()) for r in r2))
        else:
            # ---- finite differences of the independent forward along degeneracy-breaking directions
            nz = True
            worst = 0.0
            for nm, g in zip(names, g1):
                for rep in range(2):
                    d = _direction(g, tgen)
                    fd = _fd(lambda lv2: _eig_loss(*_ref_eig(*dense(lv2), idx), groups, cot, spectral), leaves, nm, d)
                    an = _inner(g.detach(), d)
                    err = abs(an - fd) / max(1.0, abs(fd))
                    worst = max(worst, err)
                    nz = nz and abs(fd) > 1e-6
                    _cmp(obs, err, tolfd, _mech(desc, "fd:d%s" % nm),
                              "<grad_%s, d> = %.9e but the finite difference of the independent forward along the degeneracy-breaking "
                              "direction is %.9e" % (nm, an, fd), n=n, k=k, mult=mult, groups=groups, mode=desc["mode"],
                              opkind=desc["opkind"], batch=list(bs), dtype=desc["dtype"], mixed=bool(desc.get("mixed")))
                    obs.count("fd_directions_compared")
            obs.note(fd_relerr=worst)
            saw_map = sp.n["degmap"] >= 1 if desc["method"] != "exacteig" else True
            obs.nontrivial = ok_reach and nz and saw_map


def _cmp(obs, err, tol, mech, msg, **data):
    """one tolerance comparison; the largest error/tolerance ratio of the case is kept for the calibration record"""
    ratio = err / tol if err == err else float("inf")
    obs.obs["worst_ratio"] = max(obs.obs.get("worst_ratio", 0.0), ratio)
    return obs.check(err <= tol, mech, msg, **data)


def _forward_raised(obs, ex):
    from vf.common import last_repo_frame
    fr = last_repo_frame(ex.__traceback__)
    if fr is None:
        raise HarnessBug("forward call failed outside the repository: %s: %s" % (type(ex).__name__, str(ex)[:200])) from ex
    obs.skip("forward raised %s at %s:%s (C05 decides the forward)" % (type(ex).__name__, fr[0], fr[1]))
    obs.count("skipped_forward_raised")


def _fd(lossfn, leaves, name, d):
    """five-point central difference (error O(h^4)) of the independent forward along direction d of leaf `name`"""
    with torch.no_grad():
        vals = {}
        for mult in (1.0, -1.0, 2.0, -2.0):
            lv2 = {k: v.detach() for k, v in leaves.items()}
            lv2[name] = lv2[name] + mult * FD_H * d
            vals[mult] = float(lossfn(lv2))
    return (8.0 * (vals[1.0] - vals[-1.0]) - (vals[2.0] - vals[-2.0])) / (12.0 * FD_H)


def _direction(g, tgen):
    d = torch.randn(g.shape, dtype=g.dtype, generator=tgen)
    return d / torch.linalg.vector_norm(d)


def _run_svd(desc, obs):
    from xitorch.linalg import svd
    rng = random.Random(desc["seed"])
    tgen = torch.Generator().manual_seed(desc["seed"])
    dt = gen.rdtype(desc["dtype"])
    m, n = desc["m"], desc["n"]
    mn = min(m, n)
    degen = desc["group"] == "svddeg"
    BA = BATCHES[desc["batch"]][0]
    mult = desc["mult"] if degen else [1] * mn
    mats = []
    for b in range(_nb(BA)):
        vals = _values(rng, mult, desc["gap"], lo=0.5)
        s = torch.tensor(vals, dtype=torch.float64).to(dt)
        qu = _unitary(m, dt, tgen)[:, :mn]
        qv = _unitary(n, dt, tgen)[:, :mn]
        mats.append(torch.matmul(qu * s, _H(qv)))
    A0 = torch.stack(mats).reshape(*BA, m, n) if BA else mats[0]
    PA = A0.clone().requires_grad_()
    leaves = {"PA": PA}
    if degen:
        ng = desc["ngroups_sel"]
        chosen = mult[:ng] if desc["mode"] == "lowest" else mult[len(mult) - ng:]
        k = sum(chosen)
        groups, pos = [], 0
        for mm in chosen:
            groups.append(list(range(pos, pos + mm)))
            pos += mm
        karg = k
    else:
        k = desc["k"] if desc["k"] is not None else mn
        karg = desc["k"]
        groups = [[i] for i in range(k)]
    idx = _sel(mn, k, "lowest" if desc["mode"] == "lowest" else "uppest")
    cot = _cotangents(groups, BA, m, n, dt, tgen, svd=True)
    method, fwd = _method_arg(desc["method"])
    bck = _bck_options(desc["bck"], mn)
    counter = {}
    proj = (not degen) or desc.get("loss") == "proj"
    lc = desc.get("lossclass")
    if lc and degen:
        raise HarnessBug("loss classes are generated for separated singular values only")

    def lossfn(U_, S_, Vh_):
        if lc:
            return _svd_loss2(U_, S_, Vh_, groups, cot, lc, desc["lin"])
        return _svd_loss(U_, S_, Vh_, groups, cot, proj)
    kw = dict(fwd)
    if desc["method"] != "exacteig":
        kw["bck_options"] = bck
    with _Spies(obs) as sp, WarnLog() as wl:
        try:
            Aop = gen.leaf_operator(desc["opkind"], PA, counter)
            U, S, Vh = svd(Aop, k=karg, mode=desc["mode"], method=method, **kw)
        except Exception as ex:
            if isinstance(ex, HarnessBug):
                raise
            _forward_raised(obs, ex)
            return
        try:
            if tuple(S.shape) != tuple(BA) + (k,) or tuple(U.shape) != tuple(BA) + (m, k) or tuple(Vh.shape) != tuple(BA) + (k, n):
                obs.check(False, _mech(desc, "shape"), "svd returned shapes %s %s %s" % (tuple(U.shape), tuple(S.shape), tuple(Vh.shape)))
                obs.nontrivial = True
                return
            loss = lossfn(U, S, Vh)
            g1, = torch.autograd.grad(loss, [PA], create_graph=bool(desc.get("order2")), allow_unused=True)
        except Exception as ex:
            if isinstance(ex, HarnessBug):
                raise
            obs.exc_violation(_mech(desc, "first"), ex)
            obs.nontrivial = True
            return
        Ur, Sr, Vhr = _ref_svd(PA, idx)
        fwd_err = float((S.detach() - Sr.detach()).abs().max())
        with torch.no_grad():
            Ud, Sd, Vd = U.detach(), S.detach().unsqueeze(-2), _H(Vh.detach())
            Ad = PA.detach()
            eye = torch.eye(k, dtype=Ud.dtype)
            fwd_q = max(float((torch.matmul(Ad, Vd) - Ud * Sd).abs().max()), float((torch.matmul(_H(Ad), Ud) - Vd * Sd).abs().max()),
                        float((torch.matmul(_H(Ud), Ud) - eye).abs().max()), float((torch.matmul(_H(Vd), Vd) - eye).abs().max()))
        obs.note(forward_singular_value_error=fwd_err, forward_quality=fwd_q, k=k, groups=groups, batch=list(BA))
        if fwd_err > 1e-6 or fwd_q > FWD_Q_MAX:
            obs.skip("forward triplets too inaccurate for a gradient comparison (C05 decides the forward)")
            obs.count("skipped_forward_inaccurate")
            return
        tol1, tol2, tolfd = _tols(fwd_q)
        if wl.convergence:
            obs.skip("backward solve emitted a ConvergenceWarning")
            obs.count("skipped_backward_warned")
            return
        if g1 is None:
            obs.check(False, _mech(desc, "first:none"), "no gradient reached the leaf of A")
            obs.nontrivial = True
            return
        finite = bool(torch.isfinite(g1).all())
        obs.check(finite, _mech(desc, "first:finite"), "first-order gradient contains nan/inf")
        if not finite:
            obs.nontrivial = True
            return
        ok_reach = (sp.n["solve"] >= 1) if desc["method"] != "exacteig" else (sp.n["dense_bwd"] >= 1)
        obs.count("svd_cases_compared")
        if not degen:
            lossr = lossfn(Ur, Sr, Vhr)
            r1, = torch.autograd.grad(lossr, [PA], create_graph=bool(desc.get("order2")))
            err = _relerr(g1.detach(), r1.detach())
            _cmp(obs, err, tol1, _mech(desc, "first:dPA"),
                      "d loss/d A differs from the torch.linalg.svd reference: rel. error %.3e (tol %.1e)" % (err, tol1),
                      m=m, n=n, k=k, mode=desc["mode"], gap=desc["gap"], opkind=desc["opkind"], batch=list(BA), dtype=desc["dtype"])
            obs.count("first_order_compared")
            obs.note(first_order_relerr=err)
            obs.nontrivial = ok_reach and (float(r1.detach().abs().max()) > 1e-8 or lc == "stationary")
            if desc.get("order2") and err <= tol1:
                R = torch.randn(g1.shape, dtype=g1.dtype, generator=tgen)
                try:
                    s2 = (g1 * R.conj()).sum().real
                    if lc and not s2.requires_grad:
                        g2 = None
                    else:
                        g2, = torch.autograd.grad(s2, [PA], allow_unused=True)
                except Exception as ex:
                    obs.exc_violation(_mech(desc, "second"), ex)
                    return
                if wl.convergence:
                    obs.count("skipped_backward_warned_2nd")
                    return
                r2, = torch.autograd.grad((r1 * R.conj()).sum().real, [PA])
                nograph = ""
                if g2 is None:
                    if not lc:
                        obs.check(False, _mech(desc, "second:none"), "no second-order gradient reached the leaf of A")
                        return
                    g2, nograph = torch.zeros_like(r2), " (autograd found NO graph from the first-order gradient to the leaf)"
                err2 = _relerr(g2.detach(), r2.detach())
                _cmp(obs, err2, tol2, _mech(desc, "second:dPA"),
                          "second-order gradient w.r.t. A differs from the torch.linalg.svd reference%s: rel. error %.3e (tol %.1e)" % (nograph, err2, tol2),
                          m=m, n=n, k=k, mode=desc["mode"], gap=desc["gap"], opkind=desc["opkind"], batch=list(BA), dtype=desc["dtype"],
                          **({"lossclass": lc, "lin": desc["lin"]} if lc else {}))
                obs.count("second_order_compared")
                obs.note(second_order_relerr=err2)
                if lc:
                    obs.count("lossclass_%s_second_compared" % lc)
                    obs.count("lossclass_%s_svd_second_compared" % lc)
                    if lc == "stationary":
                        obs.nontrivial = ok_reach and float(r2.detach().abs().max()) > 1e-8
                    obs.note(first_order_reference_max=float(r1.detach().abs().max()), second_order_reference_max=float(r2.detach().abs().max()))
        else:
            nz, worst = True, 0.0
            for rep in range(3):
                d = _direction(g1, tgen)
                fd = _fd(lambda lv2: _svd_loss(*_ref_svd(lv2["PA"], idx), groups, cot, proj), leaves, "PA", d)
                an = _inner(g1.detach(), d)
                err = abs(an - fd) / max(1.0, abs(fd))
                worst = max(worst, err)
                nz = nz and abs(fd) > 1e-6
                _cmp(obs, err, tolfd, _mech(desc, "fd:dPA"),
                          "<grad_A, d> = %.9e but the finite difference of torch.linalg.svd along the degeneracy-breaking direction "
                          "is %.9e" % (an, fd), m=m, n=n, k=k, mult=mult, groups=groups, mode=desc["mode"], opkind=desc["opkind"],
                          batch=list(BA), dtype=desc["dtype"])
                obs.count("fd_directions_compared")
            obs.note(fd_relerr=worst)
            saw_map = sp.n["degmap"] >= 1 if desc["method"] != "exacteig" else True
            obs.nontrivial = ok_reach and nz and saw_map
