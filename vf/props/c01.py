"""C01 - solve returns the solution of AX - MXE = B, or warns (reference-model monitor with dense shadow)."""
import random
import types

import torch
import xitorch.grad

from vf.common import Obs, sub_seed, WarnLog
from vf import gen
from vf import c01_extra

LEVEL = "exploration"
TECHNIQUE = "runtime reference-model monitor: residual / dense per-column reference / silence-implies-converged oracle over generated systems"
LEVEL_TEXT = ("Held on every generated system of the run: operator kinds x methods x {E absent, E, E+M} x 12 broadcast patterns x "
              "3 dtypes x 3 spectra; every returned tensor is re-inserted into the dense shadow of the equation; silence is only "
              "accepted with a residual below the method's stopping tolerance; well-conditioned classes must be silent. "
              "Bounds: n<=20 (quick) / 60 (thorough), cond(A - e M) <= 40.")
LEVEL_NOTE = "Trusts torch.linalg.solve/svdvals on the dense shadow; tolerances are C*kappa*stopping tolerance with C=20."
RULE = ("cases drawn by seeded sampling over operator kind {dense, mv, mv_rmv, all, herm_mv, add, sub, mul, matmul, adj, adj_mv, jac, add_herm, matmul_rb / add_rb (batch "
        "dimensions carried by the second operand only)} x "
        "method {None, exactsolve, custom_exactsolve, cg, bicgstab, gmres, broyden1} x emode {none, E, EM} x batch pattern x dtype x "
        "spectrum {spd, indef, nonherm (random singular vectors), nonherm_pd (positive-definite Hermitian part)} x n x ncols x tolerance setting x special right-hand sides; non-trivial = B != 0 and the "
        "solver evaluated >= 2 operator products (counted by the spy operator) or used the dense path with n >= 2")
RULE += ("; operator kinds matmul_rb / add_rb carry the batch dimensions in the second operand only; group directed_f32_default: float32 with the library's default tolerances, cond <= 3, residual <= 4 x the stopping tolerance")
RULE += ("; group history (vf/c01_extra.py): 2-3 solves with ONE operator object (dense-wrapped, matrix-free with / without _fullmatrix, Hermitian-flagged, a sum with "
         "one updated term) whose tensor - and the tensors of B, E, M - the caller updates between the solves (copy_, add_, mat[...]=, mul_, diagonal().add_, .data=, "
         "re-assignment), every solve checked against the dense shadow of the tensors held at the time of that call; group alias: operands whose product is the "
         "vector they were given / a view of it / an expansion of a stored buffer (matrix-free identity, structurally zero operator) inside K+s*I, K-I*s, s*I+K, K+I, "
         "K+(s*I).H, K.matmul(I), I.matmul(K), (s*I).matmul(K), K+s*Z and as M=c*I, M=I; all methods; in every group the tensors handed to solve (B, E, the tensors "
         "held by the operators) must be bitwise unchanged after the call; group subatol: right-hand sides whose entries are all slightly below the absolute "
         "tolerance of the call (default 1e-8, 1e-11, a caller's 1e-3; float32 1e-5) while the column norms exceed it for n >= 5, iterative methods: a column "
         "returned silently as exactly zero must pass the method's stopping test |b| <= max(rtol |b|, atol), evaluated exactly (its residual is b); group units: "
         "the generated system with A and E scaled by 1e-9 / 1e-10 / 1e-12 (small units), purely relative tolerances (rtol 1e-7, atol 0), dense-wrapped operators whose "
         "Hermitian flag the library determines itself (the must-be-silent class is that of the dense shadow), a dense term inside a sum, matrix-free controls")
MIN_NONTRIVIAL = {"quick": 600, "thorough": 8000}
REQUIRED_COUNTERS = {
    "quick": {"caller_tensors_compared": 3000, "history_resolves": 300, "history_resolves_after_inplace_update": 200,
              "history_direct_noE_ownmatrix_after_inplace_update": 10, "history_iterative_resolves_after_inplace_update": 100,
              "alias_solves_reaching_unowned_product": 300, "alias_iterative_scaled_identity": 60, "alias_unowned_products": 5000,
              "subatol_iterative_solves": 80, "subatol_rhs_all_entries_below_atol_all_norms_above": 40,
              "units_dense_autoflag_nonhermitian": 25, "units_cg_dense_nonhermitian": 6},
    "thorough": {"caller_tensors_compared": 30000, "history_resolves": 3000, "history_resolves_after_inplace_update": 2000,
                 "history_direct_noE_ownmatrix_after_inplace_update": 100, "history_iterative_resolves_after_inplace_update": 1000,
                 "alias_solves_reaching_unowned_product": 3000, "alias_iterative_scaled_identity": 600, "alias_unowned_products": 50000,
                 "subatol_iterative_solves": 800, "subatol_rhs_all_entries_below_atol_all_norms_above": 400,
                 "units_dense_autoflag_nonhermitian": 250, "units_cg_dense_nonhermitian": 60},
}
ASSUMPTIONS = ["cond(A - e_c M) <= 40 for every column and batch element (generator re-draws E otherwise)",
               "float32 cases request rtol=1e-4/atol=1e-5 (attainable in working precision), except the group directed_f32_default (cond <= 3, default tolerances, residual bound 4 x the stopping tolerance)", "broyden1 is not given 1e-11-scaled right-hand sides (float32 underflow in the quasi-Newton update) nor the 1e3-scaled eigenvector column (its absolute f_tol is then 1e-12 relative, where the rank-one updates stall at ~1e-10)",
               "must-be-silent classes: direct methods always; cg on Hermitian-flagged SPD systems with real shifts keeping them SPD, "
               "or through the normal equations when cond<=6; bicgstab on SPD and on non-Hermitian systems with cond<=12 and n>=2; "
               "broyden1 when the total number of unknowns <= 40; gmres never (only 'silent => converged')",
               "bicgstab is not held to silence on indefinite Hermitian and on general non-Hermitian systems (it warns on about half of the Hermitian indefinite "
               "systems of cond 10, n=20): with the default budget of 1.5 n iterations the one-dimensional minimal-residual step of BiCGSTAB stagnates when "
               "the field of values contains 0 - a limit of the algorithm, the same systems converge silently with max_niter=100; the warning is honest",
               "group units: float64 / complex128 only ((A^H A p, p) ~ unit^4 leaves the range of float32), no broyden1 (its initial Jacobian guess and its absolute "
               "f_tol / x_tol depend on the units), no zero columns (atol = 0)",
               "groups history / alias: same bounds and must-be-silent classes as the other groups (n <= 12 quick / 20 thorough); between the solves of a history the "
               "caller changes tensors only outside any call and without autograd (no_grad); an operand whose product is not a new tensor never writes to it itself"]
BUDGET = {"quick": {"worker_timeout": 1200, "case_timeout": 400}, "thorough": {"worker_timeout": 3400, "case_timeout": 600}}

OPKINDS = ["dense", "mv", "mv_rmv", "all", "herm_mv", "add", "sub", "mul", "matmul", "adj", "adj_mv", "jac", "add_herm", "matmul_rb", "add_rb"]
METHODS = [None, "exactsolve", "custom_exactsolve", "cg", "bicgstab", "gmres", "broyden1"]
KMAX = 40.0


def cases(seed, tier):
    out = []
    N = 1500 if tier == "quick" else 24000
    sizes = [1, 2, 5, 6, 8, 12, 20] if tier == "quick" else [1, 2, 3, 5, 6, 8, 12, 20, 33, 60]
    for i in range(N):
        rng = random.Random(sub_seed(seed, "c01", i))
        d = {"group": "sys", "seed": sub_seed(seed, "c01s", i)}
        d["method"] = METHODS[i % len(METHODS)]
        d["opkind"] = rng.choice(OPKINDS)
        d["emode"] = rng.choice(["none", "E", "EM"])
        d["batch"] = rng.randrange(len(gen.BATCH_TUPLES_4))
        d["dtype"] = rng.choice(["float64", "float64", "complex128", "float32"])
        d["spectrum"] = rng.choice(["spd", "indef", "nonherm", "nonherm_pd"])
        d["n"] = rng.choice(sizes)
        d["ncols"] = rng.choice([1, 2, 3])
        d["tol"] = rng.choice(["default", "tight"])
        d["special"] = rng.choice([None] * 12 + ["zeroB", "tinyB", "zerocol", "bigeigcol", "bigeigcol"])
        d["kappa"] = rng.choice([3.0, 10.0, 30.0])
        if d["n"] >= 33:
            d["batch"] = rng.choice([0, 1, 2, 3])
        if d["method"] == "broyden1" and d["n"] > 12:
            d["n"] = rng.choice([2, 5, 6, 8])
        if d["method"] == "broyden1" and d["special"] in ("tinyB", "bigeigcol"):
            d["special"] = None      # 1e-11-scaled data underflows in the float32 quasi-Newton update: outside the stated bounds
        out.append(d)
    # directed shapes: batch size equal to the matrix size and ncols == n (dense solve must not read B as a batch of vectors)
    k = 0
    for n in (2, 3):
        for method in METHODS:
            for emode in ("none", "E", "EM"):
                for kind in ("dense", "mv", "add", "matmul_rb"):
                    out.append({"group": "directed_vecbatch", "seed": sub_seed(seed, "c01d", k), "method": method, "opkind": kind,
                                "emode": emode, "batch": 0, "BA": [n], "BB": [], "dtype": "float64", "spectrum": "spd", "n": n,
                                "ncols": n, "tol": "default", "special": None, "kappa": 3.0})
                    k += 1
    # directed: float32 with the DEFAULT tolerances (rtol 1e-6, atol 1e-8: attainable for cond <= 3, but below the level 100*eps32 of
    # "converged to rounding"): a silent return must meet the stopping tolerance itself.  Measured on the repaired tree over 4300 systems: true
    # residual <= 1.48 x the stopping tolerance for cond <= 3 (up to 3.0 x at cond 6, which is therefore not generated); with the freeze-at-
    # rounding-level regression the median is 6.4 x.  Bound used: 4 x.
    k = 0
    for rep_ in range(3 if tier == "quick" else 30):
        for method in ("cg", "bicgstab"):
            for kind in ("dense", "mv", "herm_mv"):
                for n in (8, 20, 30, 50):
                    rng = random.Random(sub_seed(seed, "c01f", k))
                    out.append({"group": "directed_f32_default", "seed": sub_seed(seed, "c01fs", k), "method": method, "opkind": kind, "emode": "none",
                                "batch": 0, "dtype": "float32", "spectrum": "spd", "n": n, "ncols": rng.choice([1, 3]), "tol": "default_f32",
                                "special": rng.choice([None, None, "bigcol"]), "kappa": rng.choice([1.5, 3.0])})
                    k += 1
    # directed: columns of very different norm, the large one converging first (per-column stopping tolerances)
    k = 0
    for n in (6, 9, 14):
        for method in ("cg", "bicgstab", "gmres", None, "exactsolve"):
            for emode in ("none", "E", "EM"):
                for kind in ("mv_rmv", "herm_mv", "dense", "add"):
                    for spectrum in ("spd", "nonherm_pd"):
                        if (k % 3 != 0) and tier == "quick":
                            k += 1
                            continue
                        out.append({"group": "directed_colscale", "seed": sub_seed(seed, "c01cs", k), "method": method, "opkind": kind,
                                    "emode": emode, "batch": 0, "dtype": "float64" if k % 4 else "complex128", "spectrum": spectrum, "n": n,
                                    "ncols": 2 + k % 2, "tol": "default" if k % 2 else "tight", "special": "bigeigcol", "kappa": 3.0})
                        k += 1
    # directed: complex shifts (the shifted system is not Hermitian even if A and M are) for every method and operator class
    k = 0
    for n in (3, 6, 9):
        for method in METHODS:
            for emode in ("E", "EM"):
                for kind in ("mv_rmv", "herm_mv", "dense", "adj_mv"):
                    for spectrum in ("spd", "nonherm_pd"):
                        out.append({"group": "directed_complexE", "seed": sub_seed(seed, "c01c", k), "method": method, "opkind": kind,
                                    "emode": emode, "batch": k % len(gen.BATCH_TUPLES_4), "dtype": "complex128", "spectrum": spectrum,
                                    "n": n, "ncols": 1 + k % 3, "tol": "default", "special": None, "kappa": 3.0, "complexE": True})
                        k += 1
    out.extend(c01_extra.cases(seed, tier))
    return out


def build_operator(kind, A, rng, tgen, counter):
    """operator of the requested kind whose dense value is A (batched)"""
    import xitorch
    dt = A.dtype
    n = A.shape[-1]
    if kind in ("dense", "mv", "mv_rmv", "all"):
        return gen.leaf_operator(kind, A, counter)
    if kind == "herm_mv":
        return gen.leaf_operator("herm_mv", A, counter)
    if kind == "add_herm":
        A1 = torch.randn(A.shape, dtype=dt, generator=tgen)
        A1 = A1 + A1.transpose(-2, -1).conj()
        return gen.leaf_operator("herm_mv", A1, counter) + gen.leaf_operator("herm_all", A - A1, counter)
    if kind == "add":
        A1 = torch.randn(A.shape, dtype=dt, generator=tgen)
        return gen.leaf_operator("mv_rmv", A1, counter) + gen.leaf_operator("mv", A - A1, counter)
    if kind == "sub":
        A1 = torch.randn(A.shape[-2:], dtype=dt, generator=tgen)
        return gen.leaf_operator("all", A + A1, counter) - gen.leaf_operator("mv_rmv", A1, counter)
    if kind == "mul":
        c = rng.choice([2, -3, 0.5, -1.25])
        return gen.leaf_operator("mv", A / c, counter) * c
    if kind == "matmul":
        R = gen.make_matrix("nonherm", n, (), dt, 3.0, rng, tgen)
        return gen.leaf_operator("mv_rmv", torch.matmul(A, torch.linalg.inv(R)), counter).matmul(gen.leaf_operator("mv", R, counter))
    if kind == "matmul_rb":
        # the batch dimensions come from the SECOND factor only (the first is a single matrix)
        L = gen.make_matrix("nonherm", n, (), dt, 3.0, rng, tgen)
        return gen.leaf_operator("mv", L, counter).matmul(gen.leaf_operator("mv_rmv", torch.matmul(torch.linalg.inv(L), A), counter))
    if kind == "add_rb":
        A1 = torch.randn(A.shape[-2:], dtype=dt, generator=tgen)
        return gen.leaf_operator("mv_rmv", A1, counter) + gen.leaf_operator("mv", A - A1, counter)
    if kind == "adj":
        return gen.leaf_operator("mv_rmv", A.transpose(-2, -1).conj().contiguous(), counter).H
    if kind == "adj_mv":
        return gen.leaf_operator("mv", A.transpose(-2, -1).conj().contiguous(), counter).H
    if kind == "jac":
        x0 = torch.randn(n, dtype=dt, generator=tgen).requires_grad_()
        A2 = (A - 0.2 * torch.diag_embed(x0.detach())).detach()

        def f(x, W):
            counter["mv"] = counter.get("mv", 0) + 1
            return torch.matmul(W, x) + 0.1 * x * x
        return xitorch.grad.jac(f, (x0, A2), idxs=0)
    raise ValueError(kind)


def resolve(desc):
    """dimensions of one case after the documented constraints between them (RULE)"""
    P = types.SimpleNamespace()
    P.dt = gen.rdtype(desc["dtype"])
    P.rdt = torch.float32 if P.dt == torch.float32 else torch.float64
    P.n, P.ncols = desc["n"], desc["ncols"]
    P.method, P.kind, P.emode, P.spectrum = desc["method"], desc["opkind"], desc["emode"], desc["spectrum"]
    BA, BB, BE, BM = gen.BATCH_TUPLES_4[desc["batch"]]
    if "BA" in desc:
        BA, BB = tuple(desc["BA"]), tuple(desc["BB"])
    # ---- constraints between dimensions (documented in RULE)
    if P.kind == "jac":
        BA = ()
        if P.dt.is_complex:
            P.dt, P.rdt = torch.float64, torch.float64
    if P.kind in ("herm_mv", "add_herm") and P.spectrum == "nonherm":
        P.spectrum = "spd"
    if P.emode == "none":
        BE, BM = (), ()
    if P.emode == "E":
        BM = ()
    if P.kind in ("herm_mv", "add_herm") and P.spectrum == "nonherm_pd":
        P.spectrum = "spd"
    P.BA, P.BB, P.BE, P.BM = BA, BB, BE, BM
    P.full_b = gen.bshape(BA, BB, BE, BM)
    P.A = P.M = P.E = P.B = None
    return P


def draw_A(P, desc, rng, tgen):
    n, dt = P.n, P.dt
    if P.spectrum == "nonherm_pd":
        # positive-definite Hermitian part plus a skew part of at most half its smallest eigenvalue
        Pm = gen.make_matrix("spd", n, P.BA, dt, desc["kappa"], rng, tgen)
        K = torch.randn(*P.BA, n, n, dtype=dt, generator=tgen)
        K = K - K.transpose(-2, -1).conj()
        K = K / (torch.linalg.matrix_norm(K, ord=2)[..., None, None] + 1e-30) * 0.5
        return Pm + K
    return gen.make_matrix(P.spectrum, n, P.BA, dt, desc["kappa"], rng, tgen)


def draw_M(P, desc, rng, tgen):
    if P.emode == "EM":
        return gen.make_matrix("spd", P.n, P.BM, P.dt, 5.0, rng, tgen)
    return None


def shadow(P):
    """the shifted matrices S = A - e_c M of every column from the dense values P.A, P.M, P.E, with their conditioning"""
    n, dt = P.n, P.dt
    P.Md = P.M if P.M is not None else torch.eye(n, dtype=dt)
    if P.E is not None:
        P.S = P.A.unsqueeze(-3) - P.E.reshape(*P.E.shape, 1, 1) * P.Md.unsqueeze(-3)   # (..., ncols, n, n)
    else:
        P.S = P.A.unsqueeze(-3)
    P.sv = torch.linalg.svdvals(P.S)
    P.kap = float((P.sv[..., 0] / P.sv[..., -1]).max())
    P.smin = float(P.sv[..., -1].min())


def draw_rest(P, desc, obs, rng, tgen):
    """shifts E (keeping cond(A - e M) <= KMAX; real shifts for Hermitian-only configurations) and the right-hand side B for the
    dense values P.A, P.M"""
    n, ncols, dt, rdt, emode, spectrum = P.n, P.ncols, P.dt, P.rdt, P.emode, P.spectrum
    A, BE, BB = P.A, P.BE, P.BB
    P.E = None
    if emode != "none":
        Md = P.M if P.M is not None else torch.eye(n, dtype=dt)
        scale = 1.0
        for attempt in range(8):
            if dt.is_complex and (rng.random() < 0.6 or desc.get("complexE")) and attempt < 6:
                E = torch.randn(*BE, ncols, dtype=dt, generator=tgen) * scale
            else:
                E = (torch.randn(*BE, ncols, dtype=rdt, generator=tgen) * scale).to(dt)
            if spectrum == "spd" and attempt >= 1:
                E = -E.abs() if not dt.is_complex else (-(E.real.abs())).to(dt)
            S = A.unsqueeze(-3) - E.reshape(*E.shape, 1, 1) * Md.unsqueeze(-3)   # (..., ncols, n, n)
            sv = torch.linalg.svdvals(S)
            kap = float((sv[..., 0] / sv[..., -1]).max())
            if kap <= KMAX:
                break
            scale *= 0.4
        else:
            E = torch.zeros(*BE, ncols, dtype=dt)
        P.E = E
    shadow(P)
    S, E = P.S, P.E
    full_b = P.full_b
    B = torch.randn(*BB, n, ncols, dtype=dt, generator=tgen)
    f32_in = dt == torch.float32
    if desc["special"] == "zeroB":
        B = torch.zeros_like(B)
    elif desc["special"] == "tinyB":
        B = B * 1e-11
    elif desc["special"] == "zerocol":
        B[..., 0] = 0
    elif desc["special"] == "bigcol":
        B[..., 0] = B[..., 0] * 100
    elif desc["special"] in ("subatolB", "subatolB_somecols"):
        # every entry is slightly below the absolute tolerance of the call (make_opts ran before), with the signs / phases of the random
        # draw: the NORM of a column exceeds the tolerance as soon as n >= 5.  "_somecols": column 0 stays an ordinary column
        mod = (0.5 + 0.45 * torch.rand(B.shape, dtype=rdt, generator=tgen)) * P.atol
        Bs = (B / B.abs().clamp_min(1e-300)) * mod
        if desc["special"] == "subatolB_somecols":
            Bs[..., 0] = B[..., 0]
        B = Bs.to(dt)
    elif desc["special"] == "bigeigcol":
        # column 0 is a large multiple of an eigenvector of its own shifted matrix (a Krylov method is done with it after one step),
        # the other columns are small and generic: every column still has to meet ITS OWN tolerance
        S0 = S.reshape(-1, ncols if E is not None else 1, n, n)[0, 0]
        if float((S0 - S0.transpose(-2, -1).conj()).abs().max()) <= 1e-12 * float(S0.abs().max()):
            v = torch.linalg.eigh(S0)[1][:, rng.randrange(n)]
        else:
            ev, vec = torch.linalg.eig(S0)
            v = vec[:, 0]
            v = v if dt.is_complex else (v.real if float(v.imag.abs().max()) < 1e-12 else None)
        if v is not None and len(full_b) == 0:
            B = B * (1e-3 if not f32_in else 1e-2)
            B[..., 0] = (1e3 * v / torch.linalg.vector_norm(v)).to(dt)
            obs.count("bigeigcol_inputs")
    P.B = B


def make_opts(P, desc):
    """options passed to solve and the stopping tolerances they imply"""
    method = P.method
    opts = {}
    f32 = P.dt == torch.float32
    if method in ("cg", "bicgstab", "gmres") or method is None:
        if f32 and desc["tol"] == "default_f32":
            pass           # the library's defaults
        elif f32:
            opts.update(rtol=1e-4, atol=1e-5)
        elif desc["tol"] == "tight":
            opts.update(rtol=1e-9, atol=1e-11)
        elif desc["tol"] == "bigatol":
            opts.update(rtol=1e-9, atol=1e-3)          # a caller who states the accuracy in absolute terms
        elif desc["tol"] == "rel":
            opts.update(rtol=1e-7, atol=0.0)           # purely relative: independent of the units of A and B
        if f32 and desc["tol"] == "rel":
            opts.update(rtol=1e-4, atol=0.0)
    P.rtol = opts.get("rtol", 1e-6)
    P.atol = opts.get("atol", 1e-8)
    P.f_tol = 1e-6
    if method == "broyden1":
        if f32:
            opts.update(f_tol=1e-3, x_tol=1e-3)
            P.f_tol = 1e-3
        elif desc["tol"] == "tight":
            opts.update(f_tol=1e-9, x_tol=1e-9)
            P.f_tol = 1e-9
    P.opts = opts
    P.f32 = f32
    return opts


def effective_method(P, Aop, Mop):
    import xitorch
    if P.method is not None:
        return P.method
    if getattr(P, "A_is_dense", P.kind == "dense") and (Mop is None or isinstance(Mop, xitorch._core.linop.MatrixLinearOperator)):
        return "exactsolve"
    if P.n <= 5:
        return "exactsolve"
    return "cg" if (Aop.is_hermitian and (Mop is None or Mop.is_hermitian)) else "bicgstab"


def run_case(desc):
    if desc.get("group") in c01_extra.GROUPS:
        return c01_extra.run_case(desc)
    obs = Obs(desc)
    rng = random.Random(desc["seed"])
    tgen = torch.Generator().manual_seed(desc["seed"])
    P = resolve(desc)
    P.A = draw_A(P, desc, rng, tgen)
    P.M = draw_M(P, desc, rng, tgen)
    draw_rest(P, desc, obs, rng, tgen)
    counter = {}
    try:
        Aop = build_operator(P.kind, P.A, rng, tgen, counter)
        Mop = None
        if P.M is not None:
            Mop = gen.leaf_operator(rng.choice(["dense_herm", "herm_mv", "herm_all"]), P.M, counter)
    except Exception as e:
        obs.exc_violation("construct:%s" % P.kind, e)
        obs.nontrivial = True
        return obs.result()
    make_opts(P, desc)
    obs.nontrivial = solve_and_check(obs, desc, P, Aop, Mop, counter)
    return obs.result()


def solve_and_check(obs, desc, P, Aop, Mop, counter, tag="", watched=()):
    """One monitored call solve(Aop, P.B, P.E, Mop) checked against the dense shadow P.A, P.M (values of the operators' tensors AT THE
    TIME OF THE CALL).  `tag` prefixes the mechanism keys (workload dimension), `watched` = [(name, tensor)] further tensors of the caller
    that the call must leave as they are.  Returns whether the case was non-trivial."""
    from xitorch.linalg import solve
    dt, rdt, n, ncols, emode, spectrum, kind = P.dt, P.rdt, P.n, P.ncols, P.emode, P.spectrum, P.kind
    A, E, B, S, Md, kap, smin, full_b = P.A, P.E, P.B, P.S, P.Md, P.kap, P.smin, P.full_b
    method, opts, rtol, atol, f_tol, f32 = P.method, P.opts, P.rtol, P.atol, P.f_tol, P.f32
    eff_method = effective_method(P, Aop, Mop)
    P.X, P.warned, P.eff_method = None, None, eff_method
    obs.note(eff_method=eff_method, kappa=kap, shapes={"A": list(A.shape), "B": list(B.shape), "E": list(E.shape) if E is not None else None,
                                                      "M": list(P.M.shape) if P.M is not None else None})
    # the caller's tensors as they are handed over (the equation that is asked for)
    held = [("B", B)] + ([("E", E)] if E is not None else []) + list(watched)
    before = [(name, t, t.detach().clone()) for name, t in held]
    nprod0 = sum(counter.values())
    # ---- the monitored call
    with WarnLog() as wl, torch.no_grad():
        try:
            X = solve(Aop, B, E, Mop, method=method, **opts)
        except Exception as e:
            obs.exc_violation(tag + "solve:%s:%s:%s" % (eff_method, emode, "batch%d" % len(full_b)), e, kind=kind, dtype=str(dt))
            return True
    warned = bool(wl.convergence)
    nprod = sum(counter.values()) - nprod0
    obs.count("operator_products", nprod)
    obs.count("method_%s" % eff_method)
    obs.count("emode_%s" % emode)
    obs.count("opkind_%s" % kind)
    if warned:
        obs.count("warned_%s_%s" % (eff_method, spectrum))
    # ---- (o) the call leaves the caller's tensors as they were (otherwise "AX - MXE = B" has no meaning for the caller)
    for name, t, t0 in before:
        same = t.shape == t0.shape and t.dtype == t0.dtype and bool(torch.equal(t, t0))
        obs.count("caller_tensors_compared")
        obs.check(same, tag + "input_modified:%s:%s" % (name.split("#")[0], eff_method),
                  "solve changed the caller's tensor %s in place (max change %.3e)" % (name, float((t - t0).abs().max()) if t.shape == t0.shape and t.numel() else -1.0),
                  kind=kind, emode=emode)
    B = before[0][2]
    if E is not None:
        E = before[1][2]
    # ---- (i) shape and dtype
    want_shape = tuple(full_b) + (n, ncols)
    obs.check(tuple(X.shape) == want_shape, tag + "shape:%s:%s" % (eff_method, emode), "returned shape %s, expected broadcast shape %s" % (tuple(X.shape), want_shape),
              special=desc["special"])
    obs.check(X.dtype == B.dtype, tag + "dtype:%s" % eff_method, "returned dtype %s, B has %s" % (X.dtype, B.dtype), special=desc["special"])
    if tuple(X.shape) != want_shape:
        return True
    # ---- residual with the dense shadow
    Xf = X.to(dt)
    AX = torch.matmul(A, Xf)
    if E is not None:
        MX = torch.matmul(Md, Xf)
        R = AX - MX * E.unsqueeze(-2) - B
    else:
        R = AX - B
    rn = torch.linalg.vector_norm(R, dim=-2).double()      # (..., ncols)
    bn = torch.linalg.vector_norm(B.expand(*full_b, n, ncols), dim=-2).double()
    eps = torch.finfo(rdt).eps
    # (for a dense-wrapped operator whose flag the library determines itself, the class of the system is that of the dense shadow)
    herm_cfg = getattr(P, "A_flag_expected", Aop.is_hermitian) and (Mop is None or Mop.is_hermitian)
    e_real = E is None or (not E.is_complex()) or float(E.imag.abs().max()) == 0.0
    # cg needs a Hermitian system: otherwise (operator not flagged Hermitian, or complex shifts) the normal equations are used
    normal_eq = eff_method == "cg" and not (herm_cfg and e_real)
    xn = torch.linalg.vector_norm(Xf, dim=-2).double()
    An = float(torch.linalg.matrix_norm(S, ord=2).max())
    if eff_method in ("exactsolve", "custom_exactsolve"):
        bound = 200 * eps * kap * (An * xn + bn) + 1e-300
    elif eff_method in ("cg", "bicgstab", "gmres"):
        base = torch.maximum(rtol * bn, torch.full_like(bn, atol))
        if normal_eq:
            # stopping test bounds |S^H r| relative to |S^H B|
            base = torch.maximum(rtol * An * bn, torch.full_like(bn, atol)) / smin
        bound = 20 * base + 200 * eps * kap * (An * xn + bn)
    else:  # broyden1: |f| over the whole batch < f_tol
        bound = None
    if not warned:
        obs.count("silent_results_checked")
        if desc.get("group") == "directed_f32_default" and bound is not None:
            tight = 4.0 * torch.maximum(rtol * bn, torch.full_like(bn, atol))
            worstt = float((rn / tight).max())
            obs.count("f32_default_tolerance_checked")
            obs.note(f32_ratio=4 * worstt)
            obs.check(worstt <= 1.0, tag + "residual_f32_default:%s" % eff_method,
                      "float32, default tolerances, cond %.1f: silent return but the residual is %.2f x the stopping tolerance (max residual %.3e)"
                      % (kap, 4 * worstt, float(rn.max())), kind=kind, n=n)
        if bound is not None:
            worst = float((rn / bound).max())
            obs.check(worst <= 1.0, tag + "residual:%s:%s%s" % (eff_method, emode, ":normaleq" if normal_eq else ""),
                      "silent return but residual/tolerance = %.3e (max residual %.3e)" % (worst, float(rn.max())),
                      kind=kind, spectrum=spectrum, special=desc["special"], kappa=kap, n=n)
        else:
            tot = float(torch.linalg.vector_norm(R))
            obs.check(tot < f_tol * (1 + 1e-6) + 50 * eps * An * float(xn.max() + 1), tag + "residual:broyden1:%s" % emode,
                      "silent return but |AX-MXE-B| = %.3e >= f_tol %.1e" % (tot, f_tol), kind=kind, n=n)
        # ---- (ii-b) a column returned as exactly zero for a non-zero right-hand side: its residual is that column of B itself, with no
        # rounding involved, so the stopping test of the method can be evaluated exactly on it: |b| < max(rtol |b|, atol) (through the
        # normal equations: the same for A^H b; either reading is accepted there)
        if eff_method in ("cg", "bicgstab", "gmres"):
            zcol = (Xf == 0).all(dim=-2) & (bn > 0)
            if bool(zcol.any()):
                thr = torch.maximum(rtol * bn, torch.full_like(bn, atol))
                ok = bn <= thr * (1 + 1e-9)
                if normal_eq:
                    if E is not None:
                        shb = torch.matmul(S.transpose(-2, -1).conj().expand(*full_b, ncols, n, n),
                                           B.expand(*full_b, n, ncols).transpose(-2, -1).unsqueeze(-1)).squeeze(-1)   # (..., ncols, n)
                        shbn = torch.linalg.vector_norm(shb, dim=-1).double()
                    else:
                        shbn = torch.linalg.vector_norm(torch.matmul(S.squeeze(-3).transpose(-2, -1).conj(), B.expand(*full_b, n, ncols)), dim=-2).double()
                    ok = ok | (shbn <= torch.maximum(rtol * shbn, torch.full_like(shbn, atol)) * (1 + 1e-6))
                obs.count("zero_columns_checked", int(zcol.sum()))
                bad = zcol & ~ok
                obs.check(not bool(bad.any()), tag + "zero_above_tolerance:%s:%s" % (eff_method, emode),
                          "silent return of an all-zero column whose residual (= that column of B) is %.3g x the stopping tolerance of the method"
                          % float((bn / thr)[zcol].max()), kind=kind, n=n, rtol=rtol, atol=atol, special=desc["special"])
        # ---- (iv) dense reference, every batch element and column solved separately with its own shift
        Sx = S.expand(*full_b, ncols, n, n) if E is not None else S.expand(*full_b, 1, n, n).expand(*full_b, ncols, n, n)
        Bx = B.expand(*full_b, n, ncols).transpose(-2, -1).unsqueeze(-1)            # (..., ncols, n, 1)
        Xref = torch.linalg.solve(Sx, Bx).squeeze(-1).transpose(-2, -1)             # (..., n, ncols)
        en = torch.linalg.vector_norm(Xf - Xref, dim=-2).double()
        if bound is not None:
            ebound = bound / smin + 200 * eps * kap * (xn + 1e-300)
        else:
            ebound = (f_tol / smin) * torch.ones_like(en) + 200 * eps * kap * (xn + 1e-300)
        worst = float((en / ebound).max())
        obs.check(worst <= 1.0, tag + "reference:%s:%s" % (eff_method, emode),
                  "silent return differs from the dense per-column reference: error/tolerance = %.3e" % worst,
                  kind=kind, spectrum=spectrum, kappa=kap, n=n, special=desc["special"])
    # ---- (iii) well-conditioned classes must be silent
    total_unknowns = n * ncols
    for b in full_b:
        total_unknowns *= b
    spd_shifted = False
    if spectrum == "spd" and e_real and herm_cfg:
        ev = torch.linalg.eigvalsh(0.5 * (S + S.transpose(-2, -1).conj()))
        spd_shifted = float(ev.min()) > 0
    pd_shifted = False
    if spectrum == "nonherm_pd":
        ev = torch.linalg.eigvalsh(0.5 * (S + S.transpose(-2, -1).conj()))
        pd_shifted = float(ev.min()) > 0.5
    must_silent = False
    if eff_method in ("exactsolve", "custom_exactsolve"):
        must_silent = True
    elif eff_method == "cg":
        must_silent = (herm_cfg and spd_shifted) or (normal_eq and kap <= 6.0)
    elif eff_method == "bicgstab":
        must_silent = (spectrum == "spd" and spd_shifted) or (spectrum == "nonherm_pd" and pd_shifted)
    elif eff_method == "broyden1":
        must_silent = total_unknowns <= 40
    if f32 and eff_method not in ("exactsolve", "custom_exactsolve"):
        must_silent = must_silent and kap <= 10
    if desc["special"] == "zeroB":
        must_silent = True
    if desc["special"] == "tinyB" and eff_method in ("cg", "bicgstab") and float(bn.max()) < atol:
        must_silent = True      # |B| is below the absolute tolerance: the zero start already meets the stopping test
    if must_silent:
        obs.count("must_silent_cases")
        obs.check(not warned, tag + "not_silent:%s:%s:%s%s" % (eff_method, emode, spectrum, ":normaleq" if normal_eq else ""),
                  "well-conditioned system (cond %.1f) but %s warned: %s" % (kap, eff_method, wl.convergence[:1]),
                  kind=kind, n=n, dtype=str(dt), e_complex=not e_real)
    obs.note(warned=warned, max_resid=float(rn.max()), products=nprod, resid_per_column=rn.reshape(-1, ncols)[:2], rhs_norm_per_column=bn.reshape(-1, ncols)[:2],
             bound_per_column=(bound.reshape(-1, ncols)[:2] if bound is not None else None))
    bzero = bool((B == 0).all())
    P.X, P.warned, P.eff_method = X, warned, eff_method
    return (not bzero) and (nprod >= 2 or (eff_method in ("exactsolve", "custom_exactsolve") and n >= 2))
