"""C05 - symeig and svd return the requested, correctly normalised spectral pairs
(reference-model monitor: designed generalised spectra, dense shadow, LAPACK generalised reference)."""
import contextlib
import importlib
import math
import random

import numpy as np
import scipy.linalg
import torch

from vf.common import Obs, sub_seed, WarnLog, HarnessBug
from vf import gen
from vf import c05_extra as cx

LEVEL = "exploration"
TECHNIQUE = ("runtime reference-model monitor: returned eigen/singular pairs re-inserted into the dense shadow of the operators "
             "(residual, M-orthonormality, order, shape) and compared with a LAPACK generalised eigen-solution / svdvals reference; "
             "reach counters on the internal slicing, QR and method functions")
LEVEL_TEXT = ("Held on every generated problem of the run: methods {default, exacteig, custom_exacteig, davidson} x {M absent, M} x "
              "operator kinds {dense, dense auto-detected, matrix-free Hermitian-flagged (mv only / all products), sum, scaled} x all "
              "broadcastable batch patterns of A and M from {(),(1,),(2,),(3,1),(1,2),(3,2)} x neig in 1..n x modes {lowest, uppest, "
              "uppermost, upper-case spellings, lsymeig/usymeig} x designed generalised spectra {separated, clustered 1e-5/1e-6, exactly "
              "degenerate groups straddling or inside the cut, all-negative, all-positive, free} x {float64, complex128 on dense paths}; "
              "svd over tall/wide/square operators, k in 1..min(m,n). Bounds: n<=10 dense / <=40 davidson (quick), <=80 (thorough), "
              "cond(M)<=10, |eig|<=~20, sigma in [0.1,10]. "
              "Also: A and M of different dtype on the dense methods (complex128 A + float64 M, float64 A + complex128 M); svd of "
              "rank-deficient and cond-1e7 operators (p<=6, dense methods) for the clauses that the Gram route can meet - the statement's "
              "clauses for the triplets of zero / tiny singular values are a listed finding; directed identity-start witnesses of the listed "
              "davidson misconvergence.")
LEVEL_NOTE = ("Trusts scipy.linalg.eigh (LAPACK sygvd/hegvd) and torch.linalg.svdvals on the dense shadow; tolerances are "
              "C*eps*n*|A|*cond(M) for dense paths and 10*sqrt(n)*min_eps for davidson (its own stopping test), see ASSUMPTIONS. "
              "Only generated inputs are decided; davidson exits through the full subspace in ~85% of the generated problems (n<=80).")
RULE = ("seeded sampling over method x M x operator kind x batch pattern x n x neig x mode spelling/entry point x spectrum kind x dtype "
        "(group 'symeig'), and over shape class x k x mode x method x operator kind x batch (group 'svd'); non-trivial = the call returned, "
        "every clause was evaluated, n>=2 (svd: min(m,n)>=2) and, for davidson, the subspace was expanded at least once "
        "(>=2 Rayleigh-Ritz steps counted at the internal slicing function)")
RULE += ('; 40% of the square svd operators are Hermitian-flagged with an indefinite spectrum')
RULE += ("; descriptors with 'mixdtype' (group 'symeig', dense methods): A and M of different dtype (complex128 A + float64 M with designed "
         "spectra, float64 A + complex128 M with free spectra); group 'svd_lowrank': rank-deficient and cond-1e7 operators x shape x dense "
         "method x dtype x k selection; group 'weakcoupled': directed identity-start witnesses of the listed davidson misconvergence")
MIN_NONTRIVIAL = {"quick": 4000, "thorough": 80000}
ASSUMPTIONS = [
    "M = Q diag(mu) Q^H with mu in [1, kappa_M], kappa_M <= 10; generalised eigenvalues designed in [-20, 20]",
    "distinct eigenvalue groups are >= 0.1 apart (designed spectra); members of a cluster are 1e-5 / 1e-6 / 0 apart; 'free' spectra "
    "(A and M with independent batch shapes) have uncontrolled gaps: there only groups isolated by >= 0.05 are compared as subspaces",
    "individual eigenvectors are never compared: only eigenvalues, residual, M-orthonormality and the M-orthogonal projector onto "
    "complete groups (a group cut by neig, or closer than 0.05 to a neighbour, is not compared as a subspace)",
    "davidson: real float64 only (the property restricts complex to the dense paths); min_eps in {1e-6 default, 1e-9}; v_init in "
    "{randn, rand, eye}; n <= 40 quick / 80 thorough",
    "dense tolerances: 2000*eps*n*(|A|_2 + |lambda|_max*|M|_2)*cond(M) for values and residual column norms (|A| = sum of the norms of "
    "the pieces for composed operators), 2000*eps*n*cond(M) for M-orthonormality; davidson adds 10*sqrt(n)*min_eps to values and "
    "residuals (its stopping test bounds max|resid| by min_eps), the width of a cluster with internal gaps <= 1e-4 to the values (a pair "
    "that meets the residual test may be any member of an unresolved cluster), and uses 1e-7 for M-orthonormality; projectors: "
    "4*sqrt(group size)*cond(M)*(residual tolerance/gap + orthonormality tolerance)",
    "svd: sigma_min in {0.1, 0.5, 1}, cond <= 10 (rank-deficient input not generated: documented as the naive A^H A route); tolerances "
    "2000*eps*max(m,n)*|A|*cond (values, A v = s u), *cond^2 for the factor recovered as A v / s and the reconstruction; davidson adds "
    "10*sqrt(p)*1e-6 / sigma_min (values, A v) and / sigma_min^2 (recovered factor, reconstruction)",
    "A and M of different dtype (dense methods only): complex128 A + float64 SPD M (designed spectra) and float64 A + complex128 Hermitian PD "
    "M (free spectra); reference = scipy.linalg.eigh of both matrices promoted to complex128; same tolerances as the dense paths",
    "svd_lowrank: singular values {0 (rank-deficient) or 1e-7..6e-7 (ill-conditioned)} x smax + {0.1..1} x smax, smax in {0.3, 1, 5}, "
    "p <= 6, dense methods; asserted: |s^2 - sigma^2| <= 2000 eps max(m,n) smax^2, eigen-side factor orthonormal to 2000 eps max(m,n), "
    "derived-factor columns of sigma >= 0.05 smax orthonormal to 400x and A v = s u to 20x smax x that, reconstruction to 10x smax x "
    "that; the statement's clauses for the triplets of the small singular values (derived factor orthonormal, A v = s u, values to "
    "2000 eps max(m,n) smax) are reported under svd_orth / svd_Av / svd_vals :rankdef|illcond (listed finding)",
    "configuration classes carried in the mechanism keys (decided by spies, not by values of the result): ':illcondqr' = the internal "
    "Cholesky/Householder QR of davidson received a block whose column-scaled Gram matrix has an eigenvalue < 1e-6; ':misconverged' = "
    "davidson met its residual test (exit before the subspace was full) on M-orthonormal genuine eigenpairs that are all among the "
    "neig+2 extreme ones at the requested end but skip one of the neig extreme ones",
]
BUDGET = {"quick": {"worker_timeout": 900, "case_timeout": 120}, "thorough": {"worker_timeout": 3300, "case_timeout": 300}}
REQUIRED_COUNTERS = {
    "quick": {"path_exacteig": 1500, "path_custom_exacteig": 500, "path_davidson": 900, "davidson_exit_converged": 80,
              "davidson_exit_fullspace": 800, "davidson_illcond_qr": 10, "tallqr_with_M": 400, "cut_straddles_group": 300,
              "slice_lowest": 900, "slice_uppest": 900, "svd_tall": 150, "svd_wide": 150, "svd_square": 150, "svd_hermitian_indefinite": 80, "svd_full_k": 300,
              "with_M": 1000, "complex_cases": 600, "batched_M_larger_than_A": 80, "groups_compared": 10000,
              "groups_cut_or_unisolated": 800, "mixdtype_cA_rM": 150, "mixdtype_rA_cM": 150, "svd_rankdef": 60, "svd_illcond": 60,
              "svd_lowrank_small_triplets_returned": 100, "weakcoupled_cases": 4},
    "thorough": {"path_exacteig": 30000, "path_custom_exacteig": 10000, "path_davidson": 18000, "davidson_exit_converged": 1500,
                 "davidson_exit_fullspace": 16000, "davidson_illcond_qr": 200, "tallqr_with_M": 8000, "cut_straddles_group": 6000,
                 "slice_lowest": 18000, "slice_uppest": 18000, "svd_tall": 3000, "svd_wide": 3000, "svd_square": 3000, "svd_hermitian_indefinite": 1600,
                 "svd_full_k": 6000, "with_M": 20000, "complex_cases": 12000, "batched_M_larger_than_A": 1500,
                 "groups_compared": 200000, "groups_cut_or_unisolated": 16000, "mixdtype_cA_rM": 7000, "mixdtype_rA_cM": 7000,
                 "svd_rankdef": 600, "svd_illcond": 600, "svd_lowrank_small_triplets_returned": 1500, "weakcoupled_cases": 4},
}

EPS = 2.220446049250313e-16
BSHAPES = [(), (1,), (2,), (3, 1), (1, 2), (3, 2)]
ALL_PAIRS = [(a, b) for a in BSHAPES for b in BSHAPES]
FULL_A_PAIRS = [(a, b) for (a, b) in ALL_PAIRS if gen.bshape(a, b) == a]
METHODS = [None, "exacteig", "custom_exacteig", "davidson", "davidson"]
MODES = ["lowest", "uppest", "uppermost", "LOWEST", "Uppermost", "UPPEST", "Lowest", "lsymeig", "usymeig"]
SPECS = ["sep", "clus5", "clus6", "degen", "degen", "neg", "pos", "free"]
OPKINDS_A = ["dense_herm", "dense_auto", "herm_mv", "herm_all", "herm_add", "herm_mul"]
OPKINDS_M = ["dense_herm", "herm_mv", "herm_all"]
SVD_OPKINDS = ["dense", "mv_rmv", "all", "mv"]


def is_low(mode):
    return mode.lower() in ("lowest", "lsymeig")


# ------------------------------------------------------------------------------------------------------ cases
def cases(seed, tier):
    out = []
    quick = tier == "quick"
    N = 6000 if quick else 120000
    dense_sizes = [1, 2, 3, 4, 5, 6, 8, 10]
    dav_sizes = [2, 5, 8, 12, 20, 30, 40] if quick else [2, 5, 8, 12, 20, 30, 40, 60, 80]
    for i in range(N):
        rng = random.Random(sub_seed(seed, "c05", i))
        d = {"group": "symeig", "seed": sub_seed(seed, "c05s", i)}
        d["method"] = METHODS[i % len(METHODS)]
        dav = d["method"] == "davidson"
        d["n"] = rng.choice(dav_sizes if dav else dense_sizes)
        n = d["n"]
        d["mode"] = rng.choice(MODES)
        # neig: whole range, biased to small counts for large davidson problems (the documented use) and to the ends
        r = rng.random()
        if dav and n > 12:
            d["neig"] = rng.choice([1, 2, 3, 4, 6]) if r < 0.8 else rng.randint(1, n)
        else:
            d["neig"] = 1 if r < 0.1 else (n if r < 0.25 else rng.randint(1, n))
        d["neig_none"] = bool(d["neig"] == n and rng.random() < 0.5)
        d["withM"] = rng.random() < 0.55
        d["spec"] = rng.choice(SPECS)
        d["straddle"] = rng.random() < 0.6
        d["dtype"] = "float64" if (dav or rng.random() < 0.55) else "complex128"
        d["opA"] = rng.choice(OPKINDS_A)
        d["opM"] = rng.choice(OPKINDS_M)
        d["kappaM"] = rng.choice([2.0, 5.0, 10.0])
        if d["spec"] == "free":
            d["batch"] = list(map(list, rng.choice(ALL_PAIRS)))
        else:
            d["batch"] = list(map(list, rng.choice(FULL_A_PAIRS)))
        if n >= 30:
            d["batch"] = [list(rng.choice([(), (2,)])), []]
        if dav:
            d["min_eps"] = rng.choice([None, None, 1e-9])
            d["v_init"] = rng.choice([None] * 6 + ["rand", "eye"])
            # half of the larger problems: selection separated from the rest of the spectrum, so that the (unpreconditioned)
            # iteration meets its residual test before the subspace is the whole space
            d["biggap"] = rng.choice([0, 4, 8]) if n >= 12 else 0
        out.append(d)
    # directed: every broadcastable batch pattern of A and M for every method (exhaustive table, two modes)
    k = 0
    for (ba, bm) in ALL_PAIRS:
        for method in [None, "exacteig", "custom_exacteig", "davidson"]:
            for mode in ("lowest", "uppermost"):
                n = 6 if method != "davidson" else 9
                out.append({"group": "symeig", "directed": "batchgrid", "seed": sub_seed(seed, "c05b", k), "method": method, "n": n,
                            "mode": mode, "neig": 1 + k % 4, "neig_none": False, "withM": True, "spec": "free", "straddle": False,
                            "dtype": "float64" if (method == "davidson" or k % 3) else "complex128",
                            "opA": OPKINDS_A[k % len(OPKINDS_A)], "opM": OPKINDS_M[k % len(OPKINDS_M)], "kappaM": 5.0,
                            "batch": [list(ba), list(bm)], "min_eps": None, "v_init": None})
                k += 1
    # directed witness (independent of VERIF_SEED) of the listed davidson misconvergence: n=80, neig=1, batch (2,): the Ritz value of
    # the second batch element sits on the 2nd eigenvalue with residual < 1e-6 during iterations 47-50
    out.append({"group": "symeig", "directed": "witness_misconvergence", "seed": 178403411, "method": "davidson", "n": 80,
                "mode": "lowest", "neig": 1, "neig_none": False, "withM": True, "spec": "pos", "straddle": True, "dtype": "float64",
                "opA": "dense_herm", "opM": "herm_mv", "kappaM": 2.0, "batch": [[2], []], "min_eps": None, "v_init": None,
                "biggap": 0})
    # directed: an operator with a decoupled coordinate and the identity start: one start column is an exact eigenvector (its residual
    # is exactly zero from the first step) while the other requested pairs still have to converge
    kd = 0
    for n in ((8, 14) if quick else (6, 8, 14, 25)):
        for pos in (0, 1):
            for neig in (2, 3):
                for mode in ("lowest", "uppermost"):
                    for batch in ([], [2]):
                        out.append({"group": "decoupled", "seed": sub_seed(seed, "c05d", kd), "n": n, "pos": pos, "neig": neig, "mode": mode,
                                    "batch": batch, "opA": ["dense_herm", "herm_mv"][kd % 2]})
                        kd += 1
    NS = 1500 if quick else 30000
    for i in range(NS):
        rng = random.Random(sub_seed(seed, "c05v", i))
        d = {"group": "svd", "seed": sub_seed(seed, "c05vs", i)}
        d["method"] = [None, "exacteig", "custom_exacteig", "davidson"][i % 4]
        shape = ["tall", "wide", "square"][(i // 4) % 3]
        d["shape"] = shape
        big = d["method"] == "davidson" and rng.random() < 0.4
        p = rng.choice([8, 12, 20]) if big else rng.choice([1, 2, 3, 4, 6])
        extra = rng.choice([1, 2, 5])
        d["m"], d["n"] = {"tall": (p + extra, p), "wide": (p, p + extra), "square": (p, p)}[shape]
        r = rng.random()
        d["k"] = p if r < 0.35 else rng.randint(1, p)
        d["k_none"] = bool(d["k"] == p and rng.random() < 0.5)
        d["mode"] = rng.choice(["lowest", "uppest", "uppermost", "UPPEST", "Lowest", None])
        d["opA"] = rng.choice(SVD_OPKINDS)
        d["batch"] = list(rng.choice([(), (), (2,), (3, 2), (1,)]))
        d["dtype"] = "float64" if (d["method"] == "davidson" or rng.random() < 0.6) else "complex128"
        d["smin"] = rng.choice([0.1, 0.5, 1.0])
        d["kappa"] = rng.choice([2.0, 5.0, 10.0])
        # square operators: every third one is Hermitian (and flagged so) with an INDEFINITE spectrum - its singular values are |eigenvalues|
        d["herm"] = bool(shape == "square" and rng.random() < 0.4)
        out.append(d)
    out.extend(cx.mix_cases(seed, tier, sub_seed, MODES, SPECS, OPKINDS_A, OPKINDS_M, FULL_A_PAIRS, ALL_PAIRS))
    out.extend(cx.lowrank_cases(seed, tier, sub_seed))
    out.extend(cx.weak_cases(seed, tier, sub_seed))
    return out


# ------------------------------------------------------------------------------------------------------ generators
def _partition(k, rng):
    sizes = []
    while k > 0:
        s = min(k, rng.choice([1, 1, 1, 1, 2, 2, 3]))
        sizes.append(s)
        k -= s
    return sizes


def design_spectrum(n, neig, low, spec, straddle, rng, biggap=0.0):
    """sorted generalised eigenvalues (python floats) + group sizes; groups >= 0.1 apart, members `spread` apart;
    `biggap` > 0 separates the groups touched by the selection from the rest by that much (fast davidson convergence)"""
    cut = neig if low else n - neig
    spread = {"clus5": 1e-5, "clus6": 1e-6, "degen": 0.0}.get(spec)
    straddled = False
    if spread is None:
        sizes = [1] * n
    elif straddle and 0 < cut < n:
        a = rng.randint(1, min(2, cut))
        b = rng.randint(1, min(2, n - cut))
        sizes = _partition(cut - a, rng) + [a + b] + _partition(n - cut - b, rng)
        straddled = True
    else:
        left, right = _partition(cut, rng), _partition(n - cut, rng)
        # make sure at least one multiple group exists where possible (inside the selection)
        sel = left if low else right
        if sel and max(sel) == 1 and len(sel) >= 2:
            sel[:2] = [2]
        sizes = left + right
    gmax = max(0.2, min(1.0, 8.0 / n))
    vals = []
    c = 0.0
    # index of the group after which the big gap goes
    ends, e = [], 0
    for s in sizes:
        e += s
        ends.append(e)
    if low:
        jgap = next((j for j, e in enumerate(ends) if e >= cut), None)
    else:
        jgap = next((j for j, e in enumerate(ends) if e > cut), 0) - 1
    for j_, s in enumerate(sizes):
        for j in range(s):
            vals.append(c + j * (spread or 0.0))
        c = vals[-1] + rng.uniform(0.1, gmax) + 1e-4
        if biggap and j_ == jgap:
            c += biggap
    if spec == "neg":
        shift = -vals[-1] - rng.uniform(0.5, 2.0)
    elif spec == "pos":
        shift = -vals[0] + rng.uniform(0.5, 2.0)
    else:
        # zero lies in a gap (or, one time in five, is an eigenvalue: singular A is a legal input)
        k = rng.randrange(n)
        shift = -vals[k] - (0.0 if rng.random() < 0.2 else 0.05)
    vals = [v + shift for v in vals]
    return vals, sizes, straddled


def _finite(t):
    return bool(torch.isfinite(t.abs()).all())


def herm(x):
    return 0.5 * (x + x.transpose(-2, -1).conj())


def build_pair(desc, rng, tgen, dt):
    """dense A (BA,n,n), dense M (BM,n,n) or None, info"""
    n = desc["n"]
    BA, BM = tuple(desc["batch"][0]), tuple(desc["batch"][1])
    low = is_low(desc["mode"])
    withM = desc["withM"]
    if not withM:
        BM = ()
    rdt = torch.float64
    M = None
    dtM = dt
    if desc.get("mixdtype"):
        # A and M of different dtype: dt (the common dtype) is complex128; the designed A = L Q diag(lam) Q^H L^H is complex
        dt, dtM = cx.MIX_DTYPES[desc["mixdtype"]]
        if dt != torch.complex128 and desc["spec"] != "free":
            raise HarnessBug("a real A in a complex metric has no designed generalised spectrum")
    if withM:
        M = gen.make_matrix("spd", n, BM, dtM, desc["kappaM"], rng, tgen)
    spec = desc["spec"]
    info = {"straddled": False}
    if spec == "free":
        nb = int(np.prod(BA)) if BA else 1
        mats = []
        for _ in range(nb):
            vals, sizes, _ = design_spectrum(n, desc["neig"], low, rng.choice(["sep", "neg", "pos"]), False, rng,
                                             float(desc.get("biggap") or 0.0))
            q = gen.rand_unitary(n, (), dt, tgen)
            lam = torch.tensor(vals, dtype=rdt).to(dt)
            mats.append(herm((q * lam) @ q.transpose(-2, -1).conj()))
        A = torch.stack(mats).reshape(*BA, n, n) if BA else mats[0]
        return A, M, info
    # designed generalised spectrum: A = L Q diag(lam) Q^H L^H with M = L L^H, per element of the full batch (= BA)
    full = gen.bshape(BA, BM)
    if tuple(full) != tuple(BA):
        raise HarnessBug("designed spectrum needs A to carry the full batch shape")
    nb = int(np.prod(BA)) if BA else 1
    Mfull = M.expand(*BA, n, n).reshape(nb, n, n) if M is not None else None
    mats = []
    for b in range(nb):
        vals, sizes, straddled = design_spectrum(n, desc["neig"], low, spec, desc["straddle"], rng, float(desc.get("biggap") or 0.0))
        info["straddled"] = info["straddled"] or straddled
        q = gen.rand_unitary(n, (), dt, tgen)
        lam = torch.tensor(vals, dtype=rdt).to(dt)
        core = (q * lam) @ q.transpose(-2, -1).conj()
        if Mfull is not None:
            L = torch.linalg.cholesky(Mfull[b]).to(dt)
            core = L @ core @ L.transpose(-2, -1).conj()
        mats.append(herm(core))
    A = torch.stack(mats).reshape(*BA, n, n) if BA else mats[0]
    return A, M, info


def build_herm_operator(kind, mat, rng, tgen, counter):
    """operator whose dense value is `mat`, and the norm scale of the pieces it is assembled from (round-off scale)"""
    import xitorch
    scale = float(torch.linalg.matrix_norm(mat, ord=2).max())
    if kind == "dense_herm":
        return xitorch.LinearOperator.m(mat, is_hermitian=True), scale
    if kind == "dense_auto":
        return xitorch.LinearOperator.m(mat), scale
    if kind in ("herm_mv", "herm_all"):
        return gen.leaf_operator(kind, mat, counter), scale
    if kind == "herm_add":
        A1 = herm(torch.randn(mat.shape, dtype=mat.dtype, generator=tgen))
        A2 = herm(mat - A1)
        scale = float(torch.linalg.matrix_norm(A1, ord=2).max()) + float(torch.linalg.matrix_norm(A2, ord=2).max())
        return gen.leaf_operator("herm_mv", A1, counter) + gen.leaf_operator("herm_all", A2, counter), scale
    if kind == "herm_mul":
        c = rng.choice([2, -3, 0.5, -1.25])
        return gen.leaf_operator("herm_mv", mat / c, counter) * c, scale
    raise HarnessBug("unknown operator kind %s" % kind)


# ------------------------------------------------------------------------------------------------------ spies
@contextlib.contextmanager
def reach_spies(log):
    """count which internal functions ran (restored afterwards): the slicing function (one call per Rayleigh-Ritz step),
    the Cholesky-QR (with / without M), and the method functions looked up by name in the public module"""
    impl = importlib.import_module("xitorch._impls.linalg.symeig")
    pub = importlib.import_module("xitorch.linalg.symeig")
    saved = []

    def patch(mod, name, wrapper_factory):
        orig = getattr(mod, name)
        saved.append((mod, name, orig))
        setattr(mod, name, wrapper_factory(orig))

    def w_take(orig):
        def _take_eigpairs(eival, eivec, neig, mode):
            log["take"].append((str(mode), int(neig), int(eival.shape[-1])))
            return orig(eival, eivec, neig, mode)
        return _take_eigpairs

    def w_qr(orig):
        def tallqr(V, *args, **kwargs):
            # second argument: M V (tensor) or M itself (operator), positional or by keyword - only inspected, passed on as is
            second = args[0] if args else (list(kwargs.values())[0] if kwargs else None)
            log["qr"].append((second is not None, _scaled_gram_min_eig(V, second)))
            return orig(V, *args, **kwargs)
        return tallqr

    def w_method(name):
        def factory(orig):
            def f(*a, **k):
                log["path"].append(name)
                return orig(*a, **k)
            f.__doc__ = orig.__doc__
            return f
        return factory
    try:
        patch(impl, "_take_eigpairs", w_take)
        patch(impl, "tallqr", w_qr)
        patch(pub, "exacteig", w_method("exacteig"))
        patch(pub, "davidson", w_method("davidson"))
        patch(pub, "custom_exacteig", w_method("custom_exacteig"))
        yield
    finally:
        for mod, name, orig in reversed(saved):
            setattr(mod, name, orig)


def _scaled_gram_min_eig(V, MV):
    """smallest eigenvalue of the column-scaled Gram matrix V^H M V that the Cholesky-based QR is about to factor
    (1 = perfectly conditioned; the loss of orthogonality of a one-pass Cholesky QR is about eps / this number)"""
    try:
        if MV is not None and not isinstance(MV, torch.Tensor):
            MV = MV.mm(V)          # the metric was given as an operator
        G = torch.matmul(V.transpose(-2, -1).conj(), V if MV is None else MV)
        d = torch.diagonal(G, dim1=-2, dim2=-1).real
        if not bool((d > 0).all()):
            return 0.0
        G = herm(G / torch.sqrt(d.unsqueeze(-1) * d.unsqueeze(-2)))
        lam = float(torch.linalg.eigvalsh(G)[..., 0].min())
        return lam if lam == lam else 0.0
    except Exception:
        return 0.0


ILLCOND_THRESHOLD = 1e-6


def illcond_tag(log):
    """configuration class of a davidson run: did any Cholesky-QR call receive an ill-conditioned block?"""
    if any(lam < ILLCOND_THRESHOLD for (_, lam) in log["qr"]):
        return ":illcondqr"
    return ""


def _matches_neighbours(vals, cand, tol):
    """every value (ascending list) equals a distinct candidate (ascending list) within tol"""
    used = -1
    for v in vals:
        j = next((j for j in range(used + 1, len(cand)) if abs(cand[j] - v) <= tol), None)
        if j is None:
            return False
        used = j
    return True


def new_log():
    return {"take": [], "qr": [], "path": []}


def count_reach(obs, log, method, n, neig):
    for p in set(log["path"]):
        obs.count("path_%s" % p)
    if "davidson" in log["path"]:
        iters = len(log["take"])
        obs.count("davidson_rayleigh_ritz_steps", iters)
        final_dim = log["take"][-1][2] if log["take"] else 0
        if final_dim >= n:
            obs.count("davidson_exit_fullspace")
        else:
            obs.count("davidson_exit_converged")
        if any(m for (m, _) in log["qr"]):
            obs.count("tallqr_with_M")
        if illcond_tag(log):
            obs.count("davidson_illcond_qr")
        obs.count("tallqr_calls", len(log["qr"]))
        return iters
    return len(log["take"])


# ------------------------------------------------------------------------------------------------------ symeig
def run_symeig(desc, obs):
    import xitorch
    from xitorch.linalg import symeig, lsymeig, usymeig
    rng = random.Random(desc["seed"])
    tgen = torch.Generator().manual_seed(desc["seed"])
    dt = gen.rdtype(desc["dtype"])
    n, neig, method, mode = desc["n"], desc["neig"], desc["method"], desc["mode"]
    low = is_low(mode)
    withM = desc["withM"]
    A, M, info = build_pair(desc, rng, tgen, dt)
    BA = tuple(A.shape[:-2])
    BM = tuple(M.shape[:-2]) if M is not None else ()
    full = tuple(gen.bshape(BA, BM))
    counter = {}
    try:
        Aop, normA = build_herm_operator(desc["opA"], A, rng, tgen, counter)
        Mop = build_herm_operator(desc["opM"], M, rng, tgen, counter)[0] if withM else None
    except Exception as e:
        obs.exc_violation("construct:%s" % desc["opA"], e)
        obs.nontrivial = True
        return
    mname = method or "default"
    mtag = ("M" + cx.mix_tag(desc)) if withM else "noM"
    modetag = "lowest" if low else "uppest"
    if desc.get("mixdtype"):
        # the operators keep their own dtypes; the dense shadows used by the oracle are promoted to the common dtype
        obs.count("mixdtype_%s" % desc["mixdtype"])
        if A.dtype == M.dtype or Aop.dtype == Mop.dtype:
            raise HarnessBug("mixed-dtype case built with equal dtypes")
        A, M = A.to(dt), M.to(dt)
    key0 = "%s:%s:%s" % (mname, mtag, modetag)
    opts = {}
    min_eps = 1e-6
    if method == "davidson":
        if desc.get("min_eps"):
            opts["min_eps"] = desc["min_eps"]
            min_eps = desc["min_eps"]
        if desc.get("v_init"):
            opts["v_init"] = desc["v_init"]
    neig_arg = None if desc.get("neig_none") else neig
    log = new_log()
    with WarnLog() as wl, torch.no_grad(), reach_spies(log):
        try:
            if mode == "lsymeig":
                E, X = lsymeig(Aop, neig_arg, Mop, method=method, **opts)
            elif mode == "usymeig":
                E, X = usymeig(Aop, neig_arg, Mop, method=method, **opts)
            else:
                E, X = symeig(Aop, neig_arg, mode, Mop, method=method, **opts)
        except Exception as e:
            count_reach(obs, log, method, n, neig)
            obs.exc_violation("symeig:%s%s:batch%d" % (key0, illcond_tag(log), len(full)), e, opA=desc["opA"], dtype=desc["dtype"],
                              spec=desc["spec"])
            obs.nontrivial = True
            return
    key = key0 + illcond_tag(log)
    iters = count_reach(obs, log, method, n, neig)
    obs.count("method_%s" % mname)
    obs.count("spec_%s" % desc["spec"])
    obs.count("opA_%s" % desc["opA"])
    obs.count("mode_%s" % mode)
    if withM:
        obs.count("with_M")
        obs.count("opM_%s" % desc["opM"])
    if dt.is_complex:
        obs.count("complex_cases")
    if len(full) > len(BA) or tuple(full) != tuple(BA):
        obs.count("batched_M_larger_than_A")
    if full:
        obs.count("batched_cases")
    if info["straddled"]:
        obs.count("cut_straddles_group")
    for (md, k, dim) in log["take"][-1:]:
        obs.count("slice_%s" % ("lowest" if md == "lowest" else "uppest"))
    obs.count("operator_products", sum(counter.values()))
    if wl.all:
        obs.count("warnings_seen", len(wl.all))

    # ---- (i) shapes
    want_E, want_X = full + (neig,), full + (n, neig)
    ok_shape = obs.check(tuple(E.shape) == want_E and tuple(X.shape) == want_X, "shape:%s" % key,
                         "returned shapes %s / %s, expected %s / %s (batch A %s, batch M %s)" % (
                             tuple(E.shape), tuple(X.shape), want_E, want_X, BA, BM), opA=desc["opA"])
    if not ok_shape:
        obs.nontrivial = True
        return
    obs.check(not E.is_complex(), "evals_dtype:%s" % key, "eigenvalues returned with dtype %s" % E.dtype)
    finite = bool(torch.isfinite(E).all()) and _finite(X)
    if not obs.check(finite, "finite:%s" % key, "non-finite entries in the returned eigenpairs"):
        obs.nontrivial = True
        return
    E = E.real.double() if E.is_complex() else E.double()
    X = X.to(dt)

    # ---- references (LAPACK generalised problem per batch element)
    nb = int(np.prod(full)) if full else 1
    Af = A.expand(*full, n, n).reshape(nb, n, n)
    Mf = M.expand(*full, n, n).reshape(nb, n, n) if M is not None else None
    Ef = E.reshape(nb, neig)
    Xf = X.reshape(nb, n, neig)
    if M is not None:
        svM = torch.linalg.svdvals(M)
        normM, kM = float(svM[..., 0].max()), float((svM[..., 0] / svM[..., -1]).max())
    else:
        normM, kM = 1.0, 1.0
    worst = {"order": 0.0, "evals": 0.0, "resid": 0.0, "orth": 0.0, "sub": 0.0}
    raw = {"evals": 0.0, "resid": 0.0, "orth": 0.0, "sub": 0.0}
    n_groups_compared = 0
    n_groups_skipped = 0
    evals_fail_classes = []
    dav_exit_converged = bool(log["take"]) and log["take"][-1][2] < n
    for b in range(nb):
        Ab = Af[b]
        Mb = Mf[b] if Mf is not None else None
        if Mb is None:
            w, V = scipy.linalg.eigh(Ab.numpy())
        else:
            w, V = scipy.linalg.eigh(Ab.numpy(), Mb.numpy())
        w = torch.from_numpy(np.ascontiguousarray(w)).double()
        V = torch.from_numpy(np.ascontiguousarray(V)).to(dt)
        lam_max = float(w.abs().max())
        scale = max(normA + lam_max * normM, 1e-30)
        dense_tol = 2000 * EPS * n * scale * kM + 1e-300
        dav_tol = 10 * math.sqrt(n) * min_eps if method == "davidson" else 0.0
        tol_val = dense_tol + dav_tol
        if method == "davidson":
            # a Ritz pair that meets the residual test is within the residual of SOME eigenvalue; inside a cluster whose
            # members are closer than the stopping tolerance can resolve, that may be a neighbour of the i-th one
            wd = w[1:] - w[:-1]
            width, cw = 0.0, 0.0
            for gdiff in wd.tolist():
                cw = cw + gdiff if gdiff <= 1e-4 else 0.0
                width = max(width, cw)
            tol_val += width
        tol_res = dense_tol + dav_tol
        tol_orth = 1e-7 if method == "davidson" else 2000 * EPS * n * kM
        sel = slice(0, neig) if low else slice(n - neig, n)
        wsel = w[sel]
        Eb, Xb = Ef[b], Xf[b]
        # (ii) ascending order
        if neig > 1:
            dmin = float((Eb[1:] - Eb[:-1]).min())
            worst["order"] = max(worst["order"], -dmin / (8 * EPS * scale))
        # (iii) the requested extreme values
        ev = float((Eb - wsel).abs().max())
        raw["evals"] = max(raw["evals"], ev)
        worst["evals"] = max(worst["evals"], ev / tol_val)
        # (iv) residual A X - M X E, column norms
        MX = Mb @ Xb if Mb is not None else Xb
        R = Ab @ Xb - MX * Eb.to(dt)
        rn = float(torch.linalg.vector_norm(R, dim=-2).max())
        if ev > tol_val:
            # configuration class of the failure: an iteration that met its residual test on genuine eigenpairs next to the
            # requested end of the spectrum but skipped one (Krylov misconvergence), as opposed to any other wrong answer
            cand = (w[:neig + 2] if low else w[max(0, n - neig - 2):]).tolist()
            evals_fail_classes.append(bool(method == "davidson" and dav_exit_converged and rn <= tol_res
                                           and _matches_neighbours(Eb.tolist(), cand, tol_val)))
        raw["resid"] = max(raw["resid"], rn)
        worst["resid"] = max(worst["resid"], rn / tol_res)
        # (v) M-orthonormality
        G = Xb.transpose(-2, -1).conj() @ MX - torch.eye(neig, dtype=dt)
        on = float(G.abs().max())
        raw["orth"] = max(raw["orth"], on)
        worst["orth"] = max(worst["orth"], on / tol_orth)
        # (vi) invariant subspaces of complete, isolated groups
        idx = list(range(n))[sel]
        groups = []
        cur = [idx[0]]
        for i in idx[1:]:
            if float(w[i] - w[i - 1]) > 0.05:
                groups.append(cur)
                cur = [i]
            else:
                cur.append(i)
        groups.append(cur)
        for g in groups:
            lo_i, hi_i = g[0], g[-1]
            gap = float("inf")
            if lo_i > 0:
                gap = min(gap, float(w[lo_i] - w[lo_i - 1]))
            if hi_i < n - 1:
                gap = min(gap, float(w[hi_i + 1] - w[hi_i]))
            if gap < 0.05:
                n_groups_skipped += 1      # cut through a cluster / degenerate group, or a free spectrum with a small gap
                continue
            cols = [i - idx[0] for i in g]
            Xg = Xb[:, cols]
            Vg = V[:, g]
            Mm = Mb if Mb is not None else torch.eye(n, dtype=dt)
            P = Xg @ Xg.transpose(-2, -1).conj() @ Mm
            Pref = Vg @ Vg.transpose(-2, -1).conj() @ Mm
            pe = float(torch.linalg.matrix_norm(P - Pref, ord="fro"))
            g_eff = min(gap, 1.0)
            tol_sub = 4 * math.sqrt(len(g)) * kM * (tol_res / g_eff + tol_orth)
            raw["sub"] = max(raw["sub"], pe)
            worst["sub"] = max(worst["sub"], pe / tol_sub)
            n_groups_compared += 1
    obs.count("groups_compared", n_groups_compared)
    obs.count("groups_cut_or_unisolated", n_groups_skipped)
    mis = ":misconverged" if (evals_fail_classes and all(evals_fail_classes) and worst["resid"] <= 1.0 and worst["orth"] <= 1.0) else ""
    if mis:
        obs.count("davidson_misconverged")
    obs.check(worst["order"] <= 1.0, "order:%s" % key, "eigenvalues not in ascending order (violation/tolerance %.3e)" % worst["order"],
              E=E)
    obs.check(worst["evals"] <= 1.0, "evals:%s%s" % (key, mis),
              "returned eigenvalues are not the %d %s of the LAPACK reference: max error %.3e, error/tolerance %.3e" % (
                  neig, "lowest" if low else "uppermost", raw["evals"], worst["evals"]),
              spec=desc["spec"], n=n, neig=neig, opA=desc["opA"], mode=mode, kM=kM, dtype=desc["dtype"])
    obs.check(worst["resid"] <= 1.0, "resid:%s" % key,
              "|A X - M X E| column norm %.3e, residual/tolerance %.3e" % (raw["resid"], worst["resid"]),
              spec=desc["spec"], n=n, neig=neig, opA=desc["opA"], kM=kM, dtype=desc["dtype"])
    obs.check(worst["orth"] <= 1.0, "orth:%s" % key,
              "|X^H M X - I| max entry %.3e, error/tolerance %.3e" % (raw["orth"], worst["orth"]),
              spec=desc["spec"], n=n, neig=neig, opA=desc["opA"], kM=kM, dtype=desc["dtype"])
    obs.check(worst["sub"] <= 1.0, "subspace:%s%s" % (key, mis),
              "M-orthogonal projector onto a complete eigenvalue group differs from the reference: %.3e, error/tolerance %.3e" % (
                  raw["sub"], worst["sub"]), spec=desc["spec"], n=n, neig=neig, opA=desc["opA"], kM=kM)
    obs.note(ratios={k: float("%.3g" % v) for k, v in worst.items()}, raw={k: float("%.3g" % v) for k, v in raw.items()},
             iters=iters, illcond_qr=bool(illcond_tag(log)), path=log["path"], full_batch=list(full), normA=normA, kM=kM)
    obs.nontrivial = n >= 2 and (method != "davidson" or iters >= 2)


# ------------------------------------------------------------------------------------------------------ svd
def run_svd(desc, obs):
    import xitorch
    from xitorch.linalg import svd
    rng = random.Random(desc["seed"])
    tgen = torch.Generator().manual_seed(desc["seed"])
    dt = gen.rdtype(desc["dtype"])
    m, n, k, method, mode = desc["m"], desc["n"], desc["k"], desc["method"], desc["mode"]
    p = min(m, n)
    BA = tuple(desc["batch"])
    nb = int(np.prod(BA)) if BA else 1
    mats = []
    for _ in range(nb):
        s = torch.tensor([desc["smin"] * v for v in gen.spectrum("spd", p, desc["kappa"], rng)], dtype=torch.float64).to(dt)
        u = gen.rand_unitary(m, (), dt, tgen)[:, :p]
        v = gen.rand_unitary(n, (), dt, tgen)[:, :p]
        if desc.get("herm"):
            signs = torch.tensor([rng.choice([-1.0, 1.0]) for _ in range(p)], dtype=torch.float64).to(dt)
            v = u * signs                                   # A = U diag(+-s) U^H
        mats.append((u * s) @ v.transpose(-2, -1).conj())
    A = torch.stack(mats).reshape(*BA, m, n) if BA else mats[0]
    counter = {}
    if desc.get("herm"):
        A = 0.5 * (A + A.transpose(-2, -1).conj())
        desc = dict(desc, opA=rng.choice(["dense_herm", "herm_mv", "herm_all"]))
        obs.count("svd_hermitian_indefinite")
    try:
        Aop = gen.leaf_operator(desc["opA"], A, counter)
    except Exception as e:
        obs.exc_violation("construct:%s" % desc["opA"], e)
        obs.nontrivial = True
        return
    mname = method or "default"
    low = (mode or "uppest").lower() == "lowest"
    key0 = "%s:%s:%s" % (mname, desc["shape"], "lowest" if low else "uppest")
    kw = {}
    if mode is not None:
        kw["mode"] = mode
    if method is not None:
        kw["method"] = method
    k_arg = None if desc.get("k_none") else k
    log = new_log()
    with WarnLog() as wl, torch.no_grad(), reach_spies(log):
        try:
            U, S, Vh = svd(Aop, k_arg, **kw)
        except Exception as e:
            count_reach(obs, log, method, p, k)
            obs.exc_violation("svd:%s%s:batch%d" % (key0, illcond_tag(log), len(BA)), e, opA=desc["opA"], dtype=desc["dtype"])
            obs.nontrivial = True
            return
    key = key0 + illcond_tag(log)
    iters = count_reach(obs, log, method, p, k)
    obs.count("svd_%s" % desc["shape"])
    obs.count("svd_method_%s" % mname)
    obs.count("svd_op_%s" % desc["opA"])
    if k == p:
        obs.count("svd_full_k")
    if dt.is_complex:
        obs.count("complex_cases")
    obs.count("operator_products", sum(counter.values()))
    want = (BA + (m, k), BA + (k,), BA + (k, n))
    got = (tuple(U.shape), tuple(S.shape), tuple(Vh.shape))
    if not obs.check(got == want, "svd_shape:%s" % key, "returned shapes %s, expected %s" % (got, want), opA=desc["opA"]):
        obs.nontrivial = True
        return
    fin = all(_finite(t) for t in (U, S, Vh))
    if not obs.check(fin, "svd_finite:%s" % key, "non-finite entries in the returned factors"):
        obs.nontrivial = True
        return
    obs.check(not S.is_complex(), "svd_s_dtype:%s" % key, "singular values returned with dtype %s" % S.dtype)
    S = (S.real if S.is_complex() else S).double()
    U, Vh = U.to(dt), Vh.to(dt)
    sref = torch.linalg.svdvals(A)                       # descending, (*BA, p)
    smax, smin = float(sref[..., 0].max()), float(sref[..., -1].min())
    kap = float((sref[..., 0] / sref[..., -1]).max())
    dav = method == "davidson"
    r_eig = 10 * math.sqrt(p) * 1e-6 if dav else 0.0     # residual bound of the eigenproblem on A^H A (davidson's stopping test)
    base = 2000 * EPS * max(m, n)
    tol_s = base * smax * kap + r_eig / smin
    tol_orth_eig = 1e-7 if dav else base
    tol_orth_der = base * kap ** 2 + 4 * r_eig / smin ** 2 + tol_orth_eig * kap ** 2
    tol_av = base * smax * kap + 2 * r_eig / smin
    tol_rec = base * smax * kap ** 2 + 4 * r_eig * smax / smin ** 2 + tol_orth_eig * smax * kap
    # (a) non-negative
    obs.check(bool((S >= 0).all()), "svd_nonneg:%s" % key, "negative singular value returned", S=S)
    # (b) the k largest / smallest
    want_s = sref[..., p - k:] if low else sref[..., :k]
    es = float((torch.sort(S, dim=-1).values - torch.sort(want_s, dim=-1).values).abs().max())
    # (c) orthonormal columns of U / rows of Vh
    Ik = torch.eye(k, dtype=dt)
    eu = float((U.transpose(-2, -1).conj() @ U - Ik).abs().max())
    evv = float((Vh @ Vh.transpose(-2, -1).conj() - Ik).abs().max())
    tol_u, tol_v = (tol_orth_eig, tol_orth_der) if m < n else (tol_orth_der, tol_orth_eig)
    # (d) A v_i = s_i u_i
    V = Vh.transpose(-2, -1).conj()
    eav = float(torch.linalg.vector_norm(A @ V - U * S.unsqueeze(-2).to(dt), dim=-2).max())
    ratios = {"s": es / tol_s, "orthU": eu / tol_u, "orthV": evv / tol_v, "Av": eav / tol_av}
    raw = {"s": es, "orthU": eu, "orthV": evv, "Av": eav}
    mis = ""
    if ratios["s"] > 1 and dav and log["take"] and log["take"][-1][2] < p and ratios["Av"] <= 1 and ratios["orthU"] <= 1 \
            and ratios["orthV"] <= 1:
        Sf = torch.sort(S, dim=-1).values.reshape(nb, k)
        cf = (sref[..., max(0, p - k - 2):] if low else sref[..., :k + 2]).reshape(nb, -1)
        if all(_matches_neighbours(Sf[b].tolist(), sorted(cf[b].tolist()), tol_s) for b in range(nb)):
            mis = ":misconverged"
            obs.count("davidson_misconverged")
    obs.check(ratios["s"] <= 1, "svd_vals:%s%s" % (key, mis),
              "singular values are not the %d %s of torch.linalg.svdvals: max error %.3e (error/tolerance %.3e)" % (
                  k, "smallest" if low else "largest", es, ratios["s"]), opA=desc["opA"], m=m, n=n, k=k, kappa=kap)
    obs.check(ratios["orthU"] <= 1, "svd_orthU:%s" % key, "|U^H U - I| = %.3e (error/tolerance %.3e)" % (eu, ratios["orthU"]),
              opA=desc["opA"], m=m, n=n, k=k, kappa=kap)
    obs.check(ratios["orthV"] <= 1, "svd_orthV:%s" % key, "|V^H V - I| = %.3e (error/tolerance %.3e)" % (evv, ratios["orthV"]),
              opA=desc["opA"], m=m, n=n, k=k, kappa=kap)
    obs.check(ratios["Av"] <= 1, "svd_Av:%s" % key, "|A v_i - s_i u_i| = %.3e (error/tolerance %.3e)" % (eav, ratios["Av"]),
              opA=desc["opA"], m=m, n=n, k=k, kappa=kap)
    if k == p:
        rec = (U * S.unsqueeze(-2).to(dt)) @ Vh
        er = float((rec - A).abs().max())
        ratios["recon"] = er / tol_rec
        raw["recon"] = er
        obs.check(ratios["recon"] <= 1, "svd_recon:%s" % key, "|U diag(S) V^H - A| = %.3e (error/tolerance %.3e)" % (er, ratios["recon"]),
                  opA=desc["opA"], m=m, n=n, kappa=kap)
    obs.note(ratios={a: float("%.3g" % b) for a, b in ratios.items()}, raw={a: float("%.3g" % b) for a, b in raw.items()},
             iters=iters, illcond_qr=bool(illcond_tag(log)), path=log["path"], kappa=kap, smin=smin)
    obs.nontrivial = p >= 2 and (not dav or iters >= 2)


def run_decoupled(desc, obs):
    import scipy.linalg
    from xitorch.linalg import symeig
    n, pos, neig, mode, batch = desc["n"], desc["pos"], desc["neig"], desc["mode"], tuple(desc["batch"])
    tg = torch.Generator().manual_seed(desc["seed"])
    nb = 1
    for b in batch:
        nb *= b
    mats = []
    for _ in range(nb):
        q, _r = torch.linalg.qr(torch.randn(n - 1, n - 1, dtype=torch.float64, generator=tg))
        ev = 1.0 + 0.35 * torch.arange(n - 1, dtype=torch.float64) + 0.1 * torch.rand(n - 1, dtype=torch.float64, generator=tg)
        R = (q * ev) @ q.T
        R = 0.5 * (R + R.T)
        lam0 = 0.6 if mode == "lowest" else float(ev.max()) + 0.7        # the decoupled eigenvalue lies on the requested side
        A = torch.zeros(n, n, dtype=torch.float64)
        idx = [i for i in range(n) if i != pos]
        A[pos, pos] = lam0
        A[torch.tensor(idx)[:, None], torch.tensor(idx)[None, :]] = R
        mats.append(A)
    A = torch.stack(mats).reshape(*batch, n, n) if batch else mats[0]
    op = gen.leaf_operator(desc["opA"], A)
    mech = "decoupled:davidson:%s:%s" % (mode, "batch" if batch else "nobatch")
    try:
        with WarnLog():
            evals, evecs = symeig(op, neig=neig, mode=mode, method="davidson", v_init="eye")
    except Exception as e:
        obs.exc_violation(mech, e)
        obs.nontrivial = True
        return
    flatA = A.reshape(-1, n, n)
    fe = evals.reshape(-1, neig)
    fv = evecs.reshape(-1, n, neig)
    for b in range(flatA.shape[0]):
        ref = torch.tensor(scipy.linalg.eigh(flatA[b].numpy(), eigvals_only=True))
        want = ref[:neig] if mode == "lowest" else ref[-neig:]
        err = float((fe[b] - want).abs().max())
        obs.check(err <= 1e-4, "evals:" + mech, "returned eigenvalues %s, the %d %s of the LAPACK reference are %s" % (fe[b].tolist(), neig, mode, want.tolist()))
        res = float((flatA[b] @ fv[b] - fv[b] * fe[b]).norm(dim=0).max())
        obs.check(res <= 1e-4, "resid:" + mech, "|A x - e x| = %.3e" % res)
        orth = float((fv[b].T @ fv[b] - torch.eye(neig, dtype=torch.float64)).abs().max())
        obs.check(orth <= 1e-7, "orth:" + mech, "|X^T X - I| = %.3e (a zero or duplicated eigenvector)" % orth)
    obs.count("decoupled_cases")
    obs.nontrivial = True


def run_case(desc):
    obs = Obs(desc)
    if desc["group"] == "decoupled":
        run_decoupled(desc, obs)
        return obs.result()
    if desc["group"] == "svd_lowrank":
        cx.run_lowrank(desc, obs, reach_spies, new_log, count_reach)
        return obs.result()
    if desc["group"] == "weakcoupled":
        cx.run_weak(desc, obs, reach_spies, new_log, count_reach, _matches_neighbours)
        return obs.result()
    if desc["group"] == "symeig":
        run_symeig(desc, obs)
    elif desc["group"] == "svd":
        run_svd(desc, obs)
    else:
        raise HarnessBug("unknown group %s" % desc["group"])
    return obs.result()
