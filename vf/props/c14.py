"""C14 - Interp1D evaluates the declared interpolant of the samples (reference-model monitor).

Every case builds one set of samples and one query set and runs the REAL Interp1D four times - y given at
construction / at call, with few (numel(xq) <= numel(x)) and many (numel(xq) > numel(x)) queries, which select the
two internal evaluation formulas - with y and xq requiring grad.  Values, the gradient w.r.t. y and the gradient
w.r.t. xq are compared with scipy.interpolate.CubicSpline / numpy.interp on the sorted data (interpolation matrix
rows, spline derivative / segment slope), the extrapolated entries with the documented rule of the mode.

Group manyq runs the same four evaluations and oracles with a very large query set (128 to 65537 points; counts at and next to
powers of two, primes, round and random numbers) in place of the "many" set - its mechanism keys carry the size name "vmany"."""
import math
import random

import numpy as np
import torch

from vf.common import Obs, sub_seed, HarnessBug
from vf import interp_ref as ir

LEVEL = "exploration"
TECHNIQUE = ("runtime reference-model monitor: Interp1D on generated samples/queries vs scipy CubicSpline / numpy.interp "
             "(values, interpolation-matrix rows for d/dy, spline derivative for d/dxq), both evaluation formulas and both "
             "y routes per case, documented extrapolation table, reach counters on the internal formulas")
LEVEL_TEXT = ("Held on every generated case of the run: methods {linear, cspline} x bc {default, not-a-knot, natural, clamped, "
              "periodic} x extrapolation {default, nan, float, int, 0-d / 1-element tensor, callable, bound, mirror, periodic, none "
              "needed} x grids (uniform/random/clustered/graded, 3-40 knots; sorted, assumed sorted, shuffled, reversed) x query "
              "sets (knots, range ends, inside, outside up to 2.6 ranges away; shuffled; 1..3nx points) x y batch shapes x "
              "float64/float32, each evaluated through both internal formulas and with y at construction and at call; plus query sets "
              "of 128 to 65537 points (powers of two and their neighbours, primes, round and random counts) over the same table.")
LEVEL_NOTE = ("Trusts scipy.interpolate.CubicSpline and numpy.interp; tolerances 2000*eps*G*(max|y| + max|slope|*hmax) (see ASSUMPTIONS), >= 200x "
              "the largest error seen on the repaired tree over seeds 0-3; sample positions never require grad; x and xq are 1-D.")
RULE = ("cases = seeded samples over method x bc_type x extrapolation mode x grid kind x nx in [3,40] x sample order x y batch shape x "
        "dtype x query layout, plus the full (bc, extrap) table on small grids and the nx in {3,4,5} table; non-trivial = samples not "
        "constant, the case really went through BOTH evaluation formulas (counted by a wrapper on _interp) and all four "
        "(route x size) results were compared with the reference (values, d/dy, d/dxq)")
RULE += ('; group manyq = the same oracles on query sets of 128-65537 points (count classes pow2 / pow2-1 / pow2+1 / prime / round / random, '
         'count taken on the whole set or on the points reaching the evaluation formula), mechanism keys carry the size name "vmany"')
RULE += ('; every second extrapolation callable is defined (finite, differentiable) outside the sample range only')
MIN_NONTRIVIAL = {"quick": 1300, "thorough": 12000}
ASSUMPTIONS = ["sample positions distinct, 1-D, never requiring grad; x in [-3, 6], range 0.5-4; adjacent spacing ratio <= e^3, max/min spacing <= 1e3",
               "queries 1-D; outside queries lie within 2.6 ranges of the sample range and keep a normalised distance >= 0.02 from every "
               "integer multiple of the range (away from the kinks of the mirror image / the wrap of the periodic image)",
               "y ~ N(0,1); periodic bc_type or periodic extrapolation get y[...,0] == y[...,-1]",
               "not-a-knot on 3 knots = the parabola (both not-a-knot conditions coincide; scipy's convention)",
               "value tolerance 2000*eps*G*(max|y| + max|slope|*hmax), G = adjacent spacing ratio (incl. last/first for periodic); for outside "
               "queries mapped into the range (mirror/periodic/bound) hmax is replaced by hmax+max|x|+max|xq| (rounding of the mapped position); "
               "d/dxq tolerance 2000*eps*G*max|slope|*hmax/hmin (mapped: (hmax+max|x|+max|xq|)/hmin); float32 uses eps32; matrix / d/dy tolerance 2000*eps*G*max|M|*(1+hmax/hmin) (basis functions have slopes ~ 1/hmin)",
               "d/dxq of the piecewise-linear interpolant is not compared at queries that coincide with a knot (one-sided there), nor at outside "
               "queries whose mirror / periodic image lies within 4*eps*(max|x|+max|xq|) of a knot (the rounding of the image decides the side)",
               "group manyq: 128 to 65537 query points (2^k, 2^k-1, 2^k+1 for k in 7..16, primes, round numbers, log-uniform random), of which 1-30 % "
               "outside when the mode extrapolates; the count is that of the whole query set or of the points that reach the evaluation formula"]
BUDGET = {"quick": {"worker_timeout": 600, "case_timeout": 60}, "thorough": {"worker_timeout": 2400, "case_timeout": 60}}
_RC = {"cspline_formula_few": 300, "cspline_formula_many": 300, "linear_formula_few": 100, "linear_formula_many": 100,
       "extrap_pos_calls": 150, "extrap_val_calls": 150, "late_y_resorted": 150, "spline_mat_built": 600,
       "grad_y_compared": 900, "grad_xq_compared": 900, "knot_queries": 2000, "outside_queries": 2000,
       "bc_not-a-knot": 60, "bc_natural": 60, "bc_clamped": 60, "bc_periodic": 60, "bc_default": 60,
       "extrap_mode_mirror": 60, "extrap_mode_periodic": 60, "extrap_mode_bound": 40, "extrap_mode_nan": 60,
       "extrap_mode_callable": 30, "extrap_callable_defined_outside_only": 10, "extrap_mode_const": 60, "batched_y_cases": 300,
       # group manyq (128 .. 65537 query points)
       "manyq_cases": 400, "manyq_vmany_sets_compared": 800, "manyq_queries": 2000000, "manyq_points_through_formula": 5000000,
       "manyq_class_pow2": 30, "manyq_class_pow2m1": 30, "manyq_class_pow2p1": 30, "manyq_class_prime": 30, "manyq_class_round": 30,
       "manyq_class_random": 30, "manyq_nq_upto_1k": 40, "manyq_nq_1k_4k": 40, "manyq_nq_4k_16k": 40, "manyq_nq_over_16k": 40,
       "manyq_method_linear": 80, "manyq_method_cspline": 250, "manyq_batched_y": 200, "manyq_extrap_mirror": 20,
       "manyq_extrap_periodic": 20, "manyq_extrap_bound": 20, "manyq_extrap_nan": 20, "manyq_extrap_callable": 20, "manyq_extrap_const": 80}
REQUIRED_COUNTERS = {"quick": dict(_RC), "thorough": {k: 8 * v for k, v in _RC.items()}}

BCS = ["default", "not-a-knot", "natural", "clamped", "periodic"]
EXTRAPS = ["default", "nan", "float", "int", "tensor0", "tensor1", "callable", "bound", "mirror", "periodic", "inside"]
ORDERS = ["sorted", "sorted_assumed", "shuffled", "shuffled", "reversed"]
YBATCH = [(), (2,), (3, 2), (1,), (1, 2), (4,)]
C_TOL = 2000.0


def cases(seed, tier):
    out = []
    N = 1300 if tier == "quick" else 15000
    for i in range(N):
        rng = random.Random(sub_seed(seed, "c14", i))
        d = {"group": "rand", "seed": sub_seed(seed, "c14s", i)}
        d["method"] = "linear" if i % 4 == 0 else "cspline"
        d["bc"] = rng.choice(BCS) if d["method"] == "cspline" else "-"
        d["extrap"] = rng.choice(EXTRAPS)
        d["nx"] = rng.choice([3, 4, 5, 6, 7, 8, 9, 10, 12, 13, 16, 21, 30, 40])
        d["grid"] = rng.choice(ir.GRID_KINDS)
        d["order"] = rng.choice(ORDERS)
        d["ybatch"] = rng.randrange(len(YBATCH))
        d["dtype"] = rng.choice(["float64", "float64", "float64", "float32"])
        d["qlayout"] = rng.choice(["shuffled", "shuffled", "sorted", "strided"])
        out.append(d)
    # full (method/bc, extrap) table on small grids, shuffled samples
    k = 0
    for method, bc in [("linear", "-")] + [("cspline", b) for b in BCS]:
        for ex in EXTRAPS:
            for nx in (5, 8):
                out.append({"group": "bc_extrap_table", "seed": sub_seed(seed, "c14t", k), "method": method, "bc": bc, "extrap": ex,
                            "nx": nx, "grid": ir.GRID_KINDS[k % 4], "order": "shuffled", "ybatch": k % len(YBATCH),
                            "dtype": "float64", "qlayout": "shuffled"})
                k += 1
    # smallest grids
    k = 0
    for nx in (3, 4, 5):
        for method, bc in [("linear", "-")] + [("cspline", b) for b in BCS]:
            for ex in ("inside", "default", "mirror", "nan"):
                out.append({"group": "small_nx", "seed": sub_seed(seed, "c14n", k), "method": method, "bc": bc, "extrap": ex, "nx": nx,
                            "grid": ir.GRID_KINDS[k % 4], "order": ORDERS[k % 5], "ybatch": k % len(YBATCH), "dtype": "float64",
                            "qlayout": "shuffled"})
                k += 1
    # ---- histories on ONE object: y supplied at call time with a sequence of different batch shapes
    nre = 90 if tier == "quick" else 900
    for i in range(nre):
        rng = random.Random(sub_seed(seed, "c14re", i))
        pool = [(), (1,), (2,), (3,), (2, 2), (1, 3), (4,)]
        shapes = [list(rng.choice(pool)) for _ in range(rng.choice([2, 3, 4, 5]))]
        out.append({"group": "reuse", "seed": sub_seed(seed, "c14res", i), "method": ["cspline", "linear"][i % 2], "nx": rng.choice([4, 6, 9]),
                    "nq": rng.choice([3, 12]), "shuffled": i % 4 != 3, "shapes": shapes})
    # ---- very many query points: counts at / next to powers of two, primes, round numbers, random (128 .. 65537), so that any
    # internal threshold on the number of queries (blocking, chunking, switching of formulas) is crossed with a remainder
    nmq = 440 if tier == "quick" else 2200
    for i in range(nmq):
        rng = random.Random(sub_seed(seed, "c14mq", i))
        d = {"group": "manyq", "seed": sub_seed(seed, "c14mqs", i)}
        d["method"] = "linear" if i % 4 == 0 else "cspline"
        d["bc"] = rng.choice(BCS) if d["method"] == "cspline" else "-"
        d["extrap"] = EXTRAPS[i % len(EXTRAPS)]
        d["nx"] = rng.choice([3, 4, 5, 6, 7, 8, 9, 10, 12, 13, 16, 21, 30, 40])
        d["grid"] = rng.choice(ir.GRID_KINDS)
        d["order"] = rng.choice(ORDERS)
        d["ybatch"] = rng.choice([0, 1, 2, 2, 3, 4, 5])
        d["dtype"] = rng.choice(["float64", "float64", "float64", "float32"])
        d["qlayout"] = rng.choice(["shuffled", "shuffled", "sorted", "strided"])
        d["nqclass"] = cls = rng.choice(NQ_CLASSES)
        k = rng.randrange(7, 17)
        d["nq"] = {"pow2": 2 ** k, "pow2m1": 2 ** k - 1, "pow2p1": 2 ** k + 1, "prime": rng.choice(NQ_PRIMES),
                   "round": rng.choice(NQ_ROUND), "random": int(math.exp(rng.uniform(math.log(150.0), math.log(60000.0))))}[cls]
        # the count applies to the points that reach the evaluation formula ("interp": extrapolated points come on top in the
        # modes that split the query set) or to the whole query set ("total")
        d["count_on"] = rng.choice(["interp", "total"])
        out.append(d)
    return out


NQ_CLASSES = ["pow2", "pow2m1", "pow2p1", "prime", "round", "random"]
NQ_PRIMES = [131, 257, 521, 1009, 2053, 3001, 4099, 5003, 8191, 10007, 12289, 16381, 20011, 32771, 40009, 50021, 65537]
NQ_ROUND = [200, 500, 1000, 2000, 3000, 5000, 6000, 10000, 12000, 20000, 30000, 50000]


# ------------------------------------------------------------------------------------------------------- reference
class Ref:
    """interpolant of (xs, ys) on the sorted data: values, derivative and the matrix w.r.t. a basis of sample vectors"""

    def __init__(self, method, bc_eff, xs, ys, basis):
        self.method, self.xs, self.ys, self.basis = method, xs, ys, basis
        if method == "cspline":
            from scipy.interpolate import CubicSpline
            self.cs = CubicSpline(xs, ys, axis=-1, bc_type=ir.scipy_bc(bc_eff))
            self.csb = CubicSpline(xs, basis, axis=-1, bc_type=ir.scipy_bc(bc_eff))      # basis: (nb, nx)

    def val(self, pos):
        if self.method == "cspline":
            return self.cs(pos)                                   # (*batch, npos)
        flat = self.ys.reshape(-1, self.ys.shape[-1])
        r = np.stack([np.interp(pos, self.xs, row) for row in flat])
        return r.reshape(self.ys.shape[:-1] + (len(pos),))

    def der(self, pos):
        if self.method == "cspline":
            return self.cs(pos, 1)
        idx = np.clip(np.searchsorted(self.xs, pos, side="left"), 1, len(self.xs) - 1)
        sl = np.diff(self.ys, axis=-1) / np.diff(self.xs)
        return sl[..., idx - 1]

    def mat(self, pos):
        """(nb, npos): response at pos to every basis vector"""
        if self.method == "cspline":
            return self.csb(pos)
        return np.stack([np.interp(pos, self.xs, row) for row in self.basis])


def run_reuse(desc):
    """history monitor: ONE Interp1D object (y given at call time) evaluated on a sequence of y tensors with different batch shapes;
    every call must give what a fresh object gives (the interpolant of *that* y), whatever was evaluated before"""
    from xitorch.interpolate import Interp1D
    from scipy.interpolate import CubicSpline
    obs = Obs(desc)
    rng = random.Random(desc["seed"])
    nprng = np.random.default_rng(desc["seed"])
    nx, method = desc["nx"], desc["method"]
    xs = np.sort(nprng.uniform(-1.0, 1.0, nx)) + np.arange(nx) * 0.3
    perm = nprng.permutation(nx) if desc["shuffled"] else np.arange(nx)
    xq = np.sort(nprng.uniform(xs[0], xs[-1], desc["nq"]))
    opts = {"bc_type": "natural"} if method == "cspline" else {}
    obj = Interp1D(torch.tensor(xs[perm]), method=method, assume_sorted=not desc["shuffled"], **opts)
    shapes = [tuple(sh) for sh in desc["shapes"]]
    mech = "reuse:%s:%s" % (method, "shuffled" if desc["shuffled"] else "sorted")
    for i, sh in enumerate(shapes):
        y = nprng.standard_normal(sh + (nx,))
        yt = torch.tensor(y[..., perm])
        try:
            out = obj(torch.tensor(xq), yt)
        except Exception as e:
            obs.exc_violation("%s:call%d_after_%s" % (mech, min(i, 1), "other_batch" if i else "nothing"), e, shapes=[list(s_) for s_ in shapes[:i + 1]])
            break
        flat = y.reshape(-1, nx)
        if method == "cspline":
            ref = np.stack([CubicSpline(xs, row, bc_type="natural")(xq) for row in flat])
        else:
            ref = np.stack([np.interp(xq, xs, row) for row in flat])
        ref = ref.reshape(sh + (len(xq),))
        ok_shape = tuple(out.shape) == ref.shape
        obs.check(ok_shape, "%s:shape" % mech, "call %d with y%s on a reused object returned shape %s, a fresh object gives %s (earlier calls: %s)"
                  % (i, sh + (nx,), tuple(out.shape), ref.shape, [list(s_) for s_ in shapes[:i]]))
        if ok_shape:
            err = float(np.abs(out.numpy() - ref).max())
            obs.check(err <= 1e-9 * (1 + float(np.abs(ref).max())), "%s:value" % mech,
                      "call %d on a reused object differs from the interpolant of its own y by %.3e" % (i, err))
        obs.count("reuse_calls")
    obs.nontrivial = len(shapes) >= 2
    return obs.result()


def _many_queries(desc, rng, nprng, xs, npdt, mapped_mode, allow_out):
    """query set of the group manyq, [(value, kind)]: desc["nq"] points - knots (both range ends always), midpoints, uniform
    inside and, when the mode allows, 1-30 % outside (same bounds as the other groups) - in random order"""
    nx, nq = len(xs), desc["nq"]
    xmin, xmax = float(xs[0]), float(xs[-1])
    L = xmax - xmin
    n_out = 0
    if allow_out:
        n_out = max(1, int(nq * rng.uniform(0.01, 0.3)))
    # which count is the generated one: the points that go through the evaluation formula, or the whole query set
    n_in = nq if (desc["count_on"] == "interp" and not mapped_mode) or n_out == 0 else nq - n_out
    n_knot = min(n_in, 2 + rng.randrange(1, 2 * nx))
    kn = np.concatenate([[0, nx - 1], nprng.integers(0, nx, n_knot)])[:n_knot]
    vals = [xs[kn]]
    n_mid = (n_in - n_knot) // 4
    j = nprng.integers(0, nx - 1, n_mid)
    vals.append(0.5 * (xs[j] + xs[j + 1]))
    vals.append(nprng.uniform(xmin, xmax, n_in - n_knot - n_mid))
    vin = np.concatenate(vals).astype(npdt).astype(np.float64)
    if len(vin) != n_in or not np.all((vin >= xmin) & (vin <= xmax)):
        raise HarnessBug("manyq: inside queries left the range")
    kin = np.where(np.isin(vin, xs), "knot", "in")
    vout = np.zeros(0)
    while len(vout) < n_out:
        u = nprng.uniform(-2.6, 3.6, 2 * (n_out - len(vout)) + 8)
        u = u[~((u >= 0.0) & (u <= 1.0)) & (np.abs(u - np.round(u)) >= 0.02)]
        v = (xmin + u * L).astype(npdt).astype(np.float64)
        un = (v - xmin) / L
        v = v[~((v >= xmin) & (v <= xmax)) & (np.abs(un - np.round(un)) >= 0.015)]
        vout = np.concatenate([vout, v])[:n_out]
    allv = np.concatenate([vin, vout])
    allk = np.concatenate([kin, np.full(len(vout), "out")])
    p = nprng.permutation(len(allv))
    return list(zip(allv[p].tolist(), allk[p].tolist()))


def run_case(desc):
    if desc.get("group") == "reuse":
        return run_reuse(desc)
    import xitorch  # noqa: F401
    from xitorch.interpolate import Interp1D
    import xitorch._impls.interpolate.interp_1d as imod

    obs = Obs(desc)
    rng = random.Random(desc["seed"])
    nprng = np.random.default_rng(desc["seed"])
    method, bc, exmode, nx = desc["method"], desc["bc"], desc["extrap"], desc["nx"]
    f32 = desc["dtype"] == "float32"
    dt = torch.float32 if f32 else torch.float64
    npdt = np.float32 if f32 else np.float64
    eps = float(torch.finfo(dt).eps)
    ybatch = YBATCH[desc["ybatch"]]

    # ---------------------------------------------------------------- samples
    xs = ir.make_grid(desc["grid"], nx, rng, float32=f32)
    st = ir.grid_stats(xs)
    ys = nprng.standard_normal(ybatch + (nx,)).astype(npdt).astype(np.float64)
    bc_eff = None
    opts = {}
    if method == "cspline":
        bc_eff = "not-a-knot" if bc == "default" else bc
        if bc != "default":
            opts["bc_type"] = bc
    # effective extrapolation rule (documented defaults)
    if exmode in ("default", "inside"):
        eff = {"clamped": "mirror", "periodic": "periodic"}.get(bc_eff, "nan")
    elif exmode in ("float", "int", "tensor0", "tensor1"):
        eff = "const"
    else:
        eff = exmode
    cval = None
    ca, cb = rng.uniform(-2, 2), rng.uniform(-2, 2)
    if exmode == "nan":
        opts["extrap"] = "nan"
    elif exmode == "float":
        cval = round(rng.uniform(-3, 3), 3)
        opts["extrap"] = cval
    elif exmode == "int":
        cval = rng.choice([-3, -1, 0, 2, 5])
        opts["extrap"] = cval
    elif exmode == "tensor0":
        cval = round(rng.uniform(-3, 3), 3)
        opts["extrap"] = torch.tensor(cval, dtype=dt)
    elif exmode == "tensor1":
        cval = round(rng.uniform(-3, 3), 3)
        opts["extrap"] = torch.tensor([cval], dtype=dt)
    elif exmode == "callable":
        # every second callable is only defined (finite, differentiable) OUTSIDE the sample range - all a user has to provide
        sing = desc["seed"] % 2 == 1
        xlo_, xhi_ = float(xs.min()), float(xs.max())
        if sing:
            opts["extrap"] = lambda z: ca * torch.sqrt((z - xlo_) * (z - xhi_)) + cb
        else:
            opts["extrap"] = lambda z: ca * torch.cos(z) + cb * torch.sin(z)
    elif exmode in ("bound", "mirror", "periodic"):
        opts["extrap"] = exmode
    if cval is not None and f32:
        cval = float(np.float32(cval))
    periodic_y = bc_eff == "periodic" or eff == "periodic"
    if periodic_y:
        ys[..., -1] = ys[..., 0]
    xmin, xmax = float(xs[0]), float(xs[-1])
    L = xmax - xmin

    # sample order handed to xitorch
    order = desc["order"]
    if order in ("sorted", "sorted_assumed"):
        perm = np.arange(nx)
    elif order == "reversed":
        perm = np.arange(nx)[::-1].copy()
    else:
        perm = nprng.permutation(nx)
    xin = torch.tensor(xs[perm], dtype=dt)
    yin_np = ys[..., perm]
    if order == "sorted_assumed":
        opts["assume_sorted"] = True

    # ---------------------------------------------------------------- queries
    allow_out = exmode != "inside"
    manyq = desc["group"] == "manyq"
    big = "vmany" if manyq else "many"          # name of the larger query set in the mechanism keys
    if manyq:
        qs = _many_queries(desc, rng, nprng, xs, npdt, allow_out and eff in ("mirror", "periodic", "bound"), allow_out)
    n_in_many = 0 if manyq else nx + 1 + rng.randrange(0, 2 * nx)
    qs = qs if manyq else []        # (value, kind)
    knot_ids = [] if manyq else [0, nx - 1] + [rng.randrange(nx) for _ in range(max(1, n_in_many // 4))]
    for j in knot_ids:
        qs.append((float(xs[j]), "knot"))
    while len(qs) < n_in_many:
        if rng.random() < 0.3:
            j = rng.randrange(nx - 1)
            v = 0.5 * (xs[j] + xs[j + 1])
        else:
            v = rng.uniform(xmin, xmax)
        v = float(npdt(v))
        if xmin <= v <= xmax:
            qs.append((v, "knot" if v in xs else "in"))
    n_out = 0
    if allow_out and not manyq:
        n_out = rng.randrange(1, 2 + nx // 2)
        while n_out > 0:
            u = rng.uniform(-2.6, 3.6)
            if 0.0 <= u <= 1.0 or abs(u - round(u)) < 0.02:
                continue
            v = float(npdt(xmin + u * L))
            un = (v - xmin) / L
            if xmin <= v <= xmax or abs(un - round(un)) < 0.015:
                continue
            qs.append((v, "out"))
            n_out -= 1
    if not manyq:                                   # (the manyq generator returns a random order)
        rng.shuffle(qs)
    # the few set: a subset with at most nx points which keeps an outside point and a knot when there are any
    nfew = rng.randrange(1, nx + 1)
    first_out = next((i for i, q in enumerate(qs) if q[1] == "out"), None)
    first_knot = next((i for i, q in enumerate(qs) if q[1] == "knot"), None)
    few_idx = []
    for i in (first_out, first_knot):
        if i is not None and len(few_idx) < nfew:
            few_idx.append(i)
    for i in range(len(qs)):
        if len(few_idx) >= nfew:
            break
        if i not in few_idx:
            few_idx.append(i)
    few_idx = sorted(few_idx)
    if desc["qlayout"] == "sorted":
        qs.sort()
        few_idx = sorted(rng.sample(range(len(qs)), len(few_idx)))
    xq_many = np.array([q[0] for q in qs], dtype=np.float64)
    kinds_many = np.array([q[1] for q in qs])
    sets = {big: (xq_many, kinds_many, np.arange(len(qs))),
            "few": (xq_many[few_idx], kinds_many[few_idx], np.array(few_idx))}
    xabs = float(np.abs(xs).max() + np.abs(xq_many).max())

    # ---------------------------------------------------------------- reference
    nb = nx - 1 if bc_eff == "periodic" or eff == "periodic" else nx
    if nb == nx:
        basis = np.eye(nx)
    else:
        basis = np.eye(nx)[: nx - 1].copy()
        basis[0, -1] = 1.0                           # e_0 + e_{n-1}, e_1, ..., e_{n-2}: the periodic sample vectors
    try:
        ref = Ref(method, bc_eff, xs, ys, basis)
    except Exception as e:  # the reference rejects the generated data: generator bug, never a verdict
        raise HarnessBug("reference construction failed: %r" % (e,))
    dense = np.linspace(xmin, xmax, 20 * nx + 1)
    smax = float(np.abs(ref.der(dense)).max()) if method == "cspline" else float(np.abs(np.diff(ys, axis=-1) / np.diff(xs)).max())
    ymax = max(float(np.abs(ys).max()), float(np.abs(ref.val(dense)).max()), 1e-300)
    G = max(1.0, st["adj_ratio"])
    if bc_eff == "periodic":
        G = max(G, st["wrap_ratio"])
    # queries inside the range are located exactly (xq - x_left is rounded once); an outside query that is mapped into the
    # range (mirror / periodic) carries the rounding of its position, eps*(|xq|+|x|), which the slope amplifies
    tol_in = C_TOL * eps * G * (ymax + smax * st["hmax"])
    tol_map = C_TOL * eps * G * (ymax + smax * (st["hmax"] + xabs))
    told_in = C_TOL * eps * G * max(smax, 1e-300) * (st["hmax"] / st["hmin"])
    told_map = C_TOL * eps * G * max(smax, 1e-300) * (st["hmax"] + xabs) / st["hmin"]
    tol_k = 1000 * eps * G * (ymax + smax * st["hmax"])
    tol_v = tol_in

    def reference(xq, kinds):
        """values (*batch, nq) [nan where the rule says nan], derivative w.r.t. xq (*batch, nq) [nan = not compared],
        matrix (nb, nq) of d value / d basis coefficient [nan = not compared]"""
        nq = len(xq)
        inside = (xq >= xmin) & (xq <= xmax)
        if not np.array_equal(inside, kinds != "out"):
            raise HarnessBug("query classification inconsistent")
        pos = xq.copy()
        sgn = np.ones(nq)
        out = ~inside
        if eff == "mirror":
            pos[out], sgn[out] = ir.mirror_pos(xq[out], xmin, xmax)
        elif eff == "periodic":
            pos[out], sgn[out] = ir.periodic_pos(xq[out], xmin, xmax)
        elif eff == "bound":
            pos[out] = np.clip(xq[out], xmin, xmax)
            sgn[out] = 0.0
        else:
            pos[out] = xmin          # placeholder, overwritten below
        pos = np.clip(pos, xmin, xmax)
        v = np.array(ref.val(pos), dtype=np.float64)
        d = np.array(ref.der(pos), dtype=np.float64) * sgn
        m = np.array(ref.mat(pos), dtype=np.float64)
        if eff == "nan":
            v[..., out] = np.nan
            d[..., out] = np.nan
            m[..., out] = np.nan
        elif eff == "const":
            v[..., out] = cval
            d[..., out] = np.nan
            m[..., out] = np.nan
        elif eff == "callable":
            if sing:
                v[..., out] = ca * np.sqrt((xq[out] - xlo_) * (xq[out] - xhi_)) + cb
            else:
                v[..., out] = ca * np.cos(xq[out]) + cb * np.sin(xq[out])
            d[..., out] = np.nan
            m[..., out] = np.nan
        if method == "linear":
            atknot = np.isin(pos, xs)
            if out.any() and eff in ("mirror", "periodic"):
                # an outside query is mapped into the range with a rounding of eps*(|x|+|xq|): within that distance of a knot the
                # segment (hence the one-sided slope) it lands on is decided by the rounding (seen up to 0.28 of that in float32)
                near = np.zeros(nq, dtype=bool)
                near[out] = np.abs(pos[out][:, None] - xs[None, :]).min(axis=1) <= 4.0 * eps * xabs
                atknot = atknot | near
            d[..., atknot & (sgn != 0.0)] = np.nan
        mapped = out & (eff in ("mirror", "periodic", "bound"))
        return v, d, m, mapped

    # ---------------------------------------------------------------- reach counters (restored in finally)
    reach = {"few": 0, "many": 0, "pos": 0, "val": 0, "mat": 0, "bigpts": 0}
    o_cs, o_li = imod.CubicSpline1D._interp, imod.LinearInterp1D._interp
    o_pos, o_val, o_mat = imod.get_extrap_pos, imod.get_extrap_val, imod._get_spline_mat_inv

    def wrap_interp(orig):
        def _interp(self, xq, y):
            reach["many" if xq.numel() > self.x.numel() else "few"] += 1
            if xq.numel() > 3 * 40 + 1:
                reach["bigpts"] += xq.numel()
            return orig(self, xq, y)
        return _interp

    def counting(orig, key):
        def f(*a, **k):
            reach[key] += 1
            return orig(*a, **k)
        return f

    mtag = "linear" if method == "linear" else "cspline:%s" % bc
    ntag = "n3" if nx == 3 else "n4+"
    btag = ":vmany" if manyq else ""
    results = {}
    compared = 0
    failed = False
    imod.CubicSpline1D._interp = wrap_interp(o_cs)
    imod.LinearInterp1D._interp = wrap_interp(o_li)
    imod.get_extrap_pos = counting(o_pos, "pos")
    imod.get_extrap_val = counting(o_val, "val")
    imod._get_spline_mat_inv = counting(o_mat, "mat")
    try:
        for size in ("few", big):
            xq_np, kinds, _ = sets[size]
            rv, rd, rm, mapped = reference(xq_np, kinds)
            tolv_q = np.where(mapped, tol_map, tol_in)
            told_q = np.where(mapped, told_map, told_in)
            amp = 1.0 + (st["hmax"] + (xabs if mapped.any() else 0.0)) / st["hmin"]
            fin = np.isfinite(rv)
            Cq = nprng.standard_normal(rv.shape)
            Cq_t = torch.tensor(Cq, dtype=dt)
            fin_t = torch.tensor(fin)
            for route in ("init", "call"):
                before = dict(reach)
                y_t = torch.tensor(yin_np, dtype=dt).requires_grad_()
                if desc["qlayout"] == "strided":
                    base = torch.zeros(2 * len(xq_np), dtype=dt)
                    base[::2] = torch.tensor(xq_np, dtype=dt)
                    base.requires_grad_()
                    xq_t = base[::2]
                else:
                    base = torch.tensor(xq_np, dtype=dt).requires_grad_()
                    xq_t = base
                key = "%s:%s:%s" % (mtag, route, size)
                try:
                    if route == "init":
                        itp = Interp1D(xin, y_t, method=method, **opts)
                        yq = itp(xq_t)
                    else:
                        itp = Interp1D(xin, method=method, **opts)
                        yq = itp(xq_t, y_t)
                        if itp.idx is not None:
                            obs.count("late_y_resorted")
                except Exception as e:
                    obs.exc_violation("eval:%s:%s:%s:%s" % (mtag, "extrap_" + eff if (kinds == "out").any() else "inside", route, ntag), e,
                                      nx=nx, nq=len(xq_np), order=order, ybatch=list(ybatch))
                    failed = True
                    continue
                which = "many" if reach["many"] > before["many"] else ("few" if reach["few"] > before["few"] else None)
                if which is not None:
                    obs.count("%s_formula_%s" % (method, which))
                want_shape = tuple(ybatch) + (len(xq_np),)
                if not obs.check(tuple(yq.shape) == want_shape, "shape:%s" % key,
                                 "returned shape %s, expected %s" % (tuple(yq.shape), want_shape), order=order):
                    failed = True
                    continue
                obs.check(yq.dtype == dt, "dtype:%s" % mtag, "returned %s for %s samples" % (yq.dtype, dt))
                got = yq.detach().double().numpy()
                results[(route, size)] = got
                # ---- values: inside / outside separately (different mechanisms)
                inside = kinds != "out"
                okfin = np.array_equal(np.isfinite(got), fin)
                obs.check(okfin, "nan_pattern:%s:%s:%s" % (mtag, eff, size),
                          "NaN pattern differs from the rule of extrapolation mode %s" % eff, xq=xq_np[:12], got=got.reshape(-1)[:12])
                err = np.where(fin & np.isfinite(got), np.abs(got - np.where(fin, rv, 0.0)), 0.0)
                e_in = float(err[..., inside].max()) if inside.any() else 0.0
                r_out = float((err / tolv_q)[..., ~inside].max()) if (~inside).any() else 0.0
                e_out = float(err[..., ~inside].max()) if (~inside).any() else 0.0
                obs.note(**{"worst_v": max(obs.obs.get("worst_v", 0.0), e_in / tol_v), "worst_vout": max(obs.obs.get("worst_vout", 0.0), r_out)})
                wrong = np.nonzero(((err > tol_v) & inside).reshape(-1, len(xq_np)).any(axis=0))[0]
                obs.check(e_in <= tol_v, "value:%s:%s:%s" % (key, desc["order"] if order != "sorted_assumed" else "sorted", ntag),
                          "interpolated values differ from the reference by %.3e (tolerance %.3e) at %d of %d query points, first at index %s" % (
                              e_in, tol_v, len(wrong), len(xq_np), wrong[0] if len(wrong) else "-"),
                          nx=nx, nq=len(xq_np), grid=desc["grid"], ybatch=list(ybatch))
                if (~inside).any():
                    obs.check(r_out <= 1.0, "extrap_value:%s:%s:%s:%s" % (mtag, eff, route, size),
                              "extrapolated values differ from the documented rule (%s) by %.3e (tolerance %.3e)" % (
                                  eff, e_out, tol_map if mapped.any() else tol_in),
                              nx=nx, exmode=exmode)
                atk = kinds == "knot"
                if atk.any():
                    jj = np.searchsorted(xs, xq_np[atk])
                    e_k = float(np.abs(got[..., atk] - ys[..., jj]).max())
                    obs.note(worst_k=max(obs.obs.get("worst_k", 0.0), e_k / tol_k))
                    obs.check(e_k <= tol_k, "knot:%s" % key, "sample values not reproduced at the sample positions: error %.3e" % e_k, nx=nx)
                    obs.count("knot_queries", int(atk.sum()))
                obs.count("outside_queries", int((~inside).sum()))
                # ---- gradients of a random contraction over the finite entries
                if not fin.any():
                    compared += 1
                    continue
                loss = (yq[fin_t] * Cq_t[fin_t]).sum()
                gy, gx = torch.autograd.grad(loss, (y_t, base), allow_unused=True)
                gy = np.zeros(yin_np.shape) if gy is None else gy.double().numpy()
                gx = np.zeros(base.shape) if gx is None else gx.double().numpy()
                if desc["qlayout"] == "strided":
                    obs.check(float(np.abs(gx[1::2]).max()) == 0.0, "grad_xq:strided_leak", "gradient leaked into unused query storage")
                    gx = gx[::2]
                # d/dy: projected on the basis of admissible sample vectors, in sorted order
                gy_sorted = np.zeros_like(gy)
                gy_sorted[..., perm] = gy
                mcols = np.isfinite(rm).all(axis=0)                       # query columns whose matrix row is defined
                Cm = np.where(fin, Cq, 0.0)
                # entries that are extrapolated by a rule that does not depend on y contribute nothing
                want_gy = np.einsum("...q,bq->...b", Cm[..., mcols], rm[:, mcols])
                got_gy = np.einsum("...x,bx->...b", gy_sorted, basis)
                sc_y = G * eps * C_TOL * max(1.0, float(np.abs(rm[:, mcols]).max()) if mcols.any() else 1.0) * \
                    amp * max(1.0, float(np.abs(Cm).sum(axis=-1).max()))
                e_gy = float(np.abs(got_gy - want_gy).max())
                obs.note(worst_gy=max(obs.obs.get("worst_gy", 0.0), e_gy / sc_y))
                obs.check(e_gy <= sc_y, "grad_y:%s" % key,
                          "gradient w.r.t. y differs from the interpolation-matrix rows by %.3e (tolerance %.3e)" % (e_gy, sc_y),
                          nx=nx, eff=eff, order=order)
                obs.count("grad_y_compared")
                # d/dxq: sum over the batch of cotangent * derivative
                dcols = np.isfinite(rd).all(axis=tuple(range(rd.ndim - 1))) if rd.ndim > 1 else np.isfinite(rd)
                want_gx = (Cm * np.where(np.isfinite(rd), rd, 0.0)).reshape(-1, len(xq_np)).sum(axis=0)
                nbatch = max(1, int(np.prod(ybatch)))
                e_gx = float(np.abs(gx - want_gx)[dcols].max()) if dcols.any() else 0.0
                sc_q = told_q * nbatch * max(1.0, float(np.abs(Cm).max()))
                r_gx = float((np.abs(gx - want_gx) / sc_q)[dcols].max()) if dcols.any() else 0.0
                sc_x = float(sc_q.max())
                obs.note(worst_gx=max(obs.obs.get("worst_gx", 0.0), r_gx))
                obs.check(r_gx <= 1.0, "grad_xq:%s:%s" % (key, eff if (~inside).any() else "inside"),
                          "gradient w.r.t. the query points differs from the interpolant's derivative by %.3e (tolerance %.3e)" % (e_gx, sc_x),
                          nx=nx, eff=eff)
                obs.count("grad_xq_compared")
                compared += 1
                if manyq and size == big:
                    obs.count("manyq_vmany_sets_compared")          # values, d/dy and d/dxq of a very large query set

        # ---------------------------------------------------------------- interpolation matrix from the basis vectors
        try:
            xq_np, kinds, _ = sets[big]
            rv, rd, rm, mapped = reference(xq_np, kinds)
            amp = 1.0 + (st["hmax"] + (xabs if mapped.any() else 0.0)) / st["hmin"]
            tol_lin = tol_map if mapped.any() else tol_in
            Bin = torch.tensor(basis[:, perm], dtype=dt)                   # (nb, nx) in the order handed to xitorch
            M = Interp1D(xin, Bin, method=method, **opts)(torch.tensor(xq_np, dtype=dt))    # (nb, nq)
            if obs.check(tuple(M.shape) == (nb, len(xq_np)), "shape:%s:unit_vectors" % mtag, "shape %s" % (tuple(M.shape),)):
                Mn = M.double().numpy()
                lin_cols = np.isfinite(rm).all(axis=0)                    # columns where the map y -> yq is linear
                coef = ys[..., :nb]
                if ("init", big) in results and lin_cols.any():
                    via = np.einsum("...b,bq->...q", coef, Mn[:, lin_cols])
                    e = float(np.abs(via - results[("init", big)][..., lin_cols]).max())
                    obs.note(worst_lin=e / tol_lin)
                    obs.check(e <= tol_lin * max(1.0, nb ** 0.5), "linear_in_y:%s%s" % (mtag, btag),
                              "interpolating y differs from combining the interpolated unit vectors by %.3e" % e, nx=nx)
                    e = float(np.abs(Mn[:, lin_cols] - rm[:, lin_cols]).max())
                    tol_m = C_TOL * eps * G * amp * max(1.0, float(np.abs(rm[:, lin_cols]).max()))
                    obs.note(worst_m=e / tol_m)
                    obs.check(e <= tol_m, "matrix:%s%s" % (mtag, btag), "interpolation matrix differs from the reference by %.3e (tolerance %.3e)" % (e, tol_m),
                              nx=nx)
                    obs.count("matrices_compared")
        except Exception as e:
            obs.exc_violation("eval:%s:unit_vectors" % mtag, e, nx=nx)
            failed = True
    finally:
        imod.CubicSpline1D._interp = o_cs
        imod.LinearInterp1D._interp = o_li
        imod.get_extrap_pos = o_pos
        imod.get_extrap_val = o_val
        imod._get_spline_mat_inv = o_mat

    # ---------------------------------------------------------------- the four runs agree with each other
    few_idx_arr = sets["few"][2]
    for route in ("init", "call"):
        if (route, "few") in results and (route, big) in results:
            a, b = results[(route, "few")], results[(route, big)][..., few_idx_arr]
            both = np.isfinite(a) & np.isfinite(b)
            e = float(np.abs(a - b)[both].max()) if both.any() else 0.0
            obs.check(e <= tol_map, "formulas_differ:%s:%s%s" % (mtag, route, btag),
                      "few-query and many-query evaluations differ by %.3e at the same positions" % e, nx=nx)
    for size in ("few", big):
        if ("init", size) in results and ("call", size) in results:
            a, b = results[("init", size)], results[("call", size)]
            both = np.isfinite(a) & np.isfinite(b)
            e = float(np.abs(a - b)[both].max()) if both.any() else 0.0
            obs.check(e <= 0.1 * tol_map, "routes_differ:%s:%s" % (mtag, size),
                      "y at construction and y at call give results differing by %.3e" % e, nx=nx, order=order)

    obs.count("spline_mat_built", reach["mat"])
    obs.count("extrap_pos_calls", reach["pos"])
    obs.count("extrap_val_calls", reach["val"])
    obs.count("method_%s" % method)
    if method == "cspline":
        obs.count("bc_%s" % bc)
    if allow_out:
        obs.count("extrap_mode_%s" % eff)
        if eff == "callable" and sing:
            obs.count("extrap_callable_defined_outside_only")
    if ybatch:
        obs.count("batched_y_cases")
    obs.count("order_%s" % order)
    if manyq:
        nq = len(xq_many)
        obs.count("manyq_cases")
        obs.count("manyq_class_%s" % desc["nqclass"])
        obs.count("manyq_method_%s" % method)
        obs.count("manyq_queries", nq)
        obs.count("manyq_points_through_formula", reach["bigpts"])
        obs.count("manyq_nq_%s" % ("upto_1k" if nq <= 1024 else "1k_4k" if nq <= 4096 else "4k_16k" if nq <= 16384 else "over_16k"))
        if allow_out:
            obs.count("manyq_extrap_%s" % eff)
        if ybatch:
            obs.count("manyq_batched_y")
    obs.note(tol_v=tol_v, adj_ratio=st["adj_ratio"], nq_many=len(xq_many), nq_few=len(few_idx), eff=eff)
    varied = bool(np.any(ys.max(axis=-1) > ys.min(axis=-1)))
    obs.nontrivial = bool(varied and not failed and compared == 4 and reach["few"] >= 2 and reach["many"] >= 2)
    return obs.result()
