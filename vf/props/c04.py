"""C04 - implicit gradients of rootfinder / equilibrium / minimize (reference-model monitor: a few Newton steps unrolled in
plain torch from the detached returned solution, dense Jacobian, compared through random cotangent contractions at first and
second order)."""
import random
import sys

import torch

from vf.common import Obs, sub_seed, WarnLog, HarnessBug
from vf import optfam
from vf import c04_extra as cx

LEVEL = "exploration"
TECHNIQUE = ("runtime reference-model monitor: autograd of the real functionals vs autograd of Newton steps unrolled in plain torch "
             "from the detached returned solution (dense Jacobian), random cotangent contractions at first and second order")
LEVEL_TEXT = ("Held on every generated call of the run: 3 entry points x 7 forward methods x 5 families (tanh, affine, holomorphic complex, "
              "quadratic and quartic objectives) x total unknowns 1..18 (the default backward switches from a dense to a Krylov solve at 6) x "
              "backward solvers {default, exactsolve, bicgstab, cg, gmres} x 7 parameter placements (explicit, explicit with non-tensor and "
              "no-grad params, nn.Module, nn.Module + explicit, EditableModule, EditableModule with derived tensors, EditableModule + explicit) x "
              "which leaves require grad x initial guesses; first- and second-order gradients of random contractions are compared leaf by leaf "
              "with the unrolled-Newton reference, y0 must get no gradient, and pairs of (forward method, y0) must give the same gradient.")
LEVEL_NOTE = ("Tolerance 100*(10*|f(y_returned)| + backward-solver tolerance) relative to 1+|reference gradient| (observed <= 4e-7 with the default "
              "Krylov backward, <= 1e-11 with direct solves); complex functions are holomorphic (the statement's formula presupposes it); "
              "non-holomorphic complex functions are run observation-only and reported as a counter.")
RULE = ("seeded sampling over entry point x forward method x family x (n, batch) x backward option x placement x grad-leaf subset x y0 x "
        "y0.requires_grad; non-trivial = forward converged silently, first-order gradients were compared for >= 1 leaf with a non-zero "
        "reference gradient and (unless the case is first-order only) the second-order contraction was compared with a non-zero reference")
RULE += ("; cotangent classes {random, 1e-10 x random with rescaling, loss quadratic in y}; spy on the solves started inside solve's own backward; a warning of a non-gmres backward solver is a violation; group big (40-64 unknowns, contraction 0.8/0.9, Krylov backward at 1e-10); group late (object holders rebound between two calls, one backward)"
         "; group hist (one nn.Module object solved, then a parameter / sub-module registered, removed, replaced by another Parameter object or "
         "requires_grad toggled, solved again - up to 3 phases; reference on the module's current parameters, first and second order)"
         "; group selfiter (the module's method reads its tensors through the module's registry)")
MIN_NONTRIVIAL = {"quick": 800, "thorough": 6000}
ASSUMPTIONS = [
    "group selfiter: nn.Module method that also reads the module's tensors through self.parameters() / named_parameters() / "
    "<submodule>.parameters() / get_parameter() (norm term lam*sum |p|^2, lam = 0.05), 2-7 unknowns, unbatched",
    "group hist: nn.Module only (EditableModule.getparamnames is documented as a function of the method name; xitorch caches it per object), "
    "2-8 unknowns x batch {(), (3,)}, contraction <= 0.6, the method reads its tensors by attribute access under their registered names",
    "group big: 40-64 unknowns, contraction constant 0.8 / 0.9 (Jacobian cond <= 19), newton forward, Krylov backward at rtol 1e-10 (needs well over 10 iterations)",
    "problem families of C03 (contraction constant <= 0.6, Jacobian cond <= 4); forward tolerances f_tol = x_tol = 1e-10 (gd/adam: x_rtol 1e-12/1e-9)",
    "a forward call that warned is not differentiated (the formula is stated at a converged point); a backward solve that warned is not compared",
    "iterative backward solvers are given rtol=1e-10, atol=1e-12; the default backward keeps its own rtol=1e-6 (tolerance scaled accordingly)",
    "complex cases are holomorphic in y and in the complex parameters; float64 / complex128 only",
    "comparison per leaf: |g - g_ref| <= tol*(1+|g_ref|), tol = 100*(10*|f(y)| + tol_backward) + 1e-10",
]
BUDGET = {"quick": {"worker_timeout": 900, "case_timeout": 120}, "thorough": {"worker_timeout": 3300, "case_timeout": 300}}
REQUIRED_COUNTERS = {
    "quick": {**cx.REQUIRED["quick"], **cx.SELFITER_REQUIRED["quick"], "late_backward_compared": 40, "big_system_cases": 25, "cot_nl": 150, "cot_tiny": 80, "nested_backward_solves": 200, "first_order_compared": 800, "second_order_compared": 600, "backward_solves": 1500, "backward_default_krylov": 60,
              "backward_default_dense": 60, "y0_nograd_checked": 150, "nontensor_param_cases": 100, "complex_cases": 100,
              "pair_compared": 60, "placement_module": 60, "placement_editable_derived": 60, "placement_explicit_nt": 60,
              "fwd_gd": 20, "fwd_adam": 20, "fwd_anderson_acc": 30, "fwd_newton": 60, "backward_gmres": 10, "backward_cg": 60},
    "thorough": {**cx.REQUIRED["thorough"], **cx.SELFITER_REQUIRED["thorough"], "late_backward_compared": 240, "big_system_cases": 200, "cot_nl": 1500, "cot_tiny": 800, "nested_backward_solves": 2000, "first_order_compared": 5000, "second_order_compared": 4000, "backward_solves": 10000, "backward_default_krylov": 600,
                 "backward_default_dense": 600, "y0_nograd_checked": 1500, "nontensor_param_cases": 1000, "complex_cases": 1000,
                 "pair_compared": 600, "placement_module": 600, "placement_editable_derived": 600, "placement_explicit_nt": 600,
                 "fwd_gd": 200, "fwd_adam": 200, "fwd_anderson_acc": 300, "fwd_newton": 600, "backward_gmres": 100, "backward_cg": 600},
}

RF = ["newton", "broyden1", "broyden2", "linearmixing"]
METHODS = {"rootfinder": RF, "equilibrium": RF + ["anderson_acc"], "minimize": RF + ["gd", "adam"]}
TASK_FAMILIES = {"rootfinder": ["tanh", "affine", "holo"], "equilibrium": ["tanh", "affine", "holo"], "minimize": ["quad", "quartic"]}
# (n, batch index): total unknowns 1, 2, 3, 5 | 6, 9, 14, 6, 12, 18, 8
SHAPES = [(1, 0), (2, 0), (3, 0), (5, 0), (6, 0), (9, 0), (14, 0), (2, 1), (3, 2), (6, 1), (2, 2), (1, 1)]
# directed large systems (a Krylov backward solve then needs well over 10 iterations): indices len(SHAPES_SMALL)..
SHAPES_BIG = [(40, 0), (64, 0), (24, 1)]
BCK = {
    "default": {},
    "exactsolve": {"method": "exactsolve"},
    "bicgstab": {"method": "bicgstab", "rtol": 1e-10, "atol": 1e-12},
    "cg": {"method": "cg", "rtol": 1e-10, "atol": 1e-12},
    "gmres": {"method": "gmres", "rtol": 1e-10, "atol": 1e-12},
}
BCK_NAMES = ["default", "default", "exactsolve", "bicgstab", "cg", "gmres"]


def cases(seed, tier):
    out = []
    N = 1300 if tier == "quick" else 10000
    tasks = ["rootfinder", "equilibrium", "minimize"]
    for i in range(N):
        rng = random.Random(sub_seed(seed, "c04", i))
        task = tasks[i % 3]
        methods = METHODS[task]
        d = {"group": "grad", "task": task, "seed": sub_seed(seed, "c04s", i), "method": methods[(i // 3) % len(methods)]}
        d["family"] = rng.choice(TASK_FAMILIES[task])
        d["shape"] = rng.randrange(len(SHAPES))
        d["q"] = rng.choice([0.2, 0.4, 0.6])
        d["bck"] = BCK_NAMES[(i // 7) % len(BCK_NAMES)]
        d["placement"] = optfam.PLACEMENTS[(i // 2) % len(optfam.PLACEMENTS)]
        d["gradset"] = rng.choice(["all", "all", "first", "last"])
        d["y0"] = rng.choice(["zero", "rand"])
        d["y0grad"] = rng.random() < 0.4
        d["order"] = 2
        # the loss: random constant cotangent / the same scaled by 1e-10 (backward tolerances tightened accordingly; the gradient is
        # linear in the cotangent) / a loss that is nonlinear in the solution (the cotangent depends on the parameters)
        d["cot"] = rng.choice(["rand", "rand", "rand", "nl", "nl", "tiny"])
        out.append(d)
    # large systems with tight Krylov backward solvers (first order + second order on a third of them)
    NB = 36 if tier == "quick" else 300
    for i in range(NB):
        rng = random.Random(sub_seed(seed, "c04b", i))
        task = tasks[i % 3]
        out.append({"group": "big", "task": task, "seed": sub_seed(seed, "c04bs", i), "method": "newton",
                    "family": rng.choice(["tanh", "affine"] if task != "minimize" else ["quad", "quartic"]), "shape": len(SHAPES) + i % len(SHAPES_BIG),
                    "q": rng.choice([0.8, 0.9, 0.9]), "bck": ["bicgstab", "cg", "bicgstab", "default"][(i // 6) % 4], "placement": rng.choice(optfam.PLACEMENTS),
                    "gradset": "all", "y0": "zero", "y0grad": False, "order": 2 if i % 3 == 0 else 1, "cot": rng.choice(["rand", "nl"])})
    # pairs: the same problem solved by two (method, y0) combinations must give the same gradient
    NP = 150 if tier == "quick" else 1200
    for i in range(NP):
        rng = random.Random(sub_seed(seed, "c04p", i))
        task = tasks[i % 3]
        m1, m2 = rng.sample(METHODS[task], 2)
        out.append({"group": "pair", "task": task, "seed": sub_seed(seed, "c04ps", i), "method": m1, "method2": m2,
                    "family": rng.choice(TASK_FAMILIES[task]), "shape": rng.randrange(len(SHAPES)), "q": rng.choice([0.2, 0.4, 0.6]),
                    "bck": rng.choice(["default", "exactsolve", "bicgstab"]), "placement": rng.choice(optfam.PLACEMENTS),
                    "gradset": "all", "y0": "zero", "y0grad": False, "order": 1})
    # history on one object: solve, the object's holders rebound to a second generation of tensors, solve again, ONE backward through both
    # (oracle: the explicit-parameter form, whose gradients the main group compares with the implicit function theorem)
    from vf import funcs as _funcs
    kl = 0
    for fname in _funcs.FUNCTIONALS:
        if fname.split(":")[0] not in ("rootfinder", "equilibrium", "minimize"):
            continue
        for holder in ("list", "dict", "subobject", "nnmodule", "attribute"):
            for r in range(1 if tier == "quick" else 6):
                rng = random.Random(sub_seed(seed, "c04l", fname, holder, r))
                out.append({"group": "late", "kind": "late_backward", "functional": fname, "rep": "rebind_" + holder, "holder": holder,
                            "d": rng.choice([2, 3, 7]), "s": 0.4, "seed": sub_seed(seed, "c04ls", kl)})
                kl += 1
    # the monitors of C09 on the optimiser functionals: special representations (tied / duplicated / aliased tensors, infinite entries in object
    # tensors, a class that is both nn.Module and EditableModule) and a failing call followed by a normal one
    from vf import c09_extra as _c9x
    out.extend(_c9x.delegated_cases(seed, tier, ("rootfinder", "equilibrium", "minimize"), "c04d"))
    # history on one nn.Module object whose SET of parameters changes between two solves (vf/c04_extra.py)
    out.extend(cx.hist_cases(seed, tier))
    # the module's method reads its tensors through self.parameters() / named_parameters() / get_parameter() (vf/c04_extra.py)
    out.extend(cx.selfiter_cases(seed, tier))
    # observation only: complex non-holomorphic function (the statement's formula does not cover it; reported as a counter)
    NO = 12 if tier == "quick" else 60
    for i in range(NO):
        out.append({"group": "observe_nonholomorphic", "task": ["rootfinder", "equilibrium"][i % 2], "seed": sub_seed(seed, "c04o", i),
                    "method": "newton", "family": "cplx", "shape": i % 4, "q": 0.4, "bck": "exactsolve", "placement": "explicit",
                    "gradset": "all", "y0": "zero", "y0grad": False, "order": 1})
    return out


def _norm(t):
    return float(torch.linalg.vector_norm(t.detach().reshape(-1)))


def newton_reference(prob, th, ystart, steps=3):
    """`steps` Newton steps on the residual, unrolled in plain torch in real coordinates from the DETACHED solution; the
    result is a differentiable function of the tensors in `th` whose first and second derivatives are those of the implicit
    function theorem at the root next to `ystart` (error O(|residual(ystart)|))."""
    cplx = ystart.is_complex()
    shape = ystart.shape

    def to_real(y):
        return torch.view_as_real(y).reshape(-1) if cplx else y.reshape(-1)

    def from_real(v):
        return torch.view_as_complex(v.reshape(*shape, 2)) if cplx else v.reshape(shape)

    def rfun(v):
        return to_real(prob.residual(from_real(v), th))
    v = to_real(ystart.detach().clone())
    for _ in range(steps):
        J = torch.autograd.functional.jacobian(rfun, v, create_graph=True)
        v = v - torch.linalg.solve(J, rfun(v))
    return from_real(v)


def _fwd_options(method):
    if method == "gd":
        return dict(step=0.5, gamma=0.0, f_rtol=0.0, x_rtol=1e-12, maxiter=4000)
    if method == "adam":
        return dict(step=3e-2, f_rtol=0.0, x_rtol=1e-9, maxiter=8000)
    return dict(f_tol=1e-10, x_tol=1e-10)


def _contract(C, y):
    return (C.conj() * y).real.sum() if y.is_complex() else (C * y).sum()


class SolveSpy:
    """counts the backward's calls of xitorch.linalg.solve through the name bound in xitorch.optimize.rootfinder"""

    def __init__(self):
        self.calls = []
        self.nested = []        # solves started by solve's own backward (second order): (method, options)
        self.mod = sys.modules["xitorch.optimize.rootfinder"]
        self.mod2 = sys.modules["xitorch.linalg.solve"]
        self.orig = self.orig2 = None

    def __enter__(self):
        self.orig, self.orig2 = self.mod.solve, self.mod2.solve
        orig, calls, orig2, nested = self.orig, self.calls, self.orig2, self.nested

        def solve(*a, **kw):
            A = kw.get("A", a[0] if a else None)
            calls.append((kw.get("method"), int(A.shape[-1]) if A is not None else -1))
            return orig(*a, **kw)

        def solve2(*a, **kw):
            nested.append((kw.get("method"), {k: v for k, v in kw.items() if k in ("rtol", "atol")}))
            return orig2(*a, **kw)
        self.mod.solve = solve
        self.mod2.solve = solve2
        return self

    def __exit__(self, *exc):
        self.mod.solve = self.orig
        self.mod2.solve = self.orig2
        return False


def _forward(fn, pres, y0, method, bck, obs, tag):
    with WarnLog() as wl:
        y = fn(pres.fcn, y0, params=pres.params, method=method, bck_options=dict(bck), **_fwd_options(method))
    return y, bool(wl.convergence)


def run_case(desc):
    if desc.get("group") == "hist":
        return cx.run_hist(desc)
    if desc.get("group") == "selfiter":
        return cx.run_selfiter(desc)
    if desc.get("group") == "late":
        from vf import c09_extra
        return c09_extra.run_late(desc)
    if desc.get("group") in ("c09rep", "c09abort"):
        from vf import c09_extra
        return c09_extra.run_delegated(desc)
    from xitorch.optimize import rootfinder, equilibrium, minimize
    obs = Obs(desc)
    task, method, family = desc["task"], desc["method"], desc["family"]
    fn = {"rootfinder": rootfinder, "equilibrium": equilibrium, "minimize": minimize}[task]
    tgen = torch.Generator().manual_seed(desc["seed"])
    n, bidx = (SHAPES + SHAPES_BIG)[desc["shape"]]
    if desc["group"] == "big":
        obs.count("big_system_cases")
    batch = optfam.BATCHES[bidx]
    cplx = optfam.FAMILIES[family][1]
    dt = torch.complex128 if cplx else torch.float64
    prob = optfam.make_problem(family, task, n, batch, dt, desc["q"], tgen)
    names = list(prob.theta.keys())
    gradset = desc["gradset"]
    grad_names = names if gradset == "all" else ([names[0]] if gradset == "first" else [names[-1]])
    placement = desc["placement"]
    bck = dict(BCK[desc["bck"]])
    cot = desc.get("cot", "rand")
    cscale = 1.0
    if cot == "tiny":
        cscale = 1e-10
        if desc["bck"] != "exactsolve":
            bck["atol"] = 1e-30           # an absolute tolerance above the cotangent's size legitimately returns zero
            bck.setdefault("rtol", 1e-10)
    N = 1
    for s in prob.yshape:
        N *= s
    cfg = "%s:%s:%s%s" % (task, placement, desc["bck"], "" if cot == "rand" else ":cot_" + cot)
    observe_only = desc["group"] == "observe_nonholomorphic"

    def make_y0(kind):
        if kind == "zero":
            y0 = torch.zeros(prob.yshape, dtype=dt)
        else:
            y0 = torch.randn(prob.yshape, dtype=dt, generator=tgen)
            if family in ("holo", "quartic"):
                y0 = (0.4 if family == "holo" else 1.0) * y0 / max(_norm(y0), 1e-30)
        return y0

    pres = optfam.present(prob, placement, grad_names=grad_names, spy=False)
    y0 = make_y0(desc["y0"])
    if desc["y0grad"]:
        y0.requires_grad_()
    obs.count("placement_%s" % placement)
    obs.count("fwd_%s" % method)
    if cplx:
        obs.count("complex_cases")
    if placement in ("explicit", "explicit_nt") and (prob.extras or placement == "explicit_nt"):
        obs.count("nontensor_param_cases")
    # ------------------------------------------------------------------ the monitored forward + backward
    with SolveSpy() as spy:
        try:
            y, fwd_warned = _forward(fn, pres, y0, method, bck, obs, "fwd")
        except Exception as e:
            obs.exc_violation("forward:%s:%s" % (cfg, method), e, family=family)
            obs.nontrivial = True
            return obs.result()
        if fwd_warned:
            obs.count("forward_warned_not_differentiated")
            obs.skip("forward did not converge")
            return obs.result()
        eps_fwd = _norm(prob.residual(y.detach(), pres.materialize({k: v.detach() for k, v in pres.leaves.items()})))
        if eps_fwd > 1e-6:
            # a silent return that is not a root is C03's subject; the gradient formula has no referent here
            obs.count("forward_silent_but_not_a_root")
            obs.skip("silent forward returned a point with residual > 1e-6")
            return obs.result()
        leaves = pres.leaves
        lnames = [k for k in leaves if leaves[k].requires_grad]
        lv = [leaves[k] for k in lnames]
        if not lv:
            raise HarnessBug("no leaf requires grad")
        obs.check(y.requires_grad, "no_graph:%s" % cfg, "the returned solution is not connected to the parameters that require grad")
        if not y.requires_grad:
            obs.nontrivial = True
            return obs.result()
        C = torch.randn(y.shape, dtype=dt, generator=tgen)
        D = [torch.randn(t.shape, dtype=t.dtype, generator=tgen) for t in lv]
        if cot == "nl":
            Wq = torch.rand(y.shape, dtype=torch.float64, generator=tgen)
            lossf = lambda t: _contract(C, t) + 0.5 * (Wq * (t.conj() * t).real).sum()     # noqa: E731
        else:
            lossf = lambda t: _contract(C * cscale, t)                                     # noqa: E731
        obs.count("cot_%s" % cot)
        L = lossf(y)
        second = desc["order"] >= 2
        ask = lv + ([y0] if desc["y0grad"] else [])
        with WarnLog() as wl1:
            try:
                g_all = torch.autograd.grad(L, ask, create_graph=second, allow_unused=True)
            except Exception as e:
                obs.exc_violation("backward1:%s" % cfg, e, family=family, method=method, N=N)
                obs.nontrivial = True
                return obs.result()
        g1 = list(g_all[:len(lv)])
        bck_warned = bool(wl1.convergence)
        g2 = None
        if second and not bck_warned:
            terms = [_contract(d, g) for d, g in zip(D, g1) if g is not None and g.requires_grad]
            if terms:
                L2 = sum(terms)
                with WarnLog() as wl2:
                    try:
                        g2 = list(torch.autograd.grad(L2, lv, allow_unused=True))
                    except Exception as e:
                        obs.exc_violation("backward2:%s" % cfg, e, family=family, method=method, N=N)
                        obs.nontrivial = True
                        return obs.result()
                bck_warned = bck_warned or bool(wl2.convergence)
            else:
                obs.check(False, "grad2:no_graph:%s" % cfg,
                          "first-order gradients carry no graph although create_graph=True (second order silently lost)", family=family)
    if cscale != 1.0:
        # gradients are linear in the cotangent: compare g(1e-10 C) * 1e10 with the reference for C
        g1 = [None if g is None else g.detach() / cscale for g in g1]
        g2 = None if g2 is None else [None if g is None else g.detach() / cscale for g in g2]
        g_all = [None if g is None else g.detach() / cscale for g in g_all]
    nsolve = len(spy.calls)
    obs.count("backward_solves", nsolve)
    for meth, dim in spy.calls[:1]:
        if meth is None:
            obs.count("backward_default_krylov" if dim >= 6 else "backward_default_dense")
        else:
            obs.count("backward_%s" % meth)
    obs.check(nsolve >= 1, "no_backward_solve:%s" % cfg, "backward did not call the linear solver (counting wrapper saw 0 calls)")
    if nsolve:
        obs.check(all(m == bck.get("method") for m, _ in spy.calls), "bck_options_ignored:%s" % cfg,
                  "backward solves were called with method=%s, bck_options asked for %s" % (sorted({str(m) for m, _ in spy.calls}), bck.get("method")))
        if spy.nested:
            obs.count("nested_backward_solves", len(spy.nested))
            want = {k: v for k, v in bck.items() if k in ("rtol", "atol")}
            obs.check(all(m == bck.get("method") and o == want for m, o in spy.nested), "bck_options_ignored_nested:%s" % cfg,
                      "solves started by the backward of the backward solve (second order) ran with %s, bck_options asked for %s"
                      % (sorted({"%s %s" % (m, sorted(o.items())) for m, o in spy.nested})[:3], dict(bck)))
        obs.check(all(dim == N * (1 if not cplx else 1) for _, dim in spy.calls), "bck_system_size:%s" % cfg,
                  "backward linear system has size %s, the solution has %d unknowns" % (sorted({d_ for _, d_ in spy.calls}), N))
    # ------------------------------------------------------------------ y0 and non-tensor parameters get no gradient
    if desc["y0grad"]:
        gy0 = g_all[len(lv)]
        obs.count("y0_nograd_checked")
        obs.check(gy0 is None or _norm(gy0) == 0.0, "y0_gets_gradient:%s" % cfg,
                  "the initial guess received a non-zero gradient (norm %.3e)" % (0.0 if gy0 is None else _norm(gy0)), method=method)
    if bck_warned and desc["bck"] != "gmres" and not observe_only:
        # within the stated class (Jacobian cond <= 4, tolerances attainable, iteration budget of the solver's default) every backward solver
        # except gmres (which never builds the full Krylov space) converges: a warning means the requested solver did not deliver the gradient
        obs.check(False, "backward_not_silent:%s" % cfg, "the backward linear solve warned on a well-conditioned system: %s"
                  % ((wl1.convergence + (wl2.convergence if second and 'wl2' in dir() else []))[:1],), family=family, method=method, N=N)
    if bck_warned:
        obs.count("backward_warned_not_compared")
        obs.count("backward_warned_%s" % desc["bck"])
        obs.note(backward_warned=True)
        obs.nontrivial = False
        return obs.result()
    # ------------------------------------------------------------------ reference
    ref_leaves = {}
    for k, t in leaves.items():
        r = t.detach().clone()
        if t.requires_grad:
            r.requires_grad_()
        ref_leaves[k] = r
    rl = [ref_leaves[k] for k in lnames]
    th = pres.materialize(ref_leaves)
    yr = newton_reference(prob, th, y)
    moved = _norm(yr - y.detach())
    Lr = (lossf(yr) / cscale) if cot != "nl" else lossf(yr)
    r1 = list(torch.autograd.grad(Lr, rl, create_graph=second, allow_unused=True))
    r2 = None
    if second:
        termsr = [_contract(d, g) for d, g in zip(D, r1) if g is not None and g.requires_grad]
        if termsr:
            r2 = list(torch.autograd.grad(sum(termsr), rl, allow_unused=True))
    # tolerance
    if desc["bck"] == "default":
        tolb = (1e-9 if cot == "tiny" else 1e-5) if N >= 6 else 1e-12
    elif desc["bck"] == "exactsolve":
        tolb = 1e-12
    else:
        tolb = 1e-9
    tol = 100 * (10 * eps_fwd + tolb) + 1e-10
    obs.note(eps_fwd=eps_fwd, newton_moved=moved, tol=tol, nsolve=nsolve, N=N)
    if moved > 1e-6:
        raise HarnessBug("Newton reference moved %.2e away from the returned solution (residual %.2e)" % (moved, eps_fwd))

    def compare(order, gx, gr):
        worst, nz = 0.0, False
        for k, a, b in zip(lnames, gx, gr):
            if b is None and a is None:
                continue
            bn = 0.0 if b is None else _norm(b)
            if b is None:
                b = torch.zeros_like(a)
            if a is None:
                a = torch.zeros_like(b)
            nz = nz or bn > 1e-8
            err = _norm(a - b) / (1 + bn)
            worst = max(worst, err)
            leafkind = "scale" if k == "scale" else k
            if observe_only:
                if err > tol:
                    obs.count("nonholomorphic_gradient_mismatch")
                continue
            obs.check(err <= tol, "grad%d:%s:%s" % (order, cfg, leafkind),
                      "order-%d gradient w.r.t. %s differs from the unrolled-Newton reference: %.3e > %.3e (|ref|=%.3e)" % (order, k, err, tol, bn),
                      family=family, method=method, N=N, gradset=gradset, eps_fwd=eps_fwd)
            obs.check(tuple(a.shape) == tuple(leaves[k].shape), "gradshape:%s" % cfg, "gradient shape %s for leaf %s of shape %s"
                      % (tuple(a.shape), k, tuple(leaves[k].shape)))
        return worst, nz
    w1, nz1 = compare(1, g1, r1)
    obs.count("first_order_compared")
    obs.note(err1=w1, err1_ratio=w1 / tol)
    nz2 = False
    if second and r2 is not None:
        if g2 is None:
            obs.check(False, "grad2:missing:%s" % cfg, "reference has a second-order gradient but xitorch's first-order gradient has no graph")
        else:
            w2, nz2 = compare(2, g2, r2)
            obs.count("second_order_compared")
            obs.note(err2=w2, err2_ratio=w2 / tol)
    # ------------------------------------------------------------------ independence of forward method and initial guess
    if desc["group"] == "pair":
        pres2 = optfam.present(prob, placement, grad_names=grad_names, spy=False)
        y0b = make_y0("rand")
        try:
            yb, warned_b = _forward(fn, pres2, y0b, desc["method2"], bck, obs, "fwd2")
        except Exception as e:
            obs.exc_violation("forward:%s:%s" % (cfg, desc["method2"]), e, family=family)
            obs.nontrivial = True
            return obs.result()
        same_root = (not warned_b) and _norm(yb.detach() - y.detach()) < 1e-6
        if same_root:
            lvb = [pres2.leaves[k] for k in lnames]
            with WarnLog() as wlb:
                gb = torch.autograd.grad(_contract(C, yb), lvb, allow_unused=True)
            if not wlb.convergence:
                eps_b = _norm(prob.residual(yb.detach(), pres2.materialize({k: v.detach() for k, v in pres2.leaves.items()})))
                tolp = 100 * (10 * (eps_fwd + eps_b) + 2 * tolb) + 1e-10
                obs.count("pair_compared")
                for k, a, b in zip(lnames, g1, gb):
                    a = torch.zeros_like(leaves[k]) if a is None else a.detach()
                    b = torch.zeros_like(leaves[k]) if b is None else b
                    err = _norm(a - b) / (1 + _norm(b))
                    obs.check(err <= tolp, "pair:%s" % cfg,
                              "gradient w.r.t. %s depends on the forward method / initial guess (%s from %s vs %s from random): %.3e > %.3e"
                              % (k, method, desc["y0"], desc["method2"], err, tolp), family=family)
        else:
            obs.count("pair_second_forward_unusable")
    obs.nontrivial = nz1 and (nz2 or not second) and not observe_only
    return obs.result()
