"""C12 - quad applies an exact n-point Gauss-Legendre rule on the requested interval
(reference-model monitor + call-history spy on the integrand)."""
import math
import random
from fractions import Fraction

import numpy as np
import torch

from vf.common import Obs, sub_seed, WarnLog, HarnessBug

LEVEL = "exploration"
TECHNIQUE = ("runtime reference-model monitor + call-history spy: Legendre-vector integrands pin the degree of exactness (2n-1, not 2n), "
             "the spy compares the abscissae with scipy's Gauss-Legendre nodes, exact rational integrals of random polynomials, "
             "closed forms on infinite ranges, component-wise reference rule for tuple outputs")
LEVEL_TEXT = ("Held on every generated call of the run: n in 1..250 x intervals of both orientations, lengths 1e-3..1e3, offset/length <= 30 x "
              "limits as python floats / ints / 0-dim / 1-element tensors and mixtures x float64/float32 x scalar, vector and tuple outputs; "
              "P_0..P_{2n-1} of the mapped variable integrate to (xu-xl)*[1,0,..] within 5000*eps*(1+k*c)*|xu-xl| while P_2n shows the Gauss error of "
              "exactly n points; the integrand is evaluated at exactly the n mapped scipy nodes; linearity, limit swap and additivity for "
              "polynomials with exact rational integrals; Gaussian/exponential/Lorentzian/sech^2 integrands on half- and doubly-infinite "
              "ranges against closed forms.")
LEVEL_NOTE = ("Trusts scipy.special.roots_legendre/eval_legendre, math.erf and rational arithmetic; infinite ranges only in float64 and only "
              "for the stated integrand families (width 0.5..2, centre within 1.5 of the origin, n >= 100).")
RULE = ("seeded sampling over group {legvec (+abscissa spy), poly (exact rational integral, linearity, swap, additivity), smooth (closed form), "
        "inf (closed form on infinite ranges), tuple (component-wise reference rule)} x n x interval x limit form x dtype x integrand style "
        "{tensor constants, pure python arithmetic / torch functions of x}; non-trivial = the call returned, the expected integral is non-zero "
        "(or, for legvec, the degree-2n entry of the reference rule is >= 0.03*|xu-xl|) and every comparison of the case was evaluated")
RULE += ('; group extra (vf/c12_extra.py): limits of another dtype than the integrand (float32 / int64 / int32 tensors, python ints), integrands returning a tensor they do not own, tuple / list integrands whose components differ in dtype (kind mixtuple)')
MIN_NONTRIVIAL = {"quick": 700, "thorough": 9000}
ASSUMPTIONS = [
    "finite intervals: length 1e-3..1e3, max(|xl|,|xu|)/|xu-xl| <= 30 (float64) / <= 1 (float32), xl != xu",
    "float32 legvec cases use n <= 16 (the node rounding error k*eps32*c must stay 20x below the degree-2n signal 0.15)",
    "tolerance for exact polynomial entries: C*eps(result dtype)*(1+k*c)*|xu-xl|, c = max(|xl|,|xu|)/|xu-xl|, C = 5000 for float64 (largest seen 18) "
    "and 1000 for float32 (largest seen 3.5); "
    "degree-2n entry must deviate by >= half of its reference value (>= 0.039*|xu-xl| for n <= 250)",
    "abscissae: sorted spy log equals the mapped scipy nodes within 200*eps*max(|xl|,|xu|) (largest seen 1.02*eps*max|x|); the first call is "
    "the dtype-probing call at xl and is not an abscissa",
    "polynomials: degree <= 9, coefficients k/8 with |k| <= 24, exact integral by rational arithmetic; tolerance 5000*eps*|L|*sum|c_k|X^k (largest seen 21)",
    "smooth integrands (cos, sin, exp(-x), 1/(1+x^2)): |xu-xl| <= 2, |x| <= 10, n >= 24 so that the Gauss truncation error is < 1e-18",
    "infinite ranges (float64 only): error relative to max(|integral|, integral over the whole line) <= 1e-7 for n=100 (largest seen 4.5e-10), "
    "<= 1e-11 for n >= 200 (largest seen 5.4e-14); the mutations tried miss by >= 2e-4; tail integrals below 1e-3 of the whole are not counted non-trivial",
    "with python-number limits and an integrand made of python arithmetic only, the result has torch's default dtype (float32); tolerances "
    "use eps of the returned dtype and the endpoints of such cases are float32-representable",
]
BUDGET = {"quick": {"worker_timeout": 600, "case_timeout": 60}, "thorough": {"worker_timeout": 3000, "case_timeout": 120}}
REQUIRED_COUNTERS = {
    "quick": {"extra_limprec_compared": 70, "extra_limprec_number_lower": 15, "extra_mixtuple_compared": 100, "extra_mixtuple_lowprec_first": 50, "extra_mixtuple_f64_components_checked": 100, "extra_mixtuple_alone_compared": 200, "extra_limdtype_compared": 80, "extra_alias_compared": 60, "extra_bckopts_compared": 25, "extra_inf32_compared": 25, "legvec_exact_entries_checked": 5000, "abscissae_compared": 5000, "form_num": 50, "form_int": 10, "form_t0": 50, "form_t1": 50,
              "form_mixed": 50, "style_pure_num_calls": 30, "inf_both": 10, "inf_half": 10, "tuple_components_checked": 50,
              "poly_linearity_checked": 50, "poly_swap_checked": 50, "poly_additivity_checked": 50, "float32_cases": 30},
    "thorough": {"extra_limprec_compared": 700, "extra_limprec_number_lower": 150, "extra_mixtuple_compared": 1000, "extra_mixtuple_lowprec_first": 500, "extra_mixtuple_f64_components_checked": 1000, "extra_mixtuple_alone_compared": 2000, "extra_limdtype_compared": 800, "extra_alias_compared": 600, "extra_bckopts_compared": 250, "extra_inf32_compared": 250, "legvec_exact_entries_checked": 50000, "abscissae_compared": 50000, "form_num": 500, "form_int": 100, "form_t0": 500,
                 "form_t1": 500, "form_mixed": 500, "style_pure_num_calls": 300, "inf_both": 100, "inf_half": 100,
                 "tuple_components_checked": 500, "poly_linearity_checked": 500, "poly_swap_checked": 500, "poly_additivity_checked": 500,
                 "float32_cases": 300},
}

NS = [1, 2, 3, 5, 8, 16, 33, 64, 100, 101, 150, 151, 250, 255]      # incl. odd n above 100 (node at the centre)
FORMS = ["num", "t0", "t1", "num_t0", "t0_num", "num_t1", "t1_num", "t0_t1"]
CTOL = 5000.0
INF = float("inf")


# ------------------------------------------------------------------------------------------------ case generation
def _interval(rng, f32, maxlen=1e3, minlen=1e-3, cmax=None):
    """(xl, xu) with the stated bounds, both orientations"""
    L = math.exp(rng.uniform(math.log(minlen), math.log(maxlen)))
    if cmax is None:
        cmax = 1.0 if f32 else rng.choice([0.5, 1.0, 3.0, 10.0, 30.0])
    # max(|xl|,|xu|)/L = |mid|/L + 0.5 <= cmax
    mid = rng.choice([-1, 1]) * L * max(0.0, cmax - 0.5) * rng.random()
    xl, xu = mid - L / 2, mid + L / 2
    if rng.random() < 0.5:
        xl, xu = xu, xl
    return xl, xu


def cases(seed, tier):
    out = []
    quick = tier == "quick"
    # ---- legvec
    N = 520 if quick else 7000
    for i in range(N):
        rng = random.Random(sub_seed(seed, "c12lv", i))
        n = NS[i % len(NS)]
        f32 = rng.random() < 0.2 and n <= 16
        form = FORMS[(i // len(NS)) % len(FORMS)]
        xl, xu = _interval(rng, f32)
        out.append({"group": "legvec", "seed": sub_seed(seed, "c12lvs", i), "n": n, "dtype": "float32" if f32 else "float64",
                    "form": form, "xl": xl, "xu": xu})
    # ---- integer-valued limits
    N = 40 if quick else 400
    for i in range(N):
        rng = random.Random(sub_seed(seed, "c12int", i))
        a = rng.randint(-20, 20)
        b = a + rng.choice([-1, 1]) * rng.randint(1, 30)
        out.append({"group": rng.choice(["legvec", "poly"]), "seed": sub_seed(seed, "c12ints", i), "n": rng.choice([3, 5, 8, 16, 33]),
                    "dtype": "float64", "form": rng.choice(["int", "int", "int_t0", "t0_int"]), "xl": a, "xu": b,
                    "style": rng.choice(["tensor", "pure", "pow"]), "deg": rng.randint(1, 5)})
    # ---- poly
    N = 520 if quick else 7000
    for i in range(N):
        rng = random.Random(sub_seed(seed, "c12po", i))
        deg = rng.randint(1, 9)
        nmin = (deg + 2) // 2            # 2n-1 >= deg
        n = rng.choice([nmin, nmin, nmin + 1, rng.choice(NS[4:])])
        style = ["tensor", "pure", "pow"][i % 3]
        form = FORMS[(i // 3) % len(FORMS)]
        f32 = rng.random() < 0.2
        xl, xu = _interval(rng, f32, maxlen=30.0, minlen=1e-2, cmax=rng.choice([0.5, 1.0, 3.0]))
        out.append({"group": "poly", "seed": sub_seed(seed, "c12pos", i), "n": n, "deg": deg, "style": style, "form": form,
                    "dtype": "float32" if f32 else "float64", "xl": xl, "xu": xu})
    # ---- smooth closed forms
    N = 160 if quick else 2000
    for i in range(N):
        rng = random.Random(sub_seed(seed, "c12sm", i))
        L = rng.uniform(0.05, 2.0)
        mid = rng.uniform(-9, 9)
        xl, xu = mid - L / 2, mid + L / 2
        if rng.random() < 0.5:
            xl, xu = xu, xl
        out.append({"group": "smooth", "seed": sub_seed(seed, "c12sms", i), "n": rng.choice([24, 33, 64, 100]),
                    "fam": ["cos", "sinm", "expm", "rat"][i % 4], "form": FORMS[(i // 4) % len(FORMS)],
                    "dtype": "float64", "xl": xl, "xu": xu})
    # ---- directed: intervals that are tiny relative to their distance from the origin (|x|/L up to 1e6), both orientations; small n so
    # that the conditioning of the mapped variable (error ~ k^2 eps |x|/L) stays far below the tolerance 5000 eps (1 + k |x|/L)
    far = [(1.0, 1.0 + 1e-6), (1000.0, 1000.005), (3e-9, 8e-9), (-5.0e4, -5.0e4 + 0.01), (10.0 + 37 / 2.0 ** 14, 10.0 + 38 / 2.0 ** 14),
           (123.456, 123.456 + 2e-5), (-1.0 - 3e-7, -1.0)]
    k = 0
    for (a, b) in far:
        for n in (1, 2, 3, 5, 8):
            for form in (FORMS if not quick else FORMS[(k % 2)::2]):
                xl, xu = (a, b) if k % 3 else (b, a)
                out.append({"group": "legvec", "seed": sub_seed(seed, "c12far", k), "n": n, "dtype": "float64", "form": form, "xl": xl, "xu": xu,
                            "far": True})
                k += 1
    # ---- infinite ranges
    N = 160 if quick else 2000
    for i in range(N):
        rng = random.Random(sub_seed(seed, "c12inf", i))
        fam = ["gauss", "x2gauss", "lorentz", "sech2", "expdecay"][i % 5]
        rk = rng.choice(["both", "lower", "upper"])
        if fam == "expdecay":
            rk = "upper"
        out.append({"group": "inf", "seed": sub_seed(seed, "c12infs", i), "n": rng.choice([100, 200, 300]), "fam": fam, "range": rk,
                    "swap": rng.random() < 0.3, "form": rng.choice(["num", "t0", "t1", "num_t0", "t0_num"]),
                    "a": rng.uniform(-1.5, 1.5), "s": math.exp(rng.uniform(math.log(0.5), math.log(2.0))), "mu": rng.uniform(-1, 1),
                    "dtype": "float64"})
    # ---- tuple outputs
    N = 160 if quick else 2000
    for i in range(N):
        rng = random.Random(sub_seed(seed, "c12tu", i))
        f32 = rng.random() < 0.15
        xl, xu = _interval(rng, f32, maxlen=5.0, minlen=0.05, cmax=rng.choice([0.5, 1.0, 3.0]))
        out.append({"group": "tuple", "seed": sub_seed(seed, "c12tus", i), "n": rng.choice([1, 2, 3, 5, 8, 16, 33, 100]),
                    "ncomp": rng.randint(1, 4), "container": rng.choice(["tuple", "list"]), "form": FORMS[i % len(FORMS)],
                    "dtype": "float32" if f32 else "float64", "xl": xl, "xu": xu})
    from vf import c12_extra
    out.extend(c12_extra.cases(seed, tier))
    return out


# ------------------------------------------------------------------------------------------------ helpers
def _dt(name):
    return {"float32": torch.float32, "float64": torch.float64}[name]


def _round_to(x, dt):
    if isinstance(x, int):
        return x
    return float(torch.tensor(x, dtype=dt))


def make_limits(form, xl, xu, dt):
    """the two limit objects in the requested form"""
    def one(kind, v):
        if kind == "num":
            return float(v)
        if kind == "int":
            if int(v) != v:
                raise HarnessBug("integer form with a non-integer limit")
            return int(v)
        if kind == "t0":
            return torch.tensor(float(v), dtype=dt)
        if kind == "t1":
            return torch.tensor([float(v)], dtype=dt)
        raise HarnessBug("unknown limit form %s" % kind)
    parts = form.split("_")
    if len(parts) == 1:
        parts = parts * 2
    return one(parts[0], xl), one(parts[1], xu)


def count_form(obs, form):
    parts = set(form.split("_"))
    if len(parts) > 1:
        obs.count("form_mixed")
    elif "num" in parts:
        obs.count("form_num")
    elif "int" in parts:
        obs.count("form_int")
    elif "t0" in parts:
        obs.count("form_t0")
    elif "t1" in parts:
        obs.count("form_t1")


def has_number_xl(form):
    return form.split("_")[0] in ("num", "int")


def legendre_stack(t, m):
    """[P_0(t), ..., P_{m-1}(t)] by the three-term recurrence"""
    P = [torch.ones_like(t), t]
    for k in range(1, m - 1):
        P.append(((2 * k + 1) * t * P[k] - k * P[k - 1]) / (k + 1))
    return torch.stack(P[:m])


def ref_rule(f, xl, xu, n):
    """plain n-point Gauss-Legendre rule with scipy's nodes in float64 (f takes and returns float64 tensors)"""
    from scipy.special import roots_legendre
    t, w = roots_legendre(n)
    h, m = 0.5 * (xu - xl), 0.5 * (xu + xl)
    acc = None
    for ti, wi in zip(t, w):
        v = f(torch.tensor(m + h * ti, dtype=torch.float64)) * (wi * h)
        acc = v if acc is None else acc + v
    return acc


def call_quad(obs, mech_prefix, fcn, xlo, xuo, **kw):
    """the monitored call; an exception is a refutation (the inputs are inside the property's domain)"""
    from xitorch.integrate import quad
    try:
        with WarnLog():
            return True, quad(fcn, xlo, xuo, **kw)
    except Exception as e:  # noqa
        obs.exc_violation("call:" + mech_prefix, e)
        return False, None


def as_flat64(y):
    return y.detach().reshape(-1).double()


# ------------------------------------------------------------------------------------------------ groups
def run_legvec(desc, obs):
    from scipy.special import roots_legendre, eval_legendre
    dt = _dt(desc["dtype"])
    n, form = desc["n"], desc["form"]
    xl, xu = _round_to(desc["xl"], dt), _round_to(desc["xu"], dt)
    xlo, xuo = make_limits(form, xl, xu, dt)
    L = xu - xl
    c = max(abs(xl), abs(xu)) / abs(L)
    mid = torch.tensor(0.5 * (xl + xu), dtype=dt)
    half = torch.tensor(0.5 * (xu - xl), dtype=dt)
    m = 2 * n + 1
    calls = []

    def integrand(x):
        calls.append(x.detach().clone().reshape(-1) if isinstance(x, torch.Tensor) else x)
        return legendre_stack((x - mid) / half, m)

    key = "%s:%s" % (form, desc["dtype"])
    ok, y = call_quad(obs, "legvec:tensor:%s" % form, integrand, xlo, xuo, n=n)
    obs.nontrivial = True
    if not ok:
        return
    if not obs.check(isinstance(y, torch.Tensor) and y.numel() == m and y.dtype == dt, "legvec:shape:" + key,
                     "result is %s, expected %d entries of %s" % (getattr(y, "shape", type(y)), m, dt)):
        return
    eps = torch.finfo(y.dtype).eps
    yv = as_flat64(y) / L
    ks = torch.arange(m, dtype=torch.float64)
    tol = (5000.0 if y.dtype == torch.float64 else 1000.0) * eps * (1 + ks * c)
    want = torch.zeros(m, dtype=torch.float64)
    want[0] = 1.0
    err = (yv - want).abs()
    worst = float((err[:2 * n] / tol[:2 * n]).max())
    kbad = int((err[:2 * n] / tol[:2 * n]).argmax())
    obs.count("legvec_exact_entries_checked", 2 * n)
    obs.check(worst <= 1.0, "legvec:exact:" + key,
              "P_%d integrates to %.6e*(xu-xl) instead of %g (error/tolerance %.2e, n=%d)" % (kbad, float(yv[kbad]), float(want[kbad]), worst, n),
              n=n, xl=xl, xu=xu)
    # degree 2n: the value of the n-point rule (independent reference), which is NOT the exact integral 0
    t, w = roots_legendre(n)
    ref2n = float(np.sum(w * eval_legendre(2 * n, t))) * 0.5
    if abs(ref2n) < 0.03:
        raise HarnessBug("reference Gauss error for n=%d unexpectedly small" % n)
    last = float(yv[2 * n])
    obs.check(abs(last) >= 0.5 * abs(ref2n), "legvec:degree2n_exact:" + key,
              "P_%d integrates to %.3e*(xu-xl): the rule is exact beyond degree 2n-1, so it is not the %d-point rule "
              "(whose value is %.4f)" % (2 * n, last, n, ref2n), n=n)
    obs.check(abs(last - ref2n) <= float(tol[2 * n]), "legvec:degree2n_value:" + key,
              "P_%d gives %.12f*(xu-xl), the %d-point Gauss-Legendre rule gives %.12f" % (2 * n, last, n, ref2n), n=n)
    # abscissae seen by the spy
    pts = calls
    if pts and not isinstance(pts[0], torch.Tensor):
        obs.count("probe_with_python_number")
        pts = pts[1:]
    elif pts and pts[0].numel() == 1 and float(pts[0]) == float(torch.tensor(float(xl), dtype=pts[0].dtype)):
        obs.count("probe_with_tensor")
        pts = pts[1:]
    good = all(isinstance(p, torch.Tensor) and p.numel() == 1 for p in pts)
    obs.check(good and len(pts) == n, "absc:count:" + key,
              "the integrand was evaluated at %d abscissae (after the probing call), expected n=%d" % (len(pts), n), n=n)
    if good and len(pts) == n:
        X = torch.sort(torch.cat(pts).double()).values
        tref = torch.sort(torch.tensor(0.5 * (xl + xu) + 0.5 * (xu - xl) * t, dtype=torch.float64)).values
        d = float((X - tref).abs().max())
        atol = 200 * eps * max(abs(xl), abs(xu))
        obs.count("abscissae_compared", n)
        obs.check(d <= atol, "absc:nodes:" + key, "abscissae differ from the mapped Gauss-Legendre nodes by %.3e (tolerance %.3e)" % (d, atol),
                  n=n, xl=xl, xu=xu)
        obs.check(all(p.dtype == dt for p in pts), "absc:dtype:" + key, "abscissae have dtype %s, expected %s" % (pts[0].dtype, dt))
    obs.note(n=n, worst_exact_over_tol=worst, degree2n=last, degree2n_ref=ref2n, ncalls=len(calls))


def make_poly(coefs, style, dt):
    """integrand for sum c_k x^k in the requested style"""
    deg = len(coefs) - 1
    if style == "tensor":
        ct = torch.tensor(coefs, dtype=dt)

        def f(x):
            acc = ct[deg]
            for k in range(deg - 1, -1, -1):
                acc = ct[k] + x * acc
            return acc
    elif style == "pure":
        def f(x):
            acc = coefs[deg]
            for k in range(deg - 1, -1, -1):
                acc = coefs[k] + x * acc
            return acc
    elif style == "pow":
        def f(x):
            acc = coefs[1] * x
            for k in range(2, deg + 1):
                acc = acc + coefs[k] * x ** k
            return acc + coefs[0]
    else:
        raise HarnessBug(style)
    return f


def exact_poly_integral(coefs, xl, xu):
    a, b = Fraction(xl), Fraction(xu)
    tot = Fraction(0)
    for k, ck in enumerate(coefs):
        tot += Fraction(ck) * (b ** (k + 1) - a ** (k + 1)) / (k + 1)
    return float(tot)


def poly_scale(coefs, xs):
    X = max(abs(v) for v in xs)
    return sum(abs(ck) * X ** k for k, ck in enumerate(coefs))


def run_poly(desc, obs):
    rng = random.Random(desc["seed"])
    dt = _dt(desc["dtype"])
    n, form, style, deg = desc["n"], desc["form"], desc["style"], desc["deg"]
    if 2 * n - 1 < deg:
        n = (deg + 2) // 2
    # pure python integrands follow the dtype of the abscissae: make every endpoint float32-representable
    rdt = torch.float32 if style != "tensor" else dt
    if dt == torch.float32:
        rdt = torch.float32
    xl, xu = _round_to(desc["xl"], rdt), _round_to(desc["xu"], rdt)
    xm = xl + (xu - xl) * rng.uniform(-0.5, 1.5) if not isinstance(xl, int) else xl + rng.randint(-3, 3)
    xm = _round_to(xm, rdt)
    if xm == xl or xm == xu:
        xm = _round_to(0.5 * (xl + xu), rdt) if not isinstance(xl, int) else xl + (xu - xl) * 2

    def rcoefs():
        cs = [rng.randint(-24, 24) / 8.0 for _ in range(deg + 1)]
        if cs[deg] == 0:
            cs[deg] = 0.5
        if cs[1] == 0 and deg == 1:
            cs[1] = -0.75
        return cs
    cf, cg = rcoefs(), rcoefs()
    al, be = rng.randint(-16, 16) / 4.0 or 1.25, rng.randint(-16, 16) / 4.0 or -0.5
    f, g = make_poly(cf, style, dt), make_poly(cg, style, dt)
    fg = make_poly([al * a + be * b for a, b in zip(cf, cg)], style, dt)
    # make sure the combination keeps a non-zero leading structure for the pure styles (deg>=1 term present)
    xlo, xuo = make_limits(form, xl, xu, dt)
    key = "%s:%s" % (style, form)
    pure_num = style != "tensor" and has_number_xl(form)
    if pure_num:
        obs.count("style_pure_num_calls")
    obs.nontrivial = True
    ok, If = call_quad(obs, "poly:" + key, f, xlo, xuo, n=n)
    if not ok:
        return
    if not obs.check(isinstance(If, torch.Tensor) and If.numel() == 1 and If.dtype.is_floating_point, "poly:shape:" + key,
                     "result is %r" % (If,)):
        return
    eps = torch.finfo(If.dtype).eps
    if dt == torch.float64 and not pure_num and "num" not in form and "int" not in form:
        obs.check(If.dtype == torch.float64, "poly:dtype:" + key, "float64 limits but the result is %s" % If.dtype)
    Lmax = max(abs(xu - xl), abs(xm - xl), abs(xu - xm))
    Sf, Sg = poly_scale(cf, (xl, xu, xm)), poly_scale(cg, (xl, xu, xm))
    ex_f = exact_poly_integral(cf, xl, xu)
    tol_f = CTOL * eps * Lmax * Sf
    e = abs(float(If) - ex_f)
    obs.check(e <= tol_f, "poly:exact:" + key, "degree-%d polynomial with n=%d: quad gives %.15g, exact integral %.15g "
              "(error/tolerance %.2e)" % (deg, n, float(If), ex_f, e / tol_f), xl=xl, xu=xu, n=n, coefs=cf)
    worst = e / tol_f
    # the relations use the same limit objects
    ok, Ig = call_quad(obs, "poly:" + key, g, xlo, xuo, n=n)
    ok2, Ifg = call_quad(obs, "poly:" + key, fg, xlo, xuo, n=n)
    if ok and ok2:
        tol = CTOL * eps * Lmax * (abs(al) * Sf + abs(be) * Sg)
        e = abs(float(Ifg) - (al * float(If) + be * float(Ig)))
        obs.count("poly_linearity_checked")
        obs.check(e <= tol, "poly:linear:" + key, "quad(a f + b g) - (a quad(f) + b quad(g)) = %.3e (tolerance %.3e)" % (e, tol), n=n)
        worst = max(worst, e / tol)
    ok, Isw = call_quad(obs, "poly:" + key + ":swapped", f, *make_limits(_swap_form(form), xu, xl, dt), n=n)
    if ok and obs.check(isinstance(Isw, torch.Tensor) and Isw.numel() == 1 and Isw.dtype.is_floating_point, "poly:shape:" + key + ":swapped",
                        "result is %r" % (Isw,)):
        # with mixed limit forms the swapped call may run in another precision (the dtype follows the abscissae)
        tol_sw = tol_f * max(eps, torch.finfo(Isw.dtype).eps) / eps
        e = abs(float(Isw) + float(If))
        obs.count("poly_swap_checked")
        obs.check(e <= tol_sw, "poly:swap:" + key, "quad over [xu,xl] = %.15g, quad over [xl,xu] = %.15g: not opposite (tolerance %.3e)" %
                  (float(Isw), float(If), tol_sw), n=n)
        worst = max(worst, e / tol_sw)
    fa, fb = form.split("_") if "_" in form else (form, form)
    ok, I1 = call_quad(obs, "poly:" + key + ":sub1", f, *make_limits(fa + "_" + fb, xl, xm, dt), n=n)
    ok2, I2 = call_quad(obs, "poly:" + key + ":sub2", f, *make_limits(fa + "_" + fb, xm, xu, dt), n=n)
    if ok and ok2:
        e = abs(float(I1) + float(I2) - float(If))
        obs.count("poly_additivity_checked")
        obs.check(e <= 2 * tol_f, "poly:additive:" + key, "quad[xl,xm] + quad[xm,xu] - quad[xl,xu] = %.3e (tolerance %.3e), xm=%r" %
                  (e, 2 * tol_f, xm), n=n, xl=xl, xu=xu)
        worst = max(worst, e / (2 * tol_f))
    obs.nontrivial = ex_f != 0.0
    obs.note(n=n, deg=deg, worst_over_tol=worst, result_dtype=str(If.dtype))


def _swap_form(form):
    if "_" in form:
        a, b = form.split("_")
        return b + "_" + a
    return form


def run_smooth(desc, obs):
    dt = _dt(desc["dtype"])
    n, form, fam = desc["n"], desc["form"], desc["fam"]
    xl, xu = _round_to(desc["xl"], torch.float32), _round_to(desc["xu"], torch.float32)
    if fam == "cos":
        f, F = (lambda x: torch.cos(x)), math.sin
    elif fam == "sinm":
        f, F = (lambda x: x.sin()), (lambda x: -math.cos(x))
    elif fam == "expm":
        f, F = (lambda x: torch.exp(-x)), (lambda x: -math.exp(-x))
    elif fam == "rat":
        f, F = (lambda x: 1 / (1 + x * x)), math.atan
    else:
        raise HarnessBug(fam)
    xlo, xuo = make_limits(form, xl, xu, dt)
    key = "%s:%s" % (fam, form)
    if has_number_xl(form):
        obs.count("style_pure_num_calls")
    obs.nontrivial = True
    ok, y = call_quad(obs, "smooth:pure:%s" % form, f, xlo, xuo, n=n)
    if not ok:
        return
    if not obs.check(isinstance(y, torch.Tensor) and y.numel() == 1 and y.dtype.is_floating_point, "smooth:shape:" + key, "result is %r" % (y,)):
        return
    eps = torch.finfo(y.dtype).eps
    ex = F(xu) - F(xl)
    # float32 abscissae: the rounding of x enters through |f'| <= max(1, e^{|x|})
    amp = math.exp(max(-xl, -xu)) if fam == "expm" else 1.0
    tol = CTOL * eps * abs(xu - xl) * amp * (1 + max(abs(xl), abs(xu)))
    e = abs(float(y) - ex)
    obs.check(e <= tol, "smooth:value:" + key, "quad gives %.15g, closed form %.15g (error/tolerance %.2e, n=%d)" % (float(y), ex, e / tol, n),
              xl=xl, xu=xu)
    obs.note(n=n, err_over_tol=e / tol, result_dtype=str(y.dtype))


def run_inf(desc, obs):
    dt = torch.float64
    n, fam, rk, form = desc["n"], desc["fam"], desc["range"], desc["form"]
    a, s, mu = desc["a"], desc["s"], desc["mu"]
    st, mut = torch.tensor(s, dtype=dt), torch.tensor(mu, dtype=dt)
    if fam == "gauss":
        f = lambda x: torch.exp(-(x - mut) ** 2 / (2 * st * st))
        F = lambda x: s * math.sqrt(math.pi / 2) * (1 + math.erf((x - mu) / (s * math.sqrt(2))))
        Fm, Fp = 0.0, s * math.sqrt(2 * math.pi)
    elif fam == "x2gauss":
        f = lambda x: (x - mut) ** 2 * torch.exp(-(x - mut) ** 2 / (2 * st * st))
        F = lambda x: (s ** 3 * math.sqrt(math.pi / 2) * (1 + math.erf((x - mu) / (s * math.sqrt(2))))
                       - s * s * (x - mu) * math.exp(-(x - mu) ** 2 / (2 * s * s)))
        Fm, Fp = 0.0, s ** 3 * math.sqrt(2 * math.pi)
    elif fam == "lorentz":
        f = lambda x: st / ((x - mut) ** 2 + st * st)
        F = lambda x: math.atan((x - mu) / s)
        Fm, Fp = -math.pi / 2, math.pi / 2
    elif fam == "sech2":
        f = lambda x: 1 / torch.cosh((x - mut) / st) ** 2
        F = lambda x: s * math.tanh((x - mu) / s)
        Fm, Fp = -s, s
    elif fam == "expdecay":
        f = lambda x: torch.exp(-x / st)
        F = lambda x: -s * math.exp(-x / s)
        Fm, Fp = None, 0.0
    else:
        raise HarnessBug(fam)
    xl, xu = {"both": (-INF, INF), "lower": (-INF, a), "upper": (a, INF)}[rk]
    ex = (Fp if xu == INF else F(xu)) - (Fm if xl == -INF else F(xl))
    if desc["swap"]:
        xl, xu, ex = xu, xl, -ex
    xlo, xuo = make_limits(form, xl, xu, dt)
    obs.count("inf_both" if rk == "both" else "inf_half")
    key = "%s:%s%s:%s" % (fam, rk, ":swapped" if desc["swap"] else "", form)
    obs.nontrivial = True
    ok, y = call_quad(obs, "inf:%s:%s" % (rk, form), f, xlo, xuo, n=n)
    if not ok:
        return
    if not obs.check(isinstance(y, torch.Tensor) and y.numel() == 1 and y.dtype == dt, "inf:shape:" + key, "result is %r" % (y,)):
        return
    rtol = 1e-7 if n < 200 else 1e-11
    # relative to the integral over the whole support (a tail integral can be arbitrarily small next to the integrand's scale)
    full = abs(Fp - Fm) if Fm is not None else abs(ex)
    e = abs(float(y) - ex) / max(abs(ex), full)
    obs.check(e <= rtol, "inf:value:" + key, "quad gives %.15g, closed form %.15g (error relative to the full-range integral %.2e, allowed %.0e "
              "for n=%d)" % (float(y), ex, e, rtol, n), s=s, mu=mu, a=a)
    if abs(ex) < 1e-3 * full:
        obs.nontrivial = False
    obs.note(**{"n": n, "rel_err_n100" if n < 200 else "rel_err_n200plus": e})


def run_tuple(desc, obs):
    rng = random.Random(desc["seed"])
    dt = _dt(desc["dtype"])
    n, form, ncomp = desc["n"], desc["form"], desc["ncomp"]
    xl, xu = _round_to(desc["xl"], dt), _round_to(desc["xu"], dt)
    shapes = [rng.choice([(), (1,), (2,), (3,), (2, 2), (1, 3)]) for _ in range(ncomp)]
    tgen = torch.Generator().manual_seed(desc["seed"])
    comps = []
    for sh in shapes:
        A = torch.rand(sh, generator=tgen, dtype=torch.float64) * 2 + 0.2
        B = torch.randn(sh, generator=tgen, dtype=torch.float64)
        kind = rng.choice(["cos", "poly", "exp"])
        comps.append((kind, A, B))

    def comp(kind, A, B, x):
        if kind == "cos":
            return torch.cos(A * x + B)
        if kind == "poly":
            return A + B * x + A * B * x * x
        return B * torch.exp(-A * x * 0.3)

    comps_dt = [(k, A.to(dt), B.to(dt)) for k, A, B in comps]

    def integrand(x):
        x0 = x.reshape(()) if isinstance(x, torch.Tensor) else x
        res = [comp(k, A, B, x0) for k, A, B in comps_dt]
        return tuple(res) if desc["container"] == "tuple" else list(res)

    xlo, xuo = make_limits(form, xl, xu, dt)
    key = "%s:%s" % (desc["container"], form)
    obs.nontrivial = True
    ok, y = call_quad(obs, "tuple:%s" % key, integrand, xlo, xuo, n=n)
    if not ok:
        return
    good = isinstance(y, (tuple, list)) and len(y) == ncomp and all(isinstance(v, torch.Tensor) for v in y)
    if not obs.check(good, "tuple:structure:" + key, "result is %s of length %s, expected a sequence of %d tensors" %
                     (type(y).__name__, len(y) if hasattr(y, "__len__") else "?", ncomp)):
        return
    eps = torch.finfo(dt).eps
    c = max(abs(xl), abs(xu))
    worst = 0.0
    for j, ((kind, A, B), v) in enumerate(zip(comps, y)):
        if not obs.check(tuple(v.shape) == tuple(A.shape) and v.dtype == dt, "tuple:component_shape:" + key,
                         "component %d has shape %s dtype %s, integrand returns %s %s" % (j, tuple(v.shape), v.dtype, tuple(A.shape), dt)):
            continue
        ref = ref_rule(lambda x: comp(kind, A, B, x), xl, xu, n)
        # scale of the summands; the float32 rounding of the abscissae enters through |df/dx| <= scale*(|A|+..)
        scale = float(ref_rule(lambda x: comp(kind, A, B, x).abs(), min(xl, xu), max(xl, xu), n).max()) + abs(xu - xl) * float(
            (A.abs() + B.abs() + (A * B).abs() * (1 + c * c)).max())
        tol = CTOL * eps * scale * (1 + c) * (1 + float(A.max()))
        e = float((v.double() - ref).abs().max())
        worst = max(worst, e / tol)
        obs.count("tuple_components_checked")
        obs.check(e <= tol, "tuple:value:" + key, "component %d (%s, shape %s) differs from the %d-point rule applied to that component by "
                  "%.3e (tolerance %.3e)" % (j, kind, tuple(A.shape), n, e, tol), xl=xl, xu=xu)
    obs.note(n=n, ncomp=ncomp, worst_over_tol=worst)


GROUPS = {"legvec": run_legvec, "poly": run_poly, "smooth": run_smooth, "inf": run_inf, "tuple": run_tuple}


def run_case(desc):
    if desc.get("group") == "extra":
        from vf import c12_extra
        return c12_extra.run_case(desc)
    obs = Obs(desc)
    count_form(obs, desc["form"])
    if desc["dtype"] == "float32":
        obs.count("float32_cases")
    obs.count("group_" + desc["group"])
    GROUPS[desc["group"]](desc, obs)
    return obs.result()
