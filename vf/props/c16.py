"""C16 - mcquad returns the documented weighted sample mean, with its gradient.

Call-history spies on f, log p and the custom step (arguments recorded separately for the forward call and for every
backward pass) + a plain-torch reference evaluated on the samples the spy saw:

    E_ref(theta_f, theta_p) = sum_i W_i(theta_p) f(x_i; theta_f),   W = softmax_i(log c_i + log p(x_i; theta_p))

with c_i fixed so that W_i equals the sampler's weight at the actual parameters (1/N for the Metropolis samplers, the
tan-mapped Gauss-Legendre weight for the 1-D quadrature sampler).  Its first derivative w.r.t. theta_p is the
covariance (score-function) estimator sum_i w_i (f_i - E) dlog p(x_i), w.r.t. theta_f it is sum_i w_i df(x_i), and
differentiating once more gives the same estimators applied to the first-order estimator (what "second order" means for
an expectation over samples drawn from p)."""
import math
import random

import torch

from vf.common import Obs, sub_seed, WarnLog, HarnessBug

LEVEL = "exploration"
TECHNIQUE = ("runtime call-history spies on the integrand, log p and the custom step (forward and each backward pass recorded "
             "separately) + plain-torch reference (explicit weighted sum / score-function estimator) on the recorded samples; "
             "statistical monitors (acceptance count, proposal scale, batch-means z-score) on recorded Metropolis chains")
LEVEL_TEXT = ("Held on every generated call of the run: samplers {mhcustom with a deterministic chaotic step, the 1-D quadrature sampler, "
              "mh} x (nsamples 1..12, nburnout 0..8) x f output kinds {0-dim, (1,), vector, matrix, tuple, list, constant} x parameter "
              "placement {explicit, EditableModule, nn.Module, mixed} for f and for log p x {unused tensors, shared tensor, derived "
              "(non-leaf) tensors, non-tensor parameters} x first order (with and without create_graph) and second order; mh "
              "additionally on 3000-sample chains with 8-sigma statistical bounds.")
LEVEL_NOTE = ("Decides the value/gradient clauses exactly (reference on the samples the spy saw, tolerance 1e-9 relative) also for mh; "
              "the claim that mh targets p is only decided statistically (acceptance count vs sum of min(1,p'/p), proposal variance, "
              "batch-means z-score against closed-form Gaussian expectations).")
RULE = ("seeded sampling over sampler x (nsamples, nburnout) x x-shape {(), (1,), (2,), (3,), (2,2)} x f kind x log p family {gauss, quartic} x "
        "log p output shape {(), (1,)} x placement of f / log p parameters x unused-tensor class {none, f, p, both, step-only} x shared x "
        "derived x non-tensor parameter x order; groups: custom, dummy, mh_small (exact checks), mh_stat (statistical), mh_burn (chain started "
        "30 sigma from the mode: burn-in must have happened), meta (constant / linearity / tuple relations); non-trivial = the f spy saw >= 2 distinct samples in the forward call and (at least one "
        "gradient with non-zero reference was compared, or the group is meta/mh_stat with its relation evaluated)")
RULE += ('; group extra (vf/c16_extra.py): loss nonlinear in the expectation, chained parameters, one object re-assigned between two expectations with one backward, f and log p as methods of one object sharing a tensor, chain states of another dtype than the model')
RULE += ('; round 6 (vf/c16_wide.py): kind mixdtype (tuple / list components of different dtypes and kinds - float64, float32, bool indicator, integer-valued - in seeded order on every sampler: each component = explicit weighted mean of that component = the same component integrated alone, with gradients), kind abort_reuse (f or log p raises at a seeded evaluation of the forward / plain backward / graph-building backward / second-order backward, exception caught, fresh mcquad on the same objects: objects hold the user\'s tensor objects, value + plain backward() + create_graph + second order equal the reference), kind offset (log p + constant 0, +-50, +-800 on every sampler: constant integrand, value, gradients)')
MIN_NONTRIVIAL = {"quick": 350, "thorough": 4000}
ASSUMPTIONS = ["mixdtype: a result or cotangent that passes through a float32 component is compared at 2e-4 relative (float32 rounding over <= 40 samples is <= 5e-6), float64 at 1e-9; log p offsets |c| <= 800",
               "float64 only (except kind mixdtype / x0dtype); x0 does not require grad; nsamples >= 1 (nsamples = 0 has no mean)",
               "f is polynomially bounded / bounded trigonometric, log p is Gaussian or quartic with scale parameters in [0.7, 1.5]",
               "custom steps are deterministic, stateless maps x -> mu + s*sin(2.9*roll(x) + phase) (chaotic, bounded, all states distinct)",
               "first sample index after burn-in: nburnout or nburnout+1 both accepted; an optional leading probe call f(x0) is accepted",
               "mh: numbers of log p evaluations nburnout+nsamples+{1,2} and of f evaluations nsamples+{0,1} accepted",
               "mh_burn: 600 burn-in steps of size sigma/sqrt(d) from 30 sigma away (arrival takes 100-140 steps); a sample > 8 sigma from the mode "
               "afterwards has probability ~1e-14",
               "value / gradient tolerance 1e-9*(1+|ref|) (largest deviation seen on the repaired tree 1.2e-12, second order); statistical bounds 8 sigma",
               "second order = derivative of the first-order estimator including the score-function term of the sample weights"]
BUDGET = {"quick": {"worker_timeout": 600, "case_timeout": 90}, "thorough": {"worker_timeout": 3000, "case_timeout": 120}}
REQUIRED_COUNTERS = {
    "quick": {"wide_mixdtype_compared": 50, "wide_mixdtype_bool_components": 20, "wide_mixdtype_int_components": 20, "wide_mixdtype_f32_components": 10, "wide_alone_compared": 100, "wide_mixdtype_mhcustom": 15, "wide_mixdtype__dummy1d": 15, "wide_mixdtype_mh": 15, "wide_abort_reuse_compared": 50, "wide_abort_injected_bwd": 35, "wide_abort_injected_f_bwd_plain": 10, "wide_abort_injected_fwd": 5, "wide_offset_compared": 30, "wide_offset_large_compared": 10,
              "extra_shared_object_compared": 20, "extra_x0dtype_compared": 20, "extra_late_backward_histories": 15, "sampler_mhcustom": 150, "sampler__dummy1d": 60, "sampler_mh": 60, "grad_compared_first": 300,
              "grad_compared_first_nograph": 300, "grad_compared_second": 150, "unused_tensor_grad_checked": 60,
              "bwd_abscissae_checked": 500, "step_history_checked": 150, "mh_stat_chains": 20, "mh_burnin_checked": 20, "mh_chain_rule_checked": 40,
              "meta_relations_checked": 40, "objparam_cases": 100, "shared_tensor_cases": 20},
    "thorough": {"wide_mixdtype_compared": 500, "wide_mixdtype_bool_components": 200, "wide_mixdtype_int_components": 200, "wide_mixdtype_f32_components": 100, "wide_alone_compared": 1000, "wide_mixdtype_mhcustom": 150, "wide_mixdtype__dummy1d": 150, "wide_mixdtype_mh": 150, "wide_abort_reuse_compared": 500, "wide_abort_injected_bwd": 350, "wide_abort_injected_f_bwd_plain": 100, "wide_abort_injected_fwd": 50, "wide_offset_compared": 300, "wide_offset_large_compared": 100,
                 "extra_shared_object_compared": 200, "extra_x0dtype_compared": 200, "extra_late_backward_histories": 150, "sampler_mhcustom": 1500, "sampler__dummy1d": 600, "sampler_mh": 600, "grad_compared_first": 3000,
                 "grad_compared_first_nograph": 3000, "grad_compared_second": 1500, "unused_tensor_grad_checked": 600,
                 "bwd_abscissae_checked": 5000, "step_history_checked": 1500, "mh_stat_chains": 200, "mh_burnin_checked": 200, "mh_chain_rule_checked": 400,
                 "meta_relations_checked": 400, "objparam_cases": 1000, "shared_tensor_cases": 200},
}

DT = torch.float64
XSHAPES = [(), (1,), (2,), (3,), (2, 2)]
FKINDS = ["scalar", "one1", "vector", "matrix", "tuple2", "tuple3", "list2", "const_param", "const_fixed"]
PLACES = ["explicit", "editable", "nn", "mixed"]
UNUSED = ["none", "none", "none", "f", "p", "both", "step"]
TOL = 1e-9


# ------------------------------------------------------------------------------------------------------------ cases
def cases(seed, tier):
    out = []
    big = tier != "quick"
    n_custom, n_dummy, n_mhs, n_stat, n_meta = (300, 130, 110, 36, 60) if not big else (3600, 1500, 1300, 420, 700)
    n_burn = 30 if not big else 300

    def common(rng, d):
        d["fkind"] = rng.choice(FKINDS)
        d["pfam"] = rng.choice(["gauss", "gauss", "quartic"])
        d["pshape1"] = rng.random() < 0.3
        d["fplace"] = rng.choice(PLACES)
        d["pplace"] = rng.choice(PLACES)
        d["unused"] = rng.choice(UNUSED)
        d["shared"] = rng.random() < 0.15
        d["derived"] = rng.random() < 0.3
        d["nontensor"] = rng.random() < 0.4
        d["ntpos"] = rng.choice(["first", "first", "after_first", "last"])     # where the python float sits among the explicit parameters
        d["order"] = 2 if rng.random() < 0.6 else 1
        return d

    for i in range(n_custom):
        rng = random.Random(sub_seed(seed, "c16c", i))
        d = {"group": "custom", "seed": sub_seed(seed, "c16cs", i), "sampler": "mhcustom"}
        d["ns"] = rng.choice([1, 2, 3, 3, 5, 7, 7, 12])
        d["nb"] = rng.choice([0, 1, 2, 3, 3, 5, 8])
        d["xshape"] = rng.randrange(len(XSHAPES))
        out.append(common(rng, d))
    # the (nsamples, nburnout) grid of the property's quantifier, exhaustively, on the plainest configuration
    k = 0
    for ns in (1, 2, 3, 5, 7, 12):
        for nb in (0, 1, 2, 3, 5, 8):
            out.append({"group": "custom", "seed": sub_seed(seed, "c16g", k), "sampler": "mhcustom", "ns": ns, "nb": nb,
                        "xshape": 2, "fkind": "vector", "pfam": "gauss", "pshape1": False, "fplace": "explicit",
                        "pplace": "explicit", "unused": "none", "shared": False, "derived": False, "nontensor": False, "order": 1})
            k += 1
    for i in range(n_dummy):
        rng = random.Random(sub_seed(seed, "c16d", i))
        d = {"group": "dummy", "seed": sub_seed(seed, "c16ds", i), "sampler": "_dummy1d"}
        d["ns"] = rng.choice([1, 2, 3, 4, 6, 9, 12])
        d["nb"] = 0
        d["xshape"] = 0
        d["bounds"] = rng.choice(["inf", "inf", "finite", "lower", "upper"])
        common(rng, d)
        if d["unused"] == "step":
            d["unused"] = "p"
        out.append(d)
    for i in range(n_mhs):
        rng = random.Random(sub_seed(seed, "c16m", i))
        d = {"group": "mh_small", "seed": sub_seed(seed, "c16ms", i), "sampler": "mh"}
        d["ns"] = rng.choice([1, 2, 4, 6, 9, 12])
        d["nb"] = rng.choice([0, 1, 3, 6])
        d["xshape"] = rng.randrange(len(XSHAPES))
        d["step_size"] = rng.choice([0.3, 0.8, 1.5])
        common(rng, d)
        if d["unused"] == "step":
            d["unused"] = "p"
        out.append(d)
    for i in range(n_stat):
        rng = random.Random(sub_seed(seed, "c16t", i))
        out.append({"group": "mh_stat", "seed": sub_seed(seed, "c16ts", i), "sampler": "mh", "ns": 3000, "nb": 150,
                    "xshape": rng.choice([0, 1, 2]), "step_size": rng.choice([0.8, 1.5, 2.5]),
                    "pplace": rng.choice(["explicit", "editable", "nn"])})
    for i in range(n_burn):
        rng = random.Random(sub_seed(seed, "c16b", i))
        out.append({"group": "mh_burn", "seed": sub_seed(seed, "c16bs", i), "sampler": "mh", "ns": rng.choice([1, 5, 20]), "nb": 600,
                    "xshape": rng.choice([0, 1, 2]), "step_size": 1.0, "pplace": rng.choice(["explicit", "editable", "nn"]), "far": 30})
    for i in range(n_meta):
        rng = random.Random(sub_seed(seed, "c16e", i))
        d = {"group": "meta", "seed": sub_seed(seed, "c16es", i)}
        d["sampler"] = rng.choice(["mhcustom", "mhcustom", "_dummy1d"])
        d["ns"] = rng.choice([1, 2, 3, 5, 9])
        d["nb"] = rng.choice([0, 1, 3]) if d["sampler"] == "mhcustom" else 0
        d["xshape"] = rng.randrange(len(XSHAPES)) if d["sampler"] == "mhcustom" else 0
        d["bounds"] = rng.choice(["inf", "finite"])
        d["pfam"] = rng.choice(["gauss", "quartic"])
        out.append(d)
    from vf import c16_extra
    out.extend(c16_extra.cases(seed, tier))
    return out


# ------------------------------------------------------------------------------------------------------------ spies
class Rec:
    """records every argument of f / log p / step together with the phase the monitor is in"""

    def __init__(self):
        self.phase = "fwd"
        self.log = {"f": [], "p": [], "s": []}

    def add(self, which, x, out=None):
        if not isinstance(x, torch.Tensor):
            raise HarnessBug("spy %s called with a non-tensor abscissa %r" % (which, type(x)))
        self.log[which].append((self.phase, x.detach().clone(), torch.is_grad_enabled(), out))

    def xs(self, which, phase):
        return [e[1] for e in self.log[which] if e[0] == phase]

    def entries(self, which, phase):
        return [e for e in self.log[which] if e[0] == phase]


def same(a, b):
    return a.shape == b.shape and bool(torch.all((a - b).abs() <= 1e-12 * (1 + b.abs())))


# --------------------------------------------------------------------------------------------------- integrands / log p
def make_f_body(kind, d, tgen):
    """plain-torch integrand body(xf, th, consts); th = list of tensors in the order of names()"""
    K3 = torch.randn(3, d, dtype=DT, generator=tgen) * 0.6
    K4 = torch.randn(4, d, dtype=DT, generator=tgen) * 0.6
    cfix = torch.randn(2, dtype=DT, generator=tgen)

    def scalar(xf, a, b):
        return b * torch.cos((a * xf).sum()) + (a * xf * xf).sum()

    def vector(xf, a, b):
        return torch.tanh(K3 @ (a * xf)) * b + (K3 @ xf) ** 2

    def matrix(xf, a, b):
        return (K4 @ (a * xf)).reshape(2, 2) * torch.sin(b * xf.sum()) + b * b

    def body(x, th, k):
        xf = (x * k).reshape(-1)
        if kind == "const_fixed":
            return cfix.clone()
        if kind == "const_param":
            return th[0] * torch.ones(2, dtype=DT)
        a, b = th
        if kind == "scalar":
            return scalar(xf, a, b)
        if kind == "one1":
            return scalar(xf, a, b).reshape(1)
        if kind == "vector":
            return vector(xf, a, b)
        if kind == "matrix":
            return matrix(xf, a, b)
        if kind == "tuple2":
            return (scalar(xf, a, b), vector(xf, a, b))
        if kind == "tuple3":
            return (vector(xf, a, b), matrix(xf, a, b), scalar(xf, a, b))
        if kind == "list2":
            return [vector(xf, a, b), scalar(xf, a, b)]
        raise HarnessBug("f kind %s" % kind)
    names = {"const_fixed": [], "const_param": ["b"]}.get(kind, ["a", "b"])
    return body, names


def make_p_body(fam, shape1):
    def body(x, th, k):
        mu, sig = th
        xf = (x * k).reshape(-1)
        if fam == "gauss":
            r = -((xf - mu) ** 2).sum() / (2 * sig * sig)
        else:
            r = -(sig * (xf - mu) ** 4).sum() - 0.5 * (xf * xf).sum()
        return r.reshape(1) if shape1 else r
    return body, ["mu", "sig"]


def make_step(d, xshape, phase_shift):
    ar = torch.arange(1, d + 1, dtype=DT) * 0.7 + phase_shift

    def raw(x, mu, s):
        xf = x.reshape(-1)
        return (mu + s * torch.sin(2.9 * torch.roll(xf, 1) + ar)).reshape(xshape)
    return raw


def place(body, names, tensors, placement, rec, which, k, unused_tensor, nontensor, ntpos="after_first"):
    """returns (callable for xitorch, explicit parameter list).  `tensors`: name -> tensor handed to xitorch."""
    import xitorch
    if placement == "explicit":
        held = []
    elif placement == "mixed":
        held = list(names[:1])
    else:
        held = list(names)
    expl = [n for n in names if n not in held]
    use_obj = placement in ("editable", "nn", "mixed")
    expl_params = [tensors[n] for n in expl]
    k_const = k
    if nontensor:
        pos = {"first": 0, "after_first": min(1, len(expl_params)), "last": len(expl_params)}[ntpos]
        expl_params.insert(pos, k)
    if unused_tensor is not None and not use_obj:
        expl_params.append(unused_tensor)

    def evaluate(x, heldvals, args):
        ts = [a for a in args if isinstance(a, torch.Tensor)]
        nt = [a for a in args if not isinstance(a, torch.Tensor)]
        vals = dict(heldvals)
        for n, t in zip(expl, ts):
            vals[n] = t
        kk = nt[0] if nontensor else k_const
        out = body(x, [vals[n] for n in names], kk)
        rec.add(which, x, out.detach().clone() if isinstance(out, torch.Tensor) else None)
        return out

    if not use_obj:
        def fn(x, *args):
            return evaluate(x, {}, args)
        return fn, expl_params, None

    attrs = list(held) + (["uu"] if unused_tensor is not None else [])
    if placement == "nn":
        class Mod(torch.nn.Module):
            def __init__(self):
                super().__init__()
                for n in held:
                    setattr(self, n, tensors[n])          # nn.Parameter -> registered
                if unused_tensor is not None:
                    self.uu = unused_tensor

            def forward(self, x, *args):
                return evaluate(x, {n: getattr(self, n) for n in held}, args)
    else:
        class Mod(xitorch.EditableModule):
            def __init__(self):
                for n in held:
                    setattr(self, n, tensors[n])
                if unused_tensor is not None:
                    self.uu = unused_tensor

            def forward(self, x, *args):
                return evaluate(x, {n: getattr(self, n) for n in held}, args)

            def getparamnames(self, methodname, prefix=""):
                return [prefix + n for n in attrs]
    obj = Mod()
    return obj.forward, expl_params, obj


# ---------------------------------------------------------------------------------------------------------- reference
def as_list(out):
    if isinstance(out, (list, tuple)):
        return list(out), True
    return [out], False


def reference(samples, logc, fbody, fth, kf, pbody, pth, kp):
    """E_ref as a differentiable function of the tensors in fth / pth"""
    lps = torch.stack([pbody(x, pth, kp).reshape(()) for x in samples])
    W = torch.softmax(logc + lps, dim=0)
    outs = None
    for i, x in enumerate(samples):
        fo, _ = as_list(fbody(x, fth, kf))
        if outs is None:
            outs = [W[i] * o for o in fo]
        else:
            outs = [acc + W[i] * o for acc, o in zip(outs, fo)]
    return outs, W


def grads_of(L, leaves, create_graph):
    if not (isinstance(L, torch.Tensor) and L.requires_grad):
        return [None] * len(leaves)
    return list(torch.autograd.grad(L, leaves, create_graph=create_graph, retain_graph=True, allow_unused=True))


def cmp_grads(obs, got, ref, leaves, roles, sampler, order, dataextra):
    worst = 0.0
    nonzero = False
    for g, r, leaf, role in zip(got, ref, leaves, roles):
        gz = torch.zeros_like(leaf) if g is None else g.detach()
        rz = torch.zeros_like(leaf) if r is None else r.detach()
        if float(rz.abs().max()) > 1e-8:
            nonzero = True
        err = float((gz - rz).abs().max()) if gz.shape == rz.shape else float("inf")
        scale = 1.0 + float(rz.abs().max())
        worst = max(worst, err / scale)
        obs.check(err <= TOL * scale, "grad:%s:%s:%s" % (role, sampler, order),
                  "gradient w.r.t. a %s tensor differs from the plain-torch estimator on the forward samples: |diff| = %.3e, |ref| = %.3e"
                  % (role, err, float(rz.abs().max())), got=gz, ref=rz, **dataextra)
        if role.startswith("unused") or role == "step_only":
            obs.count("unused_tensor_grad_checked")
    obs.count("grad_compared_%s" % order)
    return worst, nonzero


def check_bwd_abscissae(obs, rec, phase, samples, x0, sampler):
    bx = rec.xs("f", phase)
    if not bx:
        return
    obs.count("bwd_abscissae_checked")
    obs.count("f_calls_backward", len(bx))
    foreign = [b for b in bx if not any(same(b, s) for s in samples) and not same(b, x0)]
    missed = [s for s in samples if not any(same(b, s) for b in bx)]
    obs.check(not foreign and not missed, "bwd_abscissae:%s:%s" % (sampler, phase.replace("bwd", "order")),
              "backward pass evaluated f on %d point(s) that are not forward samples and skipped %d forward sample(s) "
              "(forward drew %d samples, backward made %d f calls)" % (len(foreign), len(missed), len(samples), len(bx)),
              first_foreign=foreign[0] if foreign else None, first_sample=samples[0])


# ------------------------------------------------------------------------------------------------------------- cases
def quad_nodes(ns, lb, ub):
    from scipy.special import roots_legendre
    t, w = roots_legendre(ns)
    tl, tu = math.atan(lb), math.atan(ub)
    ts = torch.tensor(t, dtype=DT) * (0.5 * (tu - tl)) + 0.5 * (tu + tl)
    return torch.tan(ts), torch.tensor(w, dtype=DT)


BOUNDS = {"inf": (-math.inf, math.inf), "finite": (-1.5, 2.0), "lower": (0.0, math.inf), "upper": (-math.inf, 0.5)}


def run_case(desc):
    if desc.get("group") == "extra":
        from vf import c16_extra
        return c16_extra.run_case(desc)
    group = desc["group"]
    if group == "meta":
        return run_meta(desc)
    if group in ("mh_stat", "mh_burn"):
        return run_mh_stat(desc)
    return run_main(desc)


def build_problem(desc, rng, tgen, rec):
    """leaves, callables and raw bodies for one case"""
    sampler = desc["sampler"]
    xshape = XSHAPES[desc["xshape"]]
    d = 1
    for s in xshape:
        d *= s
    fkind = desc.get("fkind", "vector")
    unused = desc.get("unused", "none")
    fplace, pplace = desc.get("fplace", "explicit"), desc.get("pplace", "explicit")
    if unused == "step" and sampler == "mhcustom":
        pplace = "explicit"     # the custom step only receives the explicit pparams
    shared = bool(desc.get("shared")) and fkind not in ("const_fixed",)
    derived = bool(desc.get("derived"))
    nontensor = bool(desc.get("nontensor"))

    def leaf(shape, lo=None, hi=None):
        if lo is None:
            t = torch.randn(*shape, dtype=DT, generator=tgen) if shape else torch.randn((), dtype=DT, generator=tgen)
        else:
            t = torch.rand(*shape, dtype=DT, generator=tgen) * (hi - lo) + lo if shape else \
                torch.rand((), dtype=DT, generator=tgen) * (hi - lo) + lo
        return t

    fbody, fnames = make_f_body(fkind, d, tgen)
    pbody, pnames = make_p_body(desc.get("pfam", "gauss"), bool(desc.get("pshape1")))
    vals = {"a": leaf((d,)), "b": leaf((), 0.7, 1.5), "mu": leaf((d,)) * 0.5 if rng.random() < 0.7 else leaf(()) * 0.5,
            "sig": leaf((), 0.7, 1.5)}
    leaves, roles = {}, {}

    def mk(name, role, value, nn_param):
        t = torch.nn.Parameter(value.clone()) if nn_param else value.clone().requires_grad_()
        leaves[name] = t
        roles[name] = role
        return t
    f_nn = fplace == "nn"
    p_nn = pplace == "nn"
    for n in fnames:
        mk("f." + n, "f", vals[n], f_nn or (shared and n == "b" and p_nn))
    for n in pnames:
        if shared and n == "sig" and "b" in fnames:
            # one tensor enters both the integrand (as b) and log p (as sig)
            roles["f.b"] = "shared"
            continue
        mk("p." + n, "p", vals[n], p_nn)
    uf = up = None
    if unused in ("f", "both"):
        uf = mk("f.unused", "unused_f", leaf(rng.choice([(), (2,)])), f_nn and fplace != "explicit")
    if unused in ("p", "both"):
        up = mk("p.unused", "unused_p", leaf(rng.choice([(), (2,)])), p_nn and pplace != "explicit")
    tau = None
    if unused == "step" and sampler == "mhcustom":
        tau = mk("p.steponly", "step_only", leaf((), 0.8, 1.2), False)

    def hand(name, nn_param):
        """tensor handed to xitorch for a leaf: the leaf itself or a freshly derived non-leaf"""
        t = leaves[name]
        if derived and not nn_param:
            return t * 1.0
        return t

    def tensors_for(prefix, names, nn_param):
        out = {}
        for n in names:
            key = prefix + n
            if key not in leaves:         # shared: log p's sig is the integrand's b
                key = "f.b"
            out[n] = hand(key, nn_param or isinstance(leaves[key], torch.nn.Parameter))
        return out
    kf = 0.8 if nontensor else 1.0
    kp = 1.25 if nontensor else 1.0
    # the float may also be the only explicit parameter of a function whose tensors are all held by its object
    fnontensor = nontensor and len(fnames) > 0
    pnontensor = nontensor
    if not fnontensor:
        kf = 1.0
    if not pnontensor:
        kp = 1.0
    ften = tensors_for("f.", fnames, f_nn)
    pten = tensors_for("p.", pnames, p_nn)
    fcall, fparams, fobj = place(fbody, fnames, ften, fplace, rec, "f", kf,
                                 hand("f.unused", isinstance(uf, torch.nn.Parameter)) if uf is not None else None, fnontensor,
                                 desc.get("ntpos", "after_first"))
    pcall, pparams, pobj = place(pbody, pnames, pten, pplace, rec, "p", kp,
                                 hand("p.unused", isinstance(up, torch.nn.Parameter)) if up is not None else None, pnontensor,
                                 desc.get("ntpos", "after_first"))
    if tau is not None:
        pparams = list(pparams) + [hand("p.steponly", False)]
    # ---- x0 and the sampler options
    x0 = torch.randn(*xshape, dtype=DT, generator=tgen) * 0.5 if xshape else torch.randn((), dtype=DT, generator=tgen) * 0.5
    opts = {"nsamples": desc["ns"]}
    chain = None
    if sampler == "mhcustom":
        raw = make_step(d, xshape, rng.uniform(0, 3))
        smu = float(vals["mu"].reshape(-1)[0])

        def step(x, *pp):
            s = 1.3
            ts = [t for t in pp if isinstance(t, torch.Tensor)]
            if tau is not None:
                s = 1.3 * float(ts[-1])
            out = raw(x, smu, s)
            rec.add("s", x, out.detach().clone())
            return out
        opts.update(nburnout=desc["nb"], custom_step=step)
        sfac = 1.3 * float(tau.detach()) if tau is not None else 1.3
        chain = [x0.clone()]
        for _ in range(desc["nb"] + desc["ns"] + 1):
            chain.append(raw(chain[-1], smu, sfac))
    elif sampler == "mh":
        opts.update(nburnout=desc["nb"], step_size=desc["step_size"])
    else:
        lb, ub = BOUNDS[desc.get("bounds", "inf")]
        opts.update(lb=lb, ub=ub)

    def ref_tensors():
        """tensors for the reference: the leaves (or freshly derived copies) in body order"""
        fth = [hand("f." + n, f_nn) for n in fnames]
        pth = []
        for n in pnames:
            key = "p." + n if ("p." + n) in leaves else "f.b"
            pth.append(hand(key, isinstance(leaves[key], torch.nn.Parameter)))
        return fth, pth
    return dict(fcall=fcall, fparams=fparams, pcall=pcall, pparams=pparams, x0=x0, opts=opts, chain=chain, fbody=fbody,
                pbody=pbody, kf=kf, kp=kp, leaves=leaves, roles=roles, ref_tensors=ref_tensors, fobj=fobj, pobj=pobj,
                sampler=sampler, d=d, xshape=xshape, uses_obj=(fobj is not None or pobj is not None), shared=("shared" in roles.values()))


def forward_samples(obs, desc, prob, rec):
    """accounting clause; returns (samples the spy saw f evaluated on, log c_i) or None"""
    sampler, ns, nb, x0 = prob["sampler"], desc["ns"], desc["nb"], prob["x0"]
    fx = rec.xs("f", "fwd")
    obs.count("f_calls_forward", len(fx))
    obs.count("logp_calls_forward", len(rec.xs("p", "fwd")))
    probe = len(fx) >= 1 and same(fx[0], x0)
    seen = None
    if sampler == "mhcustom":
        chain = prob["chain"]
        ok = False
        for k0 in (nb, nb + 1):
            exp = chain[k0:k0 + ns]
            for lead in (True, False):
                seq = ([x0] if lead else []) + exp
                if len(seq) == len(fx) and all(same(u, v) for u, v in zip(fx, seq)):
                    ok, seen = True, exp
                    obs.count("first_sample_index_%s" % ("nburnout" if k0 == nb else "nburnout_plus_1"))
                    break
            if ok:
                break
        obs.check(ok, "accounting:f_abscissae:mhcustom",
                  "f was evaluated on %d point(s); expected (an optional probe at x0 and) the %d consecutive chain states starting "
                  "after %d burn-in steps" % (len(fx), ns, nb), nsamples=ns, nburnout=nb,
                  f_abscissae=[t.reshape(-1)[0] for t in fx[:8]], chain=[t.reshape(-1)[0] for t in chain[:nb + ns + 1][:12]])
        se = rec.entries("s", "fwd")
        obs.count("step_calls_forward", len(se))
        obs.count("step_history_checked")
        single_chain = all(same(e[1], chain[j]) for j, e in enumerate(se[:len(chain)]))
        obs.check(len(se) in (nb + ns - 1, nb + ns) and single_chain, "accounting:step_history:mhcustom",
                  "custom step called %d times (expected nburnout+nsamples-1 or nburnout+nsamples = %d) %s"
                  % (len(se), nb + ns, "as one chain from x0" if single_chain else "and NOT as one chain x_{k+1}=step(x_k) from x0"),
                  nsamples=ns, nburnout=nb)
        if not ok:
            seen = fx[1:] if (probe and len(fx) >= 2) else fx
    elif sampler == "mh":
        npc = len(rec.xs("p", "fwd"))
        ok = len(fx) in (ns, ns + 1) and npc in (nb + ns + 1, nb + ns + 2)
        obs.check(ok, "accounting:counts:mh", "mh made %d f evaluations and %d log p evaluations for nsamples=%d, nburnout=%d "
                  "(expected nsamples(+1 probe) and nburnout+nsamples+1(+1))" % (len(fx), npc, ns, nb), nsamples=ns, nburnout=nb)
        seen = fx[1:] if (len(fx) == ns + 1 and probe) else fx
        if len(fx) == ns + 1:
            obs.check(probe, "accounting:probe:mh", "nsamples+1 f evaluations but the first is not at x0")
        mh_chain_rule(obs, desc, prob, rec, seen)
    else:
        lb, ub = BOUNDS[desc.get("bounds", "inf")]
        nodes, wl = quad_nodes(ns, lb, ub)
        ok = False
        for lead in (True, False):
            seq = ([x0] if lead else []) + [nodes[i] for i in range(ns)]
            if len(seq) == len(fx) and all(u.numel() == 1 and bool((u.reshape(()) - v).abs() <= 1e-9 * (1 + v.abs()))
                                           for u, v in zip(fx, seq)):
                ok = True
                seen = fx[1:] if lead else fx
                break
        obs.check(ok, "accounting:f_abscissae:_dummy1d", "f was evaluated on %d point(s); expected (an optional probe and) the %d "
                  "tan-mapped Gauss-Legendre nodes" % (len(fx), ns), nsamples=ns)
        if not ok:
            return None
    if not seen:
        return None
    if sampler == "_dummy1d":
        xs = torch.stack([s.reshape(()) for s in seen])
        logc = torch.log(wl * (1 + xs * xs))
    else:
        with torch.no_grad():
            fth, pth = prob["ref_tensors"]()
            lp0 = torch.stack([prob["pbody"](x, pth, prob["kp"]).reshape(()) for x in seen])
        logc = -lp0
    return seen, logc


def mh_chain_rule(obs, desc, prob, rec, seen):
    """deterministic consequences of Metropolis-Hastings visible in the call history"""
    ns, nb = desc["ns"], desc["nb"]
    pe = rec.entries("p", "fwd")
    if len(pe) != nb + ns + 2 or len(seen) != ns:
        obs.count("mh_chain_pattern_not_recognised")
        return None
    obs.count("mh_chain_rule_checked")
    cur = pe[nb + 1]
    cur_x, cur_lp = cur[1], float(cur[3].reshape(()))
    started_on_chain = any(same(cur_x, e[1]) for e in pe[:nb + 1])
    obs.check(started_on_chain, "mh_chain:collection_start", "the collecting run did not start from a state of the burn-in chain")
    nacc, exp_acc, var_acc, sq = 0, 0.0, 0.0, 0.0
    bad_member = bad_uphill = 0
    for i in range(ns):
        y = pe[nb + 2 + i]
        yx, ylp = y[1], float(y[3].reshape(()))
        s = seen[i]
        moved = same(s, yx) and not same(yx, cur_x)
        stayed = same(s, cur_x)
        if not (moved or stayed):
            bad_member += 1
        pacc = 1.0 if ylp > cur_lp else math.exp(ylp - cur_lp)
        exp_acc += pacc
        var_acc += pacc * (1 - pacc)
        if ylp > cur_lp and not same(s, yx):
            bad_uphill += 1
        sq += float(((yx - cur_x) ** 2).sum())
        if same(s, yx):
            nacc += 1
            cur_x, cur_lp = yx, ylp
    obs.check(bad_member == 0, "mh_chain:membership", "%d sample(s) are neither the previous state nor the proposal" % bad_member)
    obs.check(bad_uphill == 0, "mh_chain:uphill_rejected", "%d proposal(s) with larger p were not accepted" % bad_uphill)
    return nacc, exp_acc, var_acc, sq


def run_main(desc):
    from xitorch.integrate import mcquad
    obs = Obs(desc)
    rng = random.Random(desc["seed"])
    tgen = torch.Generator().manual_seed(desc["seed"])
    rec = Rec()
    prob = build_problem(desc, rng, tgen, rec)
    sampler = prob["sampler"]
    obs.count("sampler_%s" % sampler)
    if prob["uses_obj"]:
        obs.count("objparam_cases")
    if prob["shared"]:
        obs.count("shared_tensor_cases")
    cfg = "%s:%s" % (sampler, desc["fkind"])
    dataextra = dict(fplace=desc["fplace"], pplace=desc["pplace"], unused=desc["unused"], fkind=desc["fkind"],
                     derived=desc["derived"], shared=prob["shared"], ns=desc["ns"], nb=desc["nb"])
    # ------------------------------------------------------------------------------------------------ forward
    rec.phase = "fwd"
    with WarnLog():
        try:
            res = mcquad(prob["fcall"], prob["pcall"], prob["x0"], fparams=prob["fparams"], pparams=prob["pparams"],
                         method=sampler, **prob["opts"])
        except Exception as e:
            obs.exc_violation("forward:%s" % sampler, e, **dataextra)
            obs.nontrivial = True
            return obs.result()
    rec.phase = "idle"
    outs, is_seq = as_list(res)
    want_seq = desc["fkind"] in ("tuple2", "tuple3", "list2")
    obs.check(is_seq == want_seq and all(isinstance(o, torch.Tensor) for o in outs), "value:structure:%s" % cfg,
              "result is %s for an integrand returning %s" % (type(res).__name__, desc["fkind"]))
    fs = forward_samples(obs, desc, prob, rec)
    if fs is None:
        obs.nontrivial = True
        return obs.result()
    seen, logc = fs
    ndistinct = len({tuple(s.reshape(-1).tolist()) for s in seen})
    # ------------------------------------------------------------------------------------------------ value
    fth, pth = prob["ref_tensors"]()
    ref_outs, W = reference(seen, logc, prob["fbody"], fth, prob["kf"], prob["pbody"], pth, prob["kp"])
    if abs(float(W.detach().sum()) - 1.0) > 1e-12:
        raise HarnessBug("reference weights do not sum to one")
    if len(ref_outs) != len(outs):
        obs.violation("value:structure:%s" % cfg, "%d outputs, reference has %d" % (len(outs), len(ref_outs)))
        return obs.result()
    worst_v = 0.0
    for j, (o, r) in enumerate(zip(outs, ref_outs)):
        if tuple(o.shape) != tuple(r.shape):
            obs.violation("value:shape:%s" % cfg, "component %d has shape %s, integrand returns %s" % (j, tuple(o.shape), tuple(r.shape)))
            return obs.result()
        err = float((o.detach() - r.detach()).abs().max())
        scale = 1 + float(r.detach().abs().max())
        worst_v = max(worst_v, err / scale)
        obs.check(err <= TOL * scale, "value:%s" % cfg, "component %d differs from the explicit weighted sum over the samples the spy saw: "
                  "|diff| = %.3e" % (j, err), got=o, ref=r, **dataextra)
    obs.count("values_compared")
    # ------------------------------------------------------------------------------------------------ gradients
    names = list(prob["leaves"].keys())
    leaves = [prob["leaves"][n] for n in names]
    roles = [prob["roles"][n] for n in names]
    cgen = torch.Generator().manual_seed(desc["seed"] ^ 0x5a5a)
    Cs = [torch.randn(o.shape, dtype=DT, generator=cgen) for o in outs]
    L = sum((o * c).sum() for o, c in zip(outs, Cs))
    Lr = sum((o * c).sum() for o, c in zip(ref_outs, Cs))
    worst_g = worst_h = 0.0
    nonzero = False
    if isinstance(L, torch.Tensor) and L.requires_grad:
        rec.phase = "bwd1"
        try:
            g = grads_of(L, leaves, True)
        except Exception as e:
            rec.phase = "idle"
            obs.exc_violation("backward:first:%s:unused_%s" % (sampler, desc["unused"]), e, **dataextra)
            obs.nontrivial = True
            return obs.result()
        rec.phase = "idle"
        gr = grads_of(Lr, leaves, True)
        check_bwd_abscissae(obs, rec, "bwd1", seen, prob["x0"], sampler)
        worst_g, nonzero = cmp_grads(obs, g, gr, leaves, roles, sampler, "first", dataextra)
        # the graph-free backward is a different code path in _MCQuad.backward
        rec.phase = "bwd1ng"
        try:
            g2 = grads_of(L, leaves, False)
        except Exception as e:
            rec.phase = "idle"
            obs.exc_violation("backward:first_nograph:%s:unused_%s" % (sampler, desc["unused"]), e, **dataextra)
            return obs.result()
        rec.phase = "idle"
        check_bwd_abscissae(obs, rec, "bwd1ng", seen, prob["x0"], sampler)
        w2, _ = cmp_grads(obs, g2, gr, leaves, roles, sampler, "first_nograph", dataextra)
        worst_g = max(worst_g, w2)
        if desc["order"] == 2:
            Ds = [torch.randn(l.shape, dtype=DT, generator=cgen) for l in leaves]
            S = sum((gi * di).sum() for gi, di in zip(g, Ds) if gi is not None and gi.requires_grad)
            Sr = sum((gi * di).sum() for gi, di in zip(gr, Ds) if gi is not None and gi.requires_grad)
            rec.phase = "bwd2"
            try:
                h = grads_of(S, leaves, False)
            except Exception as e:
                rec.phase = "idle"
                obs.exc_violation("backward:second:%s:unused_%s" % (sampler, desc["unused"]), e, **dataextra)
                return obs.result()
            rec.phase = "idle"
            hr = grads_of(Sr, leaves, False)
            check_bwd_abscissae(obs, rec, "bwd2", seen, prob["x0"], sampler)
            worst_h, nz2 = cmp_grads(obs, h, hr, leaves, roles, sampler, "second", dataextra)
            nonzero = nonzero or nz2
    else:
        obs.count("result_without_grad")
    obs.note(samples_seen=len(seen), distinct_samples=ndistinct, value_relerr=worst_v, grad_relerr=worst_g, grad2_relerr=worst_h,
             f_calls={ph: len(rec.xs("f", ph)) for ph in ("fwd", "bwd1", "bwd1ng", "bwd2")},
             logp_calls={ph: len(rec.xs("p", ph)) for ph in ("fwd", "bwd1", "bwd1ng", "bwd2")},
             step_calls={ph: len(rec.xs("s", ph)) for ph in ("fwd", "bwd1", "bwd1ng", "bwd2")})
    obs.count("step_calls_backward", sum(len(rec.xs("s", ph)) for ph in ("bwd1", "bwd1ng", "bwd2")))
    obs.nontrivial = ndistinct >= 2 and nonzero
    return obs.result()


# ----------------------------------------------------------------------------------------------------- statistical mh
def run_mh_stat(desc):
    from xitorch.integrate import mcquad
    obs = Obs(desc)
    tgen = torch.Generator().manual_seed(desc["seed"])
    rec = Rec()
    xshape = XSHAPES[desc["xshape"]]
    d = 1
    for s in xshape:
        d *= s
    ns, nb = desc["ns"], desc["nb"]
    mu = torch.rand(d, dtype=DT, generator=tgen) * 2 - 1
    sig = torch.rand((), dtype=DT, generator=tgen) * 0.8 + 0.7
    pbody, pnames = make_p_body("gauss", False)
    nn_p = desc["pplace"] == "nn"
    pt = {"mu": torch.nn.Parameter(mu.clone()) if nn_p else mu.clone().requires_grad_(),
          "sig": torch.nn.Parameter(sig.clone()) if nn_p else sig.clone().requires_grad_()}
    pcall, pparams, pobj = place(pbody, pnames, pt, desc["pplace"], rec, "p", 1.0, None, False)

    def fbody(x, th, k):
        xf = x.reshape(-1)
        return torch.stack([xf.sum(), (xf * xf).sum(), torch.cos(xf.sum())])

    def fcall(x):
        rec.add("f", x)
        return fbody(x, [], 1.0)
    burn = desc["group"] == "mh_burn"
    if burn:
        dirn = torch.randn(d, dtype=DT, generator=tgen)
        x0 = (mu + desc["far"] * sig * dirn / dirn.norm()).reshape(xshape)
    else:
        x0 = (mu + 0.5 * sig * torch.randn(d, dtype=DT, generator=tgen)).reshape(xshape)
    step_size = desc["step_size"] * float(sig) / math.sqrt(d)
    obs.count("sampler_mh")
    rec.phase = "fwd"
    with WarnLog():
        try:
            res = mcquad(fcall, pcall, x0, fparams=[], pparams=pparams, method="mh", nsamples=ns, nburnout=nb, step_size=step_size)
        except Exception as e:
            obs.exc_violation("forward:mh", e)
            return obs.result()
    rec.phase = "idle"
    fx = rec.xs("f", "fwd")
    npc = len(rec.xs("p", "fwd"))
    obs.check(len(fx) in (ns, ns + 1) and npc in (nb + ns + 1, nb + ns + 2), "accounting:counts:mh",
              "mh made %d f evaluations and %d log p evaluations for nsamples=%d, nburnout=%d" % (len(fx), npc, ns, nb))
    seen = fx[1:] if (len(fx) == ns + 1 and same(fx[0], x0)) else fx
    if burn:
        # started 30 sigma from the mode; 600 burn-in steps with step sigma/sqrt(d) reach the bulk with > 40 standard deviations
        # of margin (arrival takes 100-140 steps), after which |x - mu| > 8 sigma has probability ~1e-14 per sample
        pe = rec.entries("p", "fwd")
        obs.check(len(pe) >= 1 and same(pe[0][1], x0), "accounting:chain_start:mh", "the first log p evaluation is not at x0")
        if seen:
            far = max(float((x.reshape(-1) - mu).norm()) for x in seen) / float(sig)
            obs.check(far <= 8.0, "accounting:burnin:mh", "after %d burn-in steps from %d sigma away a collected sample is still %.1f sigma "
                      "from the mode (burn-in not performed or its final state dropped)" % (nb, desc["far"], far))
            obs.count("mh_burnin_checked")
            obs.note(max_sigma_distance=far)
            mh_chain_rule(obs, dict(desc), {"x0": x0}, rec, seen)
        obs.nontrivial = bool(seen)
        return obs.result()
    if len(seen) < 100:
        obs.nontrivial = True
        return obs.result()
    F = torch.stack([fbody(x, [], 1.0) for x in seen])           # (n, 3)
    mean = F.mean(0)
    err = float((res.detach() - mean).abs().max())
    obs.check(err <= TOL * (1 + float(mean.abs().max())), "value:mh:stat", "value differs from the mean of f over the samples the spy saw: %.3e" % err)
    obs.count("mh_stat_chains")
    st = mh_chain_rule(obs, dict(desc), {"x0": x0}, rec, seen)
    zacc = zstep = None
    if st is not None:
        nacc, exp_acc, var_acc, sq = st
        # acceptance count: sum of independent Bernoulli(min(1, p'/p)) given the proposals
        zacc = (nacc - exp_acc) / math.sqrt(var_acc + 1.0)
        obs.check(abs(zacc) <= 8.0, "mh_stat:acceptance", "accepted %d proposals, Metropolis rule expects %.1f +- %.1f (z = %.1f)"
                  % (nacc, exp_acc, math.sqrt(var_acc), zacc), step_size=step_size)
        # proposal scale: |y - x|^2 / step^2 ~ chi2(ns*d)
        dof = len(seen) * d
        zstep = (sq / step_size ** 2 - dof) / math.sqrt(2.0 * dof)
        obs.check(abs(zstep) <= 8.0, "mh_stat:step_size", "proposal displacements have mean square %.4f per component, step_size^2 = %.4f (z = %.1f)"
                  % (sq / dof, step_size ** 2, zstep))
        obs.count("mh_accepted_moves", nacc)
    # expectation against the closed form, batch-means standard error (30 batches)
    smu = float(mu.sum())
    s2 = float(sig) ** 2
    truth = torch.tensor([smu, float((mu * mu).sum()) + d * s2, math.cos(smu) * math.exp(-0.5 * d * s2)], dtype=DT)
    nbat = 30
    m = (len(seen) // nbat) * nbat
    bm = F[:m].reshape(nbat, -1, 3).mean(1)
    se = bm.std(0, unbiased=True) / math.sqrt(nbat)
    iid = F.std(0, unbiased=True) / math.sqrt(len(seen))
    se = torch.maximum(se, iid)
    z = ((mean - truth) / se)
    zmax = float(z.abs().max())
    obs.check(zmax <= 8.0, "mh_stat:expectation", "chain mean differs from the closed-form Gaussian expectation by %.1f batch-means standard errors"
              % zmax, mean=mean, truth=truth, se=se)
    obs.note(z_expectation=[float(v) for v in z], z_acceptance=zacc, z_step=zstep, d=d, step_size=step_size)
    obs.nontrivial = st is not None and st[0] >= 100
    return obs.result()


# ------------------------------------------------------------------------------------------------- metamorphic relations
def run_meta(desc):
    """constant integrand, linearity in f and component-wise tuple averaging as relations between separate mcquad calls"""
    from xitorch.integrate import mcquad
    obs = Obs(desc)
    rng = random.Random(desc["seed"])
    tgen = torch.Generator().manual_seed(desc["seed"])
    sampler = desc["sampler"]
    obs.count("sampler_%s" % sampler)
    xshape = XSHAPES[desc["xshape"]]
    d = 1
    for s in xshape:
        d *= s
    pbody, _ = make_p_body(desc["pfam"], False)
    mu = (torch.randn(d, dtype=DT, generator=tgen) * 0.5).requires_grad_()
    sig = (torch.rand((), dtype=DT, generator=tgen) * 0.8 + 0.7).requires_grad_()
    b1, n1 = make_f_body("vector", d, tgen)
    b2, n2 = make_f_body("vector", d, tgen)
    a = torch.randn(d, dtype=DT, generator=tgen).requires_grad_()
    b = (torch.rand((), dtype=DT, generator=tgen) + 0.7).requires_grad_()
    al, be = rng.uniform(-2, 2), rng.uniform(-2, 2)
    cval = torch.randn(3, dtype=DT, generator=tgen)
    x0 = torch.randn(*xshape, dtype=DT, generator=tgen) * 0.5 if xshape else torch.randn((), dtype=DT, generator=tgen) * 0.5
    opts = {"nsamples": desc["ns"]}
    if sampler == "mhcustom":
        raw = make_step(d, xshape, rng.uniform(0, 3))
        opts.update(nburnout=desc["nb"], custom_step=lambda x, *pp: raw(x, 0.1, 1.3))
    else:
        lb, ub = BOUNDS[desc["bounds"]]
        opts.update(lb=lb, ub=ub)
    nf = [0]

    def logp(x, mu, sig):
        return pbody(x, [mu, sig], 1.0)

    def run(f):
        nf[0] = 0
        return mcquad(f, logp, x0, fparams=[a, b], pparams=[mu, sig], method=sampler, **opts)

    def f1(x, a, b):
        nf[0] += 1
        return b1(x, [a, b], 1.0)

    def f2(x, a, b):
        return b2(x, [a * 0.5, b], 1.0)

    def flin(x, a, b):
        return al * f1(x, a, b) + be * f2(x, a, b)

    def ftup(x, a, b):
        return (f1(x, a, b), f2(x, a, b))

    def fconst(x, a, b):
        return cval.clone()
    try:
        with WarnLog():
            e1 = run(f1)
            ncalls = nf[0]
            e2, el, et, ec = run(f2), run(flin), run(ftup), run(fconst)
    except Exception as e:
        obs.exc_violation("forward:%s:meta" % sampler, e)
        obs.nontrivial = True
        return obs.result()
    sc = 1 + float(e1.detach().abs().max()) + float(e2.detach().abs().max())
    err = float((ec.detach() - cval).abs().max())
    obs.check(err <= 1e-12 * (1 + float(cval.abs().max())), "const:%s" % sampler,
              "constant integrand returned the constant with error %.3e (weights do not sum to one)" % err, got=ec, want=cval)
    err = float((el - (al * e1 + be * e2)).detach().abs().max())
    obs.check(err <= 1e-11 * sc * (abs(al) + abs(be) + 1), "linear:%s" % sampler, "E[a f1 + b f2] differs from a E[f1] + b E[f2] by %.3e" % err)
    ok = isinstance(et, (tuple, list)) and len(et) == 2
    err = max(float((et[0] - e1).detach().abs().max()), float((et[1] - e2).detach().abs().max())) if ok else float("inf")
    obs.check(ok and err <= 1e-11 * sc, "tuple:%s" % sampler, "tuple output is not the component-wise expectation (error %.3e)" % err)
    # gradient of the constant integrand w.r.t. everything must vanish (f - E = 0)
    if ec.requires_grad:
        try:
            gc = torch.autograd.grad(ec.sum(), (a, b, mu, sig), allow_unused=True)
            gmax = max([float(g.abs().max()) for g in gc if g is not None] + [0.0])
            obs.check(gmax <= 1e-12, "grad:const:%s:first" % sampler, "constant integrand has a non-zero gradient %.3e" % gmax)
        except Exception as e:
            obs.exc_violation("backward:first:%s:unused_const" % sampler, e)
    obs.count("meta_relations_checked")
    obs.note(f_calls_per_run=ncalls, ns=desc["ns"])
    obs.nontrivial = desc["ns"] >= 2
    return obs.result()
