"""C18 - results and gradients do not depend on how the forward solution was produced.

Call-history spy + reference-model monitor.  For every functional a caller-supplied callable is passed as ``method``: the spy
records the positional arguments, the keyword options and torch.is_grad_enabled() at the moment xitorch calls it; the value
xitorch returns must be what the callable returned, and first/second-order gradients must equal those obtained with a built-in
method reaching the same solution - also when the callable computes the answer in closed form from detached numbers.
Name clause: every built-in name in lower / upper / mixed case selects the same method (bitwise-equal output on a seeded
problem), unknown names raise RuntimeError, non-string non-callables raise TypeError."""
import math
import random

import torch

from vf.common import Obs, sub_seed, HarnessBug, WarnLog
from vf import gen
from vf import c18_extra as cx

LEVEL = "exploration"
TECHNIQUE = ("runtime call-history spy on caller-supplied method callables (arguments, options, grad mode) + reference-model monitor "
             "(gradients vs a built-in method reaching the same solution) + name-dispatch table monitor")
LEVEL_TEXT = ("10 functionals (solve, symeig, svd, rootfinder, equilibrium, minimize, solve_ivp, quad, mcquad, Interp1D, SQuad) x "
              "{closed-form graph-free callable, callable wrapping a built-in, each built-in} x seeded option dictionaries x problem sizes: "
              "the spy must see the documented positional arguments, exactly the caller's extra options and gradient recording off; the "
              "returned value must be the callable's; first- and second-order leaf gradients must equal the built-in's within the distance "
              "of the two forward solutions. Every built-in name x {lower, UPPER, Mixed} must give bitwise the lower-case result; unknown "
              "names -> RuntimeError, non-str non-callable -> TypeError.")
LEVEL_NOTE = ("Closed-form callables for solve_ivp / quad cannot integrate the adjoint system, so they are paired with "
              "bck_options={'method': <built-in>} (demanding more would be stricter than the property). The minimize callable receives "
              "xitorch's (value, gradient) function as its first argument - accepted as 'the documented arguments' since the built-in "
              "minimizers get the same.")
RULE = ("case = (functional, variant {closed, wrap, names, bad}, size/seed, option dictionary); non-trivial = the spy fired at least once "
        "(custom variants) and at least one second-order gradient was compared, or (name variants) at least two spellings were executed")
RULE += ('; group special: unknown name with an all-zero right-hand side, closed-form callable returning one of its input objects, method entry in bck_options for every functional; a wrap callable reaching another solution than the built-in is a violation')
RULE += ("; kinds bck_strict_opts (strict-signature recording callable as bck_options['method'] of all 9 functionals together with its own options and, "
         "for symeig / svd, degen_atol / degen_rtol: every call of it in the first-order backward and in the nested second-order solves received exactly "
         "the caller's options for it, gradients equal the built-in reference) and returns_input_leaf (a callable returning one of its input tensors, on "
         "leaves with a non-vanishing derivative: solve on an identity leaf with / without E, quad, symeig, solve_ivp)")
MIN_NONTRIVIAL = {"quick": 200, "thorough": 1200}
REQUIRED_COUNTERS = {"quick": {"bck_strict_checked": 40, "bck_strict_alg_options_mixed": 6, "bck_strict_first_calls": 40, "bck_strict_nested_calls": 60, "bck_strict_nested_solves_observed": 30, "returns_input_leaf_compared": 8, "bck_callable_orders_checked": 8, "nested_backward_solves_observed": 10, "unhashable_callable_checked": 15, "bck_unknown_name_rejected": 10, "returns_input_compared": 6, "custom_calls_observed": 150, "names_compared": 100, "second_order_compared": 150},
                     "thorough": {"bck_strict_checked": 200, "bck_strict_alg_options_mixed": 30, "bck_strict_first_calls": 200, "bck_strict_nested_calls": 400, "bck_strict_nested_solves_observed": 150, "returns_input_leaf_compared": 40, "bck_callable_orders_checked": 60, "nested_backward_solves_observed": 60, "unhashable_callable_checked": 100, "bck_unknown_name_rejected": 80, "returns_input_compared": 40, "custom_calls_observed": 900, "names_compared": 600, "second_order_compared": 900}}
ASSUMPTIONS = ["well-conditioned problems (cond <= 10, contraction <= 0.5, SPD ODE matrices), float64",
               "gradient tolerance 1e-6 relative (1e-5 for solve_ivp / davidson): built-ins run with tolerances 1e-10..1e-12"]
BUDGET = {"quick": {"worker_timeout": 900, "case_timeout": 240}, "thorough": {"worker_timeout": 3300, "case_timeout": 400}}

DT = torch.float64


class Spy(object):
    """wraps a method implementation: records how xitorch called it"""

    def __init__(self, impl):
        self.impl = impl
        self.calls = []
        self.returned = None

    def __call__(self, *args, **kwargs):
        self.calls.append({"nargs": len(args), "args": args, "kwargs": dict(kwargs), "grad_enabled": torch.is_grad_enabled()})
        out = self.impl(*args, **kwargs)
        self.returned = out
        return out


# ------------------------------------------------------------------------------------------------ problems
class Problem(object):
    name = "?"
    builtins = ()
    reference = None            # built-in used as the gradient reference
    ref_opts = {}
    tol = 1e-6
    bck_for_closed = None       # bck_options needed by the closed-form callable (functionals whose backward re-invokes the method)
    bck_default = None          # backward options used for BOTH the custom and the built-in run (tight linear-solver tolerances, so that the
    #                             comparison is not limited by the default 1e-6 of the Krylov backward solve)

    def __init__(self, seed, n):
        self.seed, self.n = seed, n
        self.tg = torch.Generator().manual_seed(seed)
        self.rng = random.Random(seed)

    def leaves(self):
        raise NotImplementedError

    def call(self, lv, method, opts, bck):
        raise NotImplementedError

    def closed(self):
        raise NotImplementedError

    def wrap(self):
        raise NotImplementedError

    def check_args(self, obs, call, lv, mech):
        pass

    def expected_returned(self, ret):
        return list(ret) if isinstance(ret, (tuple, list)) else [ret]

    def outputs_from_returned(self, ret, outs):
        """are the functional's outputs bitwise what the callable returned?"""
        exp = self.expected_returned(ret)
        return len(exp) == len(outs) and all(torch.equal(a.detach(), b.detach()) for a, b in zip(exp, outs))

    def gauge(self, outs):
        return outs


def _spd_from(P, shift):
    n = P.shape[-1]
    return 0.5 * (P + P.transpose(-2, -1)) / math.sqrt(n) + shift * torch.eye(n, dtype=P.dtype)


class SolveP(Problem):
    bck_default = {"rtol": 1e-11, "atol": 1e-13}
    name = "solve"
    builtins = ("exactsolve", "custom_exactsolve", "cg", "bicgstab", "gmres", "broyden1")
    reference = "exactsolve"

    def leaves(self):
        n = self.n
        lv = {"P": torch.randn(n, n, generator=self.tg, dtype=DT).requires_grad_(),
              "B": torch.randn(n, 2, generator=self.tg, dtype=DT).requires_grad_(),
              "E": (-torch.rand(2, generator=self.tg, dtype=DT)).requires_grad_()}
        if self.seed % 3 != 0:
            lv["Q"] = torch.randn(n, n, generator=self.tg, dtype=DT).requires_grad_()
        return lv

    def mop(self, lv):
        import xitorch
        if "Q" not in lv:
            return None
        return xitorch.LinearOperator.m(_spd_from(0.4 * lv["Q"], 2.5), is_hermitian=True)

    def ops(self, lv):
        import xitorch
        A = _spd_from(lv["P"], 3.0)
        if self.seed % 2 == 0:
            return xitorch.LinearOperator.m(A, is_hermitian=True)
        return gen.leaf_operator("mv_rmv", A, None)

    def call(self, lv, method, opts, bck):
        from xitorch.linalg import solve
        kw = dict(opts)
        low = method.lower() if isinstance(method, str) else None
        if low in ("cg", "bicgstab", "gmres"):
            kw.setdefault("rtol", 1e-12)
            kw.setdefault("atol", 1e-14)
        if low == "broyden1":
            kw.update(f_tol=1e-12, x_tol=1e-12)
        self.last_A = self.ops(lv)
        self.last_M = self.mop(lv)
        return [solve(self.last_A, lv["B"], lv["E"], self.last_M, method=method, bck_options=bck or {}, **kw)]

    def closed(self):
        def my_solve(A, B, E=None, M=None, **opts):
            Ad = A.fullmatrix().detach()
            Md = M.fullmatrix().detach() if M is not None else torch.eye(Ad.shape[-1], dtype=Ad.dtype)
            cols = []
            for c in range(B.shape[-1]):
                S = Ad - (E[..., c].detach() * Md if E is not None else 0)
                cols.append(torch.linalg.solve(S, B[..., c].detach()))
            return torch.stack(cols, dim=-1)
        return my_solve

    def wrap(self):
        def my_solve(A, B, E=None, M=None, **opts):
            from xitorch.linalg import solve
            return solve(A, B, E, M, method="bicgstab", rtol=1e-13, atol=1e-15)
        return my_solve

    def check_args(self, obs, call, lv, mech):
        import xitorch
        a = call["args"]
        obs.check(call["nargs"] == 4 and isinstance(a[0], xitorch.LinearOperator) and a[0] is self.last_A, "args:" + mech,
                  "custom solve must be called with (A, B, E, M): got %d positional, first %s" % (call["nargs"], type(a[0]).__name__))
        if call["nargs"] == 4:
            obs.check(torch.equal(a[1], lv["B"]) and torch.equal(a[2], lv["E"]) and a[3] is self.last_M, "args:" + mech, "B, E, M are not the caller's")


class SymeigP(Problem):
    bck_default = {"rtol": 1e-11, "atol": 1e-13}
    name = "symeig"
    builtins = ("exacteig", "custom_exacteig", "davidson")
    reference = "exacteig"
    tol = 1e-5

    def leaves(self):
        n = self.n
        P = torch.randn(n, n, generator=self.tg, dtype=DT)
        # well separated spectrum: symmetric random + strong diagonal ramp
        return {"P": (0.3 * P + torch.diag(torch.arange(n, dtype=DT) * 1.5)).requires_grad_()}

    def call(self, lv, method, opts, bck):
        import xitorch
        from xitorch.linalg import symeig
        A = 0.5 * (lv["P"] + lv["P"].transpose(-2, -1))
        self.last_A = xitorch.LinearOperator.m(A, is_hermitian=True) if self.seed % 2 == 0 else gen.leaf_operator("herm_mv", A, None)
        kw = dict(opts)
        if isinstance(method, str) and method.lower() == "davidson":
            kw.setdefault("min_eps", 1e-11)
            kw.setdefault("max_niter", 400)
        # a third of the problems ask for the whole spectrum (neig None or n): the method must be honoured there too
        self.neig_arg = {0: None, 1: self.n}.get(self.seed % 6, 2)
        self.neig_eff = self.n if self.neig_arg in (None, self.n) else 2
        ev, vec = symeig(self.last_A, neig=self.neig_arg, mode="lowest", method=method, bck_options=bck or {}, **kw)
        return [ev, vec]

    def gauge(self, outs):
        ev, vec = outs
        return [ev, torch.matmul(vec, vec.transpose(-2, -1))]

    def closed(self):
        def my_eig(A, neig, mode, M=None, **opts):
            ev, vec = torch.linalg.eigh(A.fullmatrix().detach())
            return ev[..., :neig], vec[..., :neig]
        return my_eig

    def wrap(self):
        def my_eig(A, neig, mode, M=None, **opts):
            from xitorch.linalg import symeig
            return symeig(A, neig=neig, mode=mode, M=M, method="custom_exacteig")
        return my_eig

    def check_args(self, obs, call, lv, mech):
        a = call["args"]
        ok = call["nargs"] == 4 and a[0] is self.last_A and a[1] == self.neig_eff and a[2] == "lowest" and a[3] is None
        obs.check(ok, "args:" + mech, "custom symeig must be called with (A, neig, mode, M): got %s" % ([type(x).__name__ for x in a],))


class SvdP(SymeigP):
    name = "svd"
    builtins = ("exacteig", "custom_exacteig", "davidson")

    def leaves(self):
        n = self.n
        R = torch.randn(n + 2, n, generator=self.tg, dtype=DT) * 0.3
        R[:n] += torch.diag(1.0 + torch.arange(n, dtype=DT))
        return {"P": R.requires_grad_()}

    def call(self, lv, method, opts, bck):
        import xitorch
        from xitorch.linalg import svd
        self.last_A = xitorch.LinearOperator.m(lv["P"] * 1.0)
        kw = dict(opts)
        if isinstance(method, str) and method.lower() == "davidson":
            kw.setdefault("min_eps", 1e-11)
            kw.setdefault("max_niter", 400)
        u, s, vh = svd(self.last_A, k=2, mode="uppest", method=method, bck_options=bck or {}, **kw)
        return [s, u, vh]

    def gauge(self, outs):
        s, u, vh = outs
        return [s, torch.matmul(u * s.unsqueeze(-2), vh)]

    def closed(self):
        def my_eig(A, neig, mode, M=None, **opts):
            ev, vec = torch.linalg.eigh(A.fullmatrix().detach())
            if mode == "lowest":
                return ev[..., :neig], vec[..., :neig]
            return ev[..., -neig:], vec[..., -neig:]
        return my_eig

    def wrap(self):
        def my_eig(A, neig, mode, M=None, **opts):
            from xitorch.linalg import symeig
            return symeig(A, neig=neig, mode=mode, M=M, method="custom_exacteig")
        return my_eig

    def check_args(self, obs, call, lv, mech):
        import xitorch
        a = call["args"]
        ok = call["nargs"] == 4 and isinstance(a[0], xitorch.LinearOperator) and a[1] == 2 and a[2] in ("uppest", "uppermost") and a[3] is None
        obs.check(ok, "args:" + mech, "custom svd method must be called like a symeig method (A^H A operator, k, mode, None)")

    def outputs_from_returned(self, ret, outs):
        # svd post-processes the eigenpairs (s = sqrt(e)); compare the singular values with the callable's eigenvalues
        ev = ret[0].detach()
        return torch.allclose(outs[0].detach() ** 2, ev.clamp_min(0), rtol=1e-12, atol=1e-12)


class AffineOpt(Problem):
    bck_default = {"rtol": 1e-11, "atol": 1e-13}
    """rootfinder / equilibrium / minimize on affine problems with closed-form solutions"""

    kind = "rootfinder"

    def leaves(self):
        n = self.n
        W = torch.randn(n, n, generator=self.tg, dtype=DT)
        W = 0.4 * W / torch.linalg.matrix_norm(W, ord=2)
        return {"W": W.requires_grad_(), "a": torch.randn(n, generator=self.tg, dtype=DT).requires_grad_()}

    def fcn(self):
        kind = self.kind
        if kind == "rootfinder":
            return lambda y, W, a: y - torch.matmul(W, y) - a
        if kind == "equilibrium":
            return lambda y, W, a: torch.matmul(W, y) + a
        return lambda y, W, a: 0.5 * (y * y).sum() + 0.5 * (torch.matmul(W, y) ** 2).sum() - (a * y).sum()

    def call(self, lv, method, opts, bck):
        from xitorch.optimize import rootfinder, equilibrium, minimize
        f = {"rootfinder": rootfinder, "equilibrium": equilibrium, "minimize": minimize}[self.kind]
        self.y0 = torch.zeros(self.n, dtype=DT)
        kw = dict(opts)
        if isinstance(method, str):
            low = method.lower()
            if low in ("gd", "adam"):
                kw.update(dict(step=0.3, maxiter=4000, f_tol=0.0, f_rtol=0.0, x_tol=1e-13, x_rtol=0.0) if low == "gd" else
                          dict(step=0.05, maxiter=6000, f_tol=0.0, f_rtol=0.0, x_tol=1e-13, x_rtol=0.0))
            else:
                kw.update(f_tol=1e-12, x_tol=1e-12, maxiter=400)
        return [f(self.fcn(), self.y0, params=(lv["W"], lv["a"]), method=method, bck_options=bck or {}, **kw)]

    def closed(self):
        kind = self.kind

        def my_method(fcn, y0, params, **opts):
            W, a = (p.detach() for p in params)
            n = W.shape[-1]
            I = torch.eye(n, dtype=W.dtype)
            if kind in ("rootfinder", "equilibrium"):
                return torch.linalg.solve(I - W, a)
            return torch.linalg.solve(I + torch.matmul(W.transpose(-2, -1), W), a)
        return my_method

    def wrap(self):
        kind = self.kind

        def my_method(fcn, y0, params, **opts):
            # note: a callable given to equilibrium receives the root form y - f(y), like the built-in rootfinder methods do
            if kind == "minimize":
                # the minimizer hands over a function returning (value, gradient)
                from xitorch._impls.optimize.root.rootsolver import broyden1
                return broyden1(lambda y, *p: fcn(y, *p)[1], y0, params, f_tol=1e-12, x_tol=1e-12, maxiter=400)
            from xitorch._impls.optimize.root.rootsolver import broyden1
            return broyden1(fcn, y0, params, f_tol=1e-12, x_tol=1e-12, maxiter=400)
        return my_method

    def check_args(self, obs, call, lv, mech):
        a = call["args"]
        ok = call["nargs"] == 3 and callable(a[0]) and isinstance(a[1], torch.Tensor) and torch.equal(a[1], self.y0) and len(a[2]) == 2
        obs.check(ok, "args:" + mech, "custom %s method must be called with (fcn, y0, params)" % self.kind)
        if ok:
            obs.check(all(torch.equal(p, q) for p, q in zip(a[2], (lv["W"], lv["a"]))), "args:" + mech, "params are not the caller's")
            with torch.no_grad():
                v = a[0](a[1], *a[2])
            v = v[1] if isinstance(v, (tuple, list)) else v
            obs.check(tuple(v.shape) == (self.n,), "args:" + mech, "the function handed to the custom method does not evaluate on (y0, *params)")


class RootP(AffineOpt):
    name = "rootfinder"
    kind = "rootfinder"
    builtins = ("newton", "broyden1", "broyden2", "linearmixing")
    reference = "newton"


class EquilP(AffineOpt):
    name = "equilibrium"
    kind = "equilibrium"
    builtins = ("newton", "broyden1", "broyden2", "linearmixing", "anderson_acc")
    reference = "anderson_acc"


class MinP(AffineOpt):
    name = "minimize"
    kind = "minimize"
    builtins = ("newton", "broyden1", "broyden2", "linearmixing", "gd", "adam")
    reference = "newton"


class IvpP(Problem):
    name = "solve_ivp"
    builtins = ("rk45", "rk23", "rk4", "rk38", "euler")
    reference = "rk45"
    tol = 1e-5
    bck_for_closed = {"method": "rk45", "atol": 1e-11, "rtol": 1e-10}

    def leaves(self):
        n = self.n
        return {"P": torch.randn(n, n, generator=self.tg, dtype=DT).requires_grad_(),
                "y0": torch.randn(n, generator=self.tg, dtype=DT).requires_grad_(),
                "ts": torch.tensor([0.0, 0.3, 0.45, 0.9], dtype=DT).requires_grad_()}

    def call(self, lv, method, opts, bck):
        from xitorch.integrate import solve_ivp
        kw = dict(opts)
        if isinstance(method, str) and method.lower() in ("rk45", "rk23"):
            kw.setdefault("atol", 1e-11)
            kw.setdefault("rtol", 1e-10)
        f = lambda t, y, P: -torch.matmul(_spd_from(P, 1.0), y)
        return [solve_ivp(f, lv["ts"], lv["y0"], params=(lv["P"],), method=method, bck_options=bck or {}, **kw)]

    def closed(self):
        def my_ivp(fcn, ts, y0, params, **opts):
            A = _spd_from(params[0].detach(), 1.0)
            return torch.stack([torch.matmul(torch.linalg.matrix_exp(-A * (t - ts[0]).detach()), y0.detach()) for t in ts])
        return my_ivp

    def wrap(self):
        # a callable replicating a built-in scheme must behave like that built-in in the backward pass as well (the adjoint system is
        # integrated with the caller's method unless bck_options say otherwise): euler / rk4 on this coarse grid differ from rk45 by
        # 1e-1 / 1e-4, so "the callable's method is replaced by a default in the backward" is visible
        kind = ("rk45", "euler", "rk4")[self.seed % 3]
        self.reference = kind
        self.tol = 1e-5 if kind == "rk45" else 1e-9

        def my_ivp(fcn, ts, y0, params, **opts):
            if kind == "rk45":
                from xitorch._impls.integrate.ivp.adaptive_rk import rk45_adaptive
                return rk45_adaptive(fcn, ts, y0, params, atol=1e-11, rtol=1e-10)
            from xitorch._impls.integrate.ivp.explicit_rk import fwd_euler_ivp, rk4_ivp
            return (fwd_euler_ivp if kind == "euler" else rk4_ivp)(fcn, ts, y0, params)
        return my_ivp

    def check_args(self, obs, call, lv, mech):
        a = call["args"]
        ok = call["nargs"] == 4 and callable(a[0]) and torch.equal(a[1], lv["ts"]) and torch.equal(a[2], lv["y0"]) and len(a[3]) == 1
        obs.check(ok, "args:" + mech, "custom solve_ivp method must be called with (fcn, ts, y0, params)")


class QuadP(Problem):
    name = "quad"
    builtins = ("leggauss",)
    reference = "leggauss"
    ref_opts = {"n": 40}
    bck_for_closed = {"method": "leggauss", "n": 40}

    def leaves(self):
        n = self.n
        return {"a": torch.randn(n, generator=self.tg, dtype=DT).requires_grad_(),
                "b": (0.5 + torch.rand(n, generator=self.tg, dtype=DT)).requires_grad_(),
                "xl": torch.tensor(-0.2, dtype=DT).requires_grad_(), "xu": torch.tensor(0.9, dtype=DT).requires_grad_()}

    def call(self, lv, method, opts, bck):
        from xitorch.integrate import quad
        f = lambda x, a, b: a * torch.exp(-b * x)
        return [quad(f, lv["xl"], lv["xu"], params=(lv["a"], lv["b"]), method=method, bck_options=bck or {}, **opts)]

    def closed(self):
        def my_quad(fcn, xl, xu, params, **opts):
            a, b = (p.detach() for p in params)
            return a * (torch.exp(-b * xl.detach()) - torch.exp(-b * xu.detach())) / b
        return my_quad

    def wrap(self):
        def my_quad(fcn, xl, xu, params, **opts):
            from xitorch._impls.integrate.fixed_quad import leggauss
            return leggauss(fcn, xl, xu, params, n=40)
        return my_quad

    def check_args(self, obs, call, lv, mech):
        a = call["args"]
        ok = call["nargs"] == 4 and callable(a[0]) and float(a[1]) == float(lv["xl"]) and float(a[2]) == float(lv["xu"]) and len(a[3]) == 2
        obs.check(ok, "args:" + mech, "custom quad method must be called with (fcn, xl, xu, params)")


class McP(Problem):
    name = "mcquad"
    builtins = ("mh", "mhcustom", "_dummy1d")
    reference = "_dummy1d"
    ref_opts = {"nsamples": 30, "lb": -6.0, "ub": 6.0}

    def leaves(self):
        return {"a": torch.randn(3, generator=self.tg, dtype=DT).requires_grad_(),
                "mu": (0.3 * torch.randn(1, generator=self.tg, dtype=DT)).requires_grad_(),
                "sg": (0.8 + 0.4 * torch.rand(1, generator=self.tg, dtype=DT)).requires_grad_()}

    def call(self, lv, method, opts, bck):
        from xitorch.integrate import mcquad
        f = lambda x, a: a * x * x + torch.sin(a * x)
        logp = lambda x, mu, sg: (-0.5 * ((x - mu) / sg) ** 2).sum()
        self.x0 = torch.zeros(1, dtype=DT)
        kw = dict(opts)
        low = method.lower() if isinstance(method, str) else None
        if low == "mh":
            kw.update(nsamples=40, nburnout=10, step_size=0.8)
        if low == "mhcustom":
            kw.update(nsamples=40, nburnout=10, custom_step=lambda x, *p: 0.9 * x + 0.05)
        torch.manual_seed(self.seed)
        return [mcquad(f, logp, self.x0, fparams=(lv["a"],), pparams=(lv["mu"], lv["sg"]), method=method, bck_options=bck or {}, **kw)]

    def closed(self):
        def my_sampler(log_pfcn, x0, pparams, nsamples=30, lb=-6.0, ub=6.0, **opts):
            import numpy as np
            tl, tu = math.atan(lb), math.atan(ub)
            tlg, wlg = np.polynomial.legendre.leggauss(nsamples)
            t = torch.tensor(tlg, dtype=x0.dtype) * (0.5 * (tu - tl)) + 0.5 * (tu + tl)
            w = torch.tensor(wlg, dtype=x0.dtype) * (0.5 * (tu - tl))
            xs = torch.tan(t)
            wp = torch.stack([torch.exp(log_pfcn(x.reshape(1), *pparams)).reshape(()) for x in xs]).detach()
            ws = w * torch.cos(t) ** (-2.0) * wp
            return xs.reshape(-1, 1), ws / ws.sum()
        return my_sampler

    def wrap(self):
        def my_sampler(log_pfcn, x0, pparams, **opts):
            from xitorch._impls.integrate.mcsamples.mcmc import dummy1d
            return dummy1d(log_pfcn, x0, pparams, nsamples=30, lb=-6.0, ub=6.0)
        return my_sampler

    def check_args(self, obs, call, lv, mech):
        a = call["args"]
        ok = call["nargs"] == 3 and callable(a[0]) and torch.equal(a[1], self.x0) and len(a[2]) == 2
        obs.check(ok, "args:" + mech, "custom mcquad method must be called with (log_pfcn, x0, pparams)")

    def outputs_from_returned(self, ret, outs):
        return True     # the callable returns samples, not the expectation


PROBLEMS = {c.name: c for c in (SolveP, SymeigP, SvdP, RootP, EquilP, MinP, IvpP, QuadP, McP)}
OPTION_SETS = [{}, {"my_flag": 3}, {"verbose": False, "my_list": (1, 2)}, {"my_none": None, "my_zero": 0}, {"my_empty": "", "my_none": None}]


# ------------------------------------------------------------------------------------------------ cases
def cases(seed, tier):
    out = []
    k = 0
    nrep = 12 if tier == "quick" else 60
    for name in PROBLEMS:
        for variant in ("closed", "wrap"):
            for r in range(nrep):
                rng = random.Random(sub_seed(seed, "c18", name, variant, r))
                out.append({"group": "custom", "functional": name, "variant": variant, "n": rng.choice([3, 4, 6, 7]),
                            "optset": rng.randrange(len(OPTION_SETS)), "seed": sub_seed(seed, "c18s", k),
                            "all_grad": r % 3 == 0, "only": (1 + r) if r % 3 == 1 else 0})
                k += 1
        # directed: exactly one leaf requires grad (each leaf in turn), seeds chosen so that every structural variant (with / without M) occurs
        for variant in ("closed", "wrap"):
            for only in range(1, 5):
                for j in range(2 if tier == "quick" else 6):
                    out.append({"group": "custom", "functional": name, "variant": variant, "n": 4, "optset": (only + j) % len(OPTION_SETS),
                                "seed": sub_seed(seed, "c18o", name, only, j), "all_grad": False, "only": only})
        for r in range(3 if tier == "quick" else 12):
            out.append({"group": "names", "functional": name, "n": 4 if r % 2 == 0 else 6, "seed": sub_seed(seed, "c18s", k)})
            k += 1
            out.append({"group": "bad", "functional": name, "n": 3, "seed": sub_seed(seed, "c18s", k)})
            k += 1
    # histories: ONE bck_options dict object handed to successive calls with different methods: each call must behave as with a fresh dict
    for name in PROBLEMS:
        for r in range(2 if tier == "quick" else 8):
            out.append({"group": "shareddict", "functional": name, "n": 4 if r % 2 == 0 else 6, "seed": sub_seed(seed, "c18sd", name, r)})
    # special inputs: unknown name on an input that takes a shortcut; a callable that returns one of its input objects; a method key in bck_options
    for r in range(3 if tier == "quick" else 20):
        for kind, names in (("unknown_zero_rhs", ["solve"]), ("returns_input", ["rootfinder", "equilibrium", "minimize", "solve"]),
                            ("bck_method_key", list(PROBLEMS)), ("unhashable_callable", list(PROBLEMS)), ("bck_unknown_name", list(PROBLEMS)),
                            ("bck_callable_orders", ["rootfinder", "equilibrium", "minimize", "solve"])):
            for name in names:
                out.append({"group": "special", "kind": kind, "functional": name, "n": [3, 4, 6][r % 3], "seed": sub_seed(seed, "c18sp", kind, name, r)})
    for cls in ("Interp1D", "SQuad"):
        for r in range(6 if tier == "quick" else 30):
            out.append({"group": "classes", "functional": cls, "seed": sub_seed(seed, "c18s", k)})
            k += 1
    # strict-signature recording backward methods with the functional's own backward options in the same dictionary; callables whose answer is
    # one of their inputs on leaves with a non-vanishing derivative (vf/c18_extra.py)
    out += cx.extra_cases(seed, tier, sub_seed, list(PROBLEMS))
    return out


def _contract(outs, leaves, tg, obs_count=None):
    cots = [torch.randn(o.shape, generator=tg, dtype=o.dtype) for o in outs]
    L = sum((o * c).sum() for o, c in zip(outs, cots))
    req = [l for l in leaves if l.requires_grad]
    g = torch.autograd.grad(L, req, create_graph=True, allow_unused=True)
    g1 = [torch.zeros_like(l) if gi is None else gi for gi, l in zip(g, req)]
    cots2 = [torch.randn(l.shape, generator=tg, dtype=l.dtype) for l in req]
    L2 = sum((gi * c).sum() for gi, c in zip(g1, cots2) if gi.requires_grad)
    g2 = None
    if isinstance(L2, torch.Tensor) and L2.requires_grad:
        gg = torch.autograd.grad(L2, req, allow_unused=True)
        g2 = [torch.zeros_like(l) if gi is None else gi.detach() for gi, l in zip(gg, req)]
    return [x.detach() for x in g1], g2


def run_custom(desc, obs):
    P = PROBLEMS[desc["functional"]](desc["seed"], desc["n"])
    variant = desc["variant"]
    mech = "%s:%s" % (P.name, variant)
    opts = dict(OPTION_SETS[desc["optset"]])
    impl = P.closed() if variant == "closed" else P.wrap()
    spy = Spy(impl)
    lv_c = P.leaves()
    mrng = random.Random(desc["seed"] + 7)
    mask = {k: (mrng.random() < 0.65) for k in lv_c}
    if desc.get("all_grad", False) or not any(mask.values()):
        mask = {k: True for k in lv_c}
    if desc.get("only"):       # exactly one leaf requires grad
        keys = sorted(lv_c)
        one = keys[desc["only"] % len(keys)]
        mask = {k: (k == one) for k in lv_c}
    lv_c = {k: v.detach().clone().requires_grad_(mask[k]) for k, v in lv_c.items()}
    lv_r = {k: v.detach().clone().requires_grad_(mask[k]) for k, v in lv_c.items()}
    obs.note(requires_grad=[k for k in mask if mask[k]])
    # the closed-form callable cannot integrate the adjoint system: only that variant is paired with a built-in backward method
    bck = P.bck_for_closed if (variant == "closed" and P.bck_for_closed is not None) else P.bck_default
    # ---- built-in reference
    try:
        with WarnLog():
            outs_r = P.call(lv_r, P.reference, dict(P.ref_opts), P.bck_default)
            tg = torch.Generator().manual_seed(desc["seed"] + 1)
            g1_r, g2_r = _contract(P.gauge(outs_r), list(lv_r.values()), tg)
    except Exception as e:
        raise HarnessBug("built-in reference %s(%s) failed: %s: %s" % (P.name, P.reference, type(e).__name__, e))
    # ---- custom callable
    with WarnLog():
        try:
            call_opts = dict(opts)
            if P.name == "mcquad":
                call_opts.update(P.ref_opts)
            outs_c = P.call(lv_c, spy, call_opts, bck)
        except Exception as e:
            obs.exc_violation("forward:" + mech, e)
            obs.nontrivial = True
            return
        obs.count("custom_calls_observed", len(spy.calls))
        obs.check(len(spy.calls) >= 1, "not_called:" + mech, "the custom callable was never called")
        if not spy.calls:
            return
        c0 = spy.calls[0]
        obs.check(not c0["grad_enabled"], "grad_enabled:" + mech, "gradient recording was enabled while the custom method ran")
        want = dict(call_opts)
        obs.check(c0["kwargs"] == want, "options:" + mech,
                  "the custom method received options %s, the caller passed %s" % (sorted(c0["kwargs"]), sorted(want)))
        P.check_args(obs, c0, lv_c, mech)
        obs.check(P.outputs_from_returned(spy.returned, outs_c), "value:" + mech, "the functional did not return what the custom method returned")
        # ---- same solution as the built-in?
        go_c, go_r = P.gauge(outs_c), P.gauge(outs_r)
        scale = max(1.0, max(float(o.detach().abs().max()) for o in go_r))
        dist = max(float((a.detach() - b.detach()).abs().max()) for a, b in zip(go_c, go_r))
        obs.note(forward_distance=dist)
        if dist > 1e-7 * scale and variant == "wrap":
            # the callable ran a built-in scheme on the function / operator xitorch handed to it: a different solution means it was handed
            # something other than the documented arguments (the closed-form variant ignores them and cannot show this)
            obs.violation("wrap_solution:" + mech, "a custom callable running a built-in scheme on the arguments it was given reaches another solution than the "
                          "built-in %s (distance %.2e)" % (P.reference, dist))
            obs.nontrivial = True
            return
        if dist > 1e-7 * scale:
            raise HarnessBug("custom %s and built-in %s do not reach the same solution (distance %.2e)" % (variant, P.reference, dist))
        try:
            tg = torch.Generator().manual_seed(desc["seed"] + 1)
            g1_c, g2_c = _contract(go_c, list(lv_c.values()), tg)
        except Exception as e:
            obs.exc_violation("backward:" + mech, e)
            obs.nontrivial = True
            return
    names = [k for k, v in lv_c.items() if v.requires_grad]
    tol = P.tol + 50 * dist
    gs = max(1.0, max(float(g.abs().max()) for g in g1_r))
    for nme, a, b in zip(names, g1_c, g1_r):
        err = float((a - b).abs().max())
        obs.check(err <= tol * gs, "grad1:" + mech, "first-order gradient w.r.t. %s differs from the built-in's by %.3e (scale %.2e)" % (nme, err, gs), leaf=nme)
    obs.check((g2_c is None) == (g2_r is None), "grad2_presence:" + mech, "second-order graph present for one of custom / built-in only")
    if g2_c is not None and g2_r is not None:
        gs2 = max(1.0, max(float(g.abs().max()) for g in g2_r))
        for nme, a, b in zip(names, g2_c, g2_r):
            err = float((a - b).abs().max())
            obs.check(err <= 20 * tol * gs2, "grad2:" + mech, "second-order gradient w.r.t. %s differs from the built-in's by %.3e (scale %.2e)" % (nme, err, gs2), leaf=nme)
        obs.count("second_order_compared", len(names))
        obs.nontrivial = True


def _spellings(name):
    out = [name, name.upper(), name.capitalize()]
    mixed = "".join(ch.upper() if i % 2 else ch for i, ch in enumerate(name))
    out.append(mixed)
    return list(dict.fromkeys(out))


def run_names(desc, obs):
    P0 = PROBLEMS[desc["functional"]]
    n_ok = 0
    for b in P0.builtins:
        base, base_grads = None, None
        for sp in _spellings(b):
            P = P0(desc["seed"], desc["n"])
            lv = P.leaves()
            mech = "%s:%s" % (P.name, b)
            grads = None
            try:
                with WarnLog():
                    o = P.call(lv, sp, dict(P.ref_opts) if b == P.reference else ({"nsamples": 30, "lb": -6.0, "ub": 6.0} if b == "_dummy1d" else {}), None)
                    go = P.gauge(o)
                    L = sum(x.sum() for x in go)
                    if isinstance(L, torch.Tensor) and L.requires_grad and P.name != "mcquad":
                        gl = torch.autograd.grad(L, list(lv.values()), allow_unused=True)
                        grads = [torch.zeros_like(l) if g is None else g.detach() for g, l in zip(gl, lv.values())]
            except Exception as e:
                if sp == b:
                    raise HarnessBug("built-in %s(%s) failed in lower case: %s: %s" % (P.name, b, type(e).__name__, e))
                obs.exc_violation("name_case:%s:%s" % (mech, "upper" if sp.isupper() else "mixed"), e, spelling=sp)
                continue
            o = [x.detach() for x in o]
            if base is None:
                base, base_grads = o, grads
            else:
                same = len(o) == len(base) and all(a.shape == c.shape and torch.equal(a, c) for a, c in zip(o, base))
                obs.check(same, "name_case_result:" + mech, "method=%r gives a different result than %r" % (sp, b))
                if grads is not None and base_grads is not None:
                    gerr = max(float((a - c).abs().max()) for a, c in zip(grads, base_grads))
                    gsc = max(1.0, max(float(c.abs().max()) for c in base_grads))
                    obs.check(gerr <= 1e-10 * gsc, "name_case_grad:" + mech,
                              "method=%r gives a different first-order gradient than %r (difference %.3e)" % (sp, b, gerr))
                obs.count("names_compared")
                n_ok += 1
    obs.nontrivial = n_ok >= 2


def run_bad(desc, obs):
    P0 = PROBLEMS[desc["functional"]]
    for bad, want in (("no_such_method", RuntimeError), ("", RuntimeError), (3, TypeError), (2.5, TypeError), (("cg",), TypeError)):
        P = P0(desc["seed"], desc["n"])
        lv = P.leaves()
        mech = "%s:%s" % (P.name, type(bad).__name__ if not isinstance(bad, str) else ("empty" if bad == "" else "unknown"))
        try:
            with WarnLog(), torch.no_grad():
                P.call(lv, bad, {}, None)
        except want:
            obs.count("bad_methods_rejected")
            continue
        except Exception as e:
            obs.violation("bad_method_wrong_error:" + mech, "method=%r raised %s (%s), expected %s" % (bad, type(e).__name__, str(e)[:120], want.__name__))
            continue
        obs.violation("bad_method_accepted:" + mech, "method=%r was accepted silently" % (bad,))
    obs.counters["assertions_evaluated"] += 5
    obs.nontrivial = True


BCK_METHOD_KEY = {"solve": "exactsolve", "symeig": "exactsolve", "svd": "exactsolve", "rootfinder": "exactsolve", "equilibrium": "exactsolve",
                  "minimize": "exactsolve", "solve_ivp": "rk45", "quad": "leggauss", "mcquad": "_dummy1d"}


def run_special(desc, obs):
    kind, name = desc["kind"], desc["functional"]
    if kind == "bck_strict_opts":
        return cx.run_bck_strict(desc, obs, PROBLEMS)
    if kind == "returns_input_leaf":
        return cx.run_returns_input_leaf(desc, obs, PROBLEMS)
    P = PROBLEMS[name](desc["seed"], desc["n"])
    mech = "%s:%s" % (kind, name)
    if kind == "unknown_zero_rhs":
        # an all-zero right-hand side takes a shortcut inside solve: the method name must be looked at all the same
        for withE in (False, True):
            lv = P.leaves()
            lv["B"] = torch.zeros_like(lv["B"]).requires_grad_()
            if not withE:
                lv["E"] = None
                lv.pop("Q", None)
            for bad in ("no_such_method", ""):
                try:
                    with WarnLog(), torch.no_grad():
                        P.call(lv, bad, {}, None)
                except RuntimeError:
                    obs.count("bad_methods_rejected")
                    continue
                except Exception as e:
                    obs.violation("bad_method_wrong_error:" + mech, "method=%r raised %s (%s), expected RuntimeError" % (bad, type(e).__name__, str(e)[:120]))
                    continue
                obs.violation("bad_method_accepted:" + mech, "method=%r was accepted silently for an all-zero right-hand side" % (bad,))
        obs.counters["assertions_evaluated"] += 4
        obs.nontrivial = True
        return
    if kind == "returns_input":
        # the closed-form answer happens to BE one of the inputs (initial guess already at the solution; identity operator): the callable returns that
        # very tensor object
        lv_r = P.leaves()
        lv_c = {k: v.detach().clone().requires_grad_() for k, v in lv_r.items()}
        try:
            if name == "solve":
                import xitorch
                from xitorch.linalg import solve
                n = desc["n"]
                sc_r, sc_c = lv_r["E"][:1].sum() * 0 + 1.7, lv_c["E"][:1].sum() * 0 + 1.7

                def run(lv, method, scal):
                    A = xitorch.LinearOperator.m(torch.eye(n, dtype=DT) * 1.0 + 0 * _spd_from(lv["P"], 3.0))
                    return [solve(A, lv["B"], method=method, bck_options={"method": "exactsolve"})]
                outs_r = run(lv_r, "exactsolve", sc_r)
                outs_c = run(lv_c, (lambda A, B, E=None, M=None, **o: B), sc_c)
            else:
                from xitorch.optimize import rootfinder, equilibrium, minimize
                fn = {"rootfinder": rootfinder, "equilibrium": equilibrium, "minimize": minimize}[name]
                with torch.no_grad():
                    ystar = P.closed()(None, None, (lv_r["W"], lv_r["a"]))
                outs_r = [fn(P.fcn(), ystar.clone(), params=(lv_r["W"], lv_r["a"]), method=P.reference, bck_options=dict(P.bck_default), f_tol=1e-12, x_tol=1e-12)]
                outs_c = [fn(P.fcn(), ystar.clone(), params=(lv_c["W"], lv_c["a"]), method=(lambda fcn, y0, params, **o: y0), bck_options=dict(P.bck_default))]
            tg = torch.Generator().manual_seed(desc["seed"] + 1)
            g1_r, g2_r = _contract(outs_r, list(lv_r.values()), tg)
        except Exception as e:
            raise HarnessBug("reference run of returns_input failed: %s: %s" % (type(e).__name__, e))
        try:
            tg = torch.Generator().manual_seed(desc["seed"] + 1)
            g1_c, g2_c = _contract(outs_c, list(lv_c.values()), tg)
        except Exception as e:
            obs.exc_violation("returns_input:backward:" + name, e)
            obs.nontrivial = True
            return
        dist = max(float((a.detach() - b.detach()).abs().max()) for a, b in zip(outs_c, outs_r))
        obs.check(dist <= 1e-9, "returns_input:value:" + name, "the functional did not return the value of the tensor the callable returned (distance %.2e)" % dist)
        for order, gc, gr in (("grad1", g1_c, g1_r), ("grad2", g2_c, g2_r)):
            if gc is None or gr is None:
                obs.check((gc is None) == (gr is None), "returns_input:%s_presence:%s" % (order, name), "second-order graph present for one side only")
                continue
            sc = max([1.0] + [float(x.abs().max()) for x in gr])
            err = max(float((a - b).abs().max()) for a, b in zip(gc, gr))
            obs.check(err <= 1e-6 * sc, "returns_input:%s:%s" % (order, name), "%s with a callable that returns its input object differs from the built-in's by %.3e" % (order, err))
        obs.count("returns_input_compared")
        obs.nontrivial = True
        return
    if kind == "bck_callable_orders":
        # a recording callable as the BACKWARD linear solver: it must do the solves of the first-order backward AND those started while that
        # backward is differentiated again (second order) - no silent fall-back to a default solver
        calls = []

        def rec_solver(A, B, E=None, M=None, **options):
            calls.append(tuple(B.shape))
            Ad = A.fullmatrix()
            if E is None:
                return torch.linalg.solve(Ad, B)
            Md = M.fullmatrix() if M is not None else torch.eye(Ad.shape[-1], dtype=Ad.dtype)
            cols = [torch.linalg.solve(Ad - E[..., c] * Md, B[..., c]) for c in range(B.shape[-1])]
            return torch.stack(cols, dim=-1)
        P6 = PROBLEMS[name](desc["seed"], 6 if desc["n"] < 6 else desc["n"])
        lv = P6.leaves()
        # the solves that solve's own backward starts (second order) are observed through the name bound in xitorch.linalg.solve
        import sys as _sys
        import xitorch.linalg       # noqa: F401  (makes sure the module is loaded)
        smod = _sys.modules["xitorch.linalg.solve"]
        orig_solve = smod.solve
        nested = []

        def spy_solve(*a, **kw):
            nested.append(kw.get("method"))
            return orig_solve(*a, **kw)
        smod.solve = spy_solve
        try:
            with WarnLog():
                outs = P6.call(lv, "bicgstab" if name == "solve" else P6.reference, {}, {"method": rec_solver})
                leaves = [v for v in lv.values() if isinstance(v, torch.Tensor) and v.requires_grad]
                tg = torch.Generator().manual_seed(desc["seed"] + 1)
                L = sum((o * torch.randn(o.shape, generator=tg, dtype=o.dtype)).sum() for o in P6.gauge(outs))
                n0 = len(calls)
                g = torch.autograd.grad(L, leaves, create_graph=True, allow_unused=True)
                n1 = len(calls)
                L2 = sum((gi * torch.randn(gi.shape, generator=tg, dtype=gi.dtype)).sum() for gi in g if gi is not None and gi.requires_grad)
                if isinstance(L2, torch.Tensor) and L2.requires_grad:
                    torch.autograd.grad(L2, leaves, allow_unused=True)
                n2 = len(calls)
        except Exception as e:
            smod.solve = orig_solve
            obs.exc_violation("bck_callable_orders:" + name, e)
            obs.nontrivial = True
            return
        finally:
            smod.solve = orig_solve
        obs.count("nested_backward_solves_observed", len(nested))
        obs.check(all(m is rec_solver for m in nested), "bck_callable_orders:nested:" + name,
                  "solves started inside solve's own backward ran with method=%s instead of the caller's callable" % sorted({getattr(m, "__name__", str(m)) for m in nested if m is not rec_solver}))
        obs.check(n1 > n0, "bck_callable_orders:first:" + name, "the callable given as bck_options['method'] was not called in the first-order backward")
        obs.check(n2 > n1, "bck_callable_orders:second:" + name,
                  "the callable given as bck_options['method'] was called %d time(s) in the first-order backward but not at all while that backward was differentiated "
                  "again: the second-order solves ran with another solver" % (n1 - n0))
        obs.count("bck_callable_orders_checked")
        obs.nontrivial = True
        return
    if kind == "unhashable_callable":
        # a callable OBJECT that cannot be hashed (e.g. an instance of a dataclass with __call__): still a callable method
        inner = P.closed()

        class Unhashable(object):
            __hash__ = None

            def __eq__(self, other):
                return self is other

            def __call__(self, *a, **k):
                return inner(*a, **k)
        lv_c = P.leaves()
        lv_r = {k: (v.detach().clone().requires_grad_() if isinstance(v, torch.Tensor) else v) for k, v in lv_c.items()}
        bck = dict(P.bck_for_closed) if P.bck_for_closed else dict(P.bck_default or {})
        opts = dict(getattr(P, "ref_opts", {}) or {})
        try:
            with WarnLog():
                outs_r = P.call(lv_r, P.reference, dict(opts), dict(bck))
        except Exception as e:
            raise HarnessBug("built-in run failed for %s: %s: %s" % (name, type(e).__name__, e))
        try:
            with WarnLog():
                outs_c = P.call(lv_c, Unhashable(), dict(opts) if name == "mcquad" else {}, dict(bck))
        except Exception as e:
            obs.exc_violation("unhashable_callable:" + name, e)
            obs.nontrivial = True
            return
        go_c, go_r = P.gauge(outs_c), P.gauge(outs_r)
        dist = max(float((a.detach() - b.detach()).abs().max()) for a, b in zip(go_c, go_r))
        scale = max(1.0, max(float(o.detach().abs().max()) for o in go_r))
        obs.check(dist <= max(P.tol, 1e-6) * scale, "unhashable_callable:value:" + name, "result with an unhashable callable object differs from the built-in's by %.3e" % dist)
        obs.count("unhashable_callable_checked")
        obs.nontrivial = True
        return
    if kind == "bck_unknown_name":
        # an unknown method name given for the BACKWARD pass must be rejected too (at the call or at the backward pass), not silently replaced
        lv = P.leaves()
        bck = dict(P.bck_default or {})
        bck["method"] = "no_such_method"
        opts = dict(getattr(P, "ref_opts", {}) or {})
        try:
            with WarnLog():
                # (plain exactsolve is differentiated by torch itself: no backward solver is ever selected there)
                outs = P.call(lv, "bicgstab" if name == "solve" else P.reference, dict(opts), bck)
                tg = torch.Generator().manual_seed(desc["seed"] + 1)
                _contract(P.gauge(outs), [v for v in lv.values() if isinstance(v, torch.Tensor)], tg)
        except (RuntimeError, TypeError, ValueError, KeyError) as e:
            ok = "no_such_method" in str(e) or "nknown" in str(e) or "method" in str(e).lower()
            obs.check(ok, "bck_unknown_name:other_error:" + name, "an unknown backward method name led to an unrelated error: %s: %s" % (type(e).__name__, str(e)[:100]))
            obs.count("bck_unknown_name_rejected")
            obs.nontrivial = True
            return
        except Exception as e:
            obs.exc_violation("bck_unknown_name:" + name, e)
            obs.nontrivial = True
            return
        # functionals whose backward never selects a solver by name (symeig / svd with the dense method) may ignore the entry
        if name in ("symeig", "svd") and str(P.reference).lower() == "exacteig":
            obs.count("bck_unknown_name_not_applicable")
        else:
            obs.violation("bck_unknown_name:accepted:" + name, "bck_options['method']='no_such_method' was accepted silently (forward %s, first and second order backward ran)" % P.reference)
        obs.nontrivial = True
        return
    # ---- bck_method_key: a built-in forward method with / without an explicit (equivalent) method entry in bck_options
    lv_a = P.leaves()
    lv_b = {k: (v.detach().clone().requires_grad_() if isinstance(v, torch.Tensor) else v) for k, v in lv_a.items()}
    base = dict(P.bck_default or {})
    opts = dict(getattr(P, "ref_opts", {}) or {})
    try:
        with WarnLog():
            outs_a = P.call(lv_a, P.reference, dict(opts), dict(base))
            tg = torch.Generator().manual_seed(desc["seed"] + 1)
            g1_a, g2_a = _contract(P.gauge(outs_a), [v for v in lv_a.values() if isinstance(v, torch.Tensor)], tg)
    except Exception as e:
        raise HarnessBug("run without the method key failed for %s: %s: %s" % (name, type(e).__name__, e))
    bck = dict(base)
    bck["method"] = BCK_METHOD_KEY[name]
    if name == "quad":
        bck.update(opts)
    try:
        with WarnLog():
            outs_b = P.call(lv_b, P.reference, dict(opts), bck)
            tg = torch.Generator().manual_seed(desc["seed"] + 1)
            g1_b, g2_b = _contract(P.gauge(outs_b), [v for v in lv_b.values() if isinstance(v, torch.Tensor)], tg)
    except Exception as e:
        obs.exc_violation("bck_method_key:" + name, e)
        obs.nontrivial = True
        return
    for order, ga, gb in (("grad1", g1_a, g1_b), ("grad2", g2_a, g2_b)):
        if ga is None or gb is None:
            obs.check((ga is None) == (gb is None), "bck_method_key:%s_presence:%s" % (order, name), "second-order graph present for one side only")
            continue
        sc = max([1.0] + [float(x.abs().max()) for x in ga])
        err = max(float((a - b).abs().max()) for a, b in zip(ga, gb))
        obs.check(err <= 10 * P.tol * sc, "bck_method_key:%s:%s" % (order, name),
                  "%s with bck_options['method']=%r differs from the run without that entry by %.3e (scale %.2e)" % (order, bck["method"], err, sc))
    obs.count("bck_method_key_compared")
    obs.nontrivial = True


def run_classes(desc, obs):
    """Interp1D / SQuad take implementation classes as custom methods"""
    tg = torch.Generator().manual_seed(desc["seed"])
    x = torch.cumsum(0.2 + torch.rand(8, generator=tg, dtype=DT), 0)
    y = torch.randn(2, 8, generator=tg, dtype=DT).requires_grad_()
    y2 = y.detach().clone().requires_grad_()
    seen = []
    if desc["functional"] == "Interp1D":
        from xitorch.interpolate import Interp1D
        from xitorch._impls.interpolate.interp_1d import CubicSpline1D, LinearInterp1D
        xq = x[0] + (x[-1] - x[0]) * torch.rand(5, generator=tg, dtype=DT)
        for nm, cls, opts in (("cspline", CubicSpline1D, {"bc_type": "natural"}), ("linear", LinearInterp1D, {})):
            class Sub(cls):
                def __init__(self, *a, **k):
                    seen.append((len(a), dict(k), torch.is_grad_enabled()))
                    super().__init__(*a, **k)
            mech = "Interp1D:%s" % nm
            try:
                o_c = Interp1D(x, y, method=Sub, **opts)(xq)
            except Exception as e:
                obs.exc_violation("class_method:" + mech, e)
                continue
            o_r = Interp1D(x, y2, method=nm, **opts)(xq)
            obs.check(torch.equal(o_c.detach(), o_r.detach()), "class_value:" + mech, "class given as method gives a different value than the name")
            obs.check(bool(seen) and seen[-1][1] == opts, "options:" + mech, "the implementation class did not receive the caller's options: %s" % (seen[-1:],))
            c = torch.randn(o_c.shape, generator=tg, dtype=DT)
            g_c, = torch.autograd.grad((o_c * c).sum(), y)
            g_r, = torch.autograd.grad((o_r * c).sum(), y2)
            obs.check(torch.allclose(g_c, g_r, rtol=1e-12, atol=1e-12), "class_grad:" + mech, "gradient differs between class-as-method and name")
            for sp in _spellings(nm)[1:]:
                try:
                    o_s = Interp1D(x, y2, method=sp, **opts)(xq)
                    obs.check(torch.equal(o_s.detach(), o_r.detach()), "name_case_result:" + mech, "method=%r differs from %r" % (sp, nm))
                    obs.count("names_compared")
                except Exception as e:
                    obs.exc_violation("name_case:%s:%s" % (mech, "upper" if sp.isupper() else "mixed"), e)
        for bad, want in (("nope", RuntimeError), (7, TypeError)):
            try:
                Interp1D(x, y, method=bad)
                obs.violation("bad_method_accepted:Interp1D", "method=%r accepted" % (bad,))
            except want:
                obs.count("bad_methods_rejected")
            except Exception as e:
                obs.violation("bad_method_wrong_error:Interp1D", "method=%r raised %s, expected %s" % (bad, type(e).__name__, want.__name__))
    else:
        from xitorch.integrate import SQuad
        from xitorch._impls.integrate.samples_quad import CubicSplineSQuad, SimpsonSQuad, TrapzSQuad
        for nm, cls, opts in (("cspline", CubicSplineSQuad, {"bc_type": "natural"}), ("simpson", SimpsonSQuad, {}), ("trapz", TrapzSQuad, {})):
            class Sub(cls):
                def __init__(self, *a, **k):
                    seen.append((len(a), dict(k), torch.is_grad_enabled()))
                    super().__init__(*a, **k)
            mech = "SQuad:%s" % nm
            try:
                o_c = SQuad(x, method=Sub, **opts).cumsum(y, dim=-1)
            except Exception as e:
                obs.exc_violation("class_method:" + mech, e)
                continue
            o_r = SQuad(x, method=nm, **opts).cumsum(y2, dim=-1)
            obs.check(torch.equal(o_c.detach(), o_r.detach()), "class_value:" + mech, "class given as method gives a different value than the name")
            obs.check(bool(seen) and seen[-1][1] == opts, "options:" + mech, "the implementation class did not receive the caller's options")
            c = torch.randn(o_c.shape, generator=tg, dtype=DT)
            g_c, = torch.autograd.grad((o_c * c).sum(), y)
            g_r, = torch.autograd.grad((o_r * c).sum(), y2)
            obs.check(torch.allclose(g_c, g_r, rtol=1e-12, atol=1e-12), "class_grad:" + mech, "gradient differs between class-as-method and name")
            for sp in _spellings(nm)[1:]:
                try:
                    o_s = SQuad(x, method=sp, **opts).cumsum(y2, dim=-1)
                    obs.check(torch.equal(o_s.detach(), o_r.detach()), "name_case_result:" + mech, "method=%r differs from %r" % (sp, nm))
                    obs.count("names_compared")
                except Exception as e:
                    obs.exc_violation("name_case:%s:%s" % (mech, "upper" if sp.isupper() else "mixed"), e)
        for bad, want in (("nope", RuntimeError), (7, TypeError)):
            try:
                SQuad(x, method=bad)
                obs.violation("bad_method_accepted:SQuad", "method=%r accepted" % (bad,))
            except want:
                obs.count("bad_methods_rejected")
            except Exception as e:
                obs.violation("bad_method_wrong_error:SQuad", "method=%r raised %s, expected %s" % (bad, type(e).__name__, want.__name__))
    obs.count("custom_calls_observed", len(seen))
    obs.nontrivial = len(seen) >= 2


def run_shareddict(desc, obs):
    P0 = PROBLEMS[desc["functional"]]
    rng = random.Random(desc["seed"])
    methods = [m for m in P0.builtins if m not in ("mhcustom",)]
    if len(methods) < 2:
        methods = methods * 2
    seq = [rng.choice(methods) for _ in range(3)]
    base = {"rtol": 1e-11, "atol": 1e-13} if P0.name != "solve_ivp" else {"rtol": 1e-9, "atol": 1e-10}
    shared = dict(base)

    def one(method, bck):
        P = P0(desc["seed"], desc["n"])
        lv = P.leaves()
        opts = dict(P.ref_opts) if method == P.reference else ({"nsamples": 30, "lb": -6.0, "ub": 6.0} if method == "_dummy1d" else {})
        with WarnLog():
            o = P.call(lv, method, opts, bck)
            go = P.gauge(o)
            L = sum((x * x).sum() for x in go)
            torch.manual_seed(desc["seed"] + 3)
            g = torch.autograd.grad(L, list(lv.values()), allow_unused=True)
        return [x.detach() for x in o], [torch.zeros_like(l) if gi is None else gi.detach() for gi, l in zip(g, lv.values())]
    ncmp = 0
    for i, m in enumerate(seq):
        mech = "%s:%s_after_%s" % (P0.name, m, seq[i - 1] if i else "nothing")
        try:
            o_s, g_s = one(m, shared)
            o_f, g_f = one(m, dict(base))
        except Exception as e:
            if _monitor_only(e):
                raise
            obs.exc_violation("shareddict:" + mech, e)
            continue
        same_o = all(a.shape == b.shape and torch.equal(a, b) for a, b in zip(o_s, o_f))
        gerr = max(float((a - b).abs().max()) for a, b in zip(g_s, g_f))
        gsc = max(1.0, max(float(b.abs().max()) for b in g_f))
        obs.check(same_o, "shareddict_value:" + mech, "result with a bck_options dict used by earlier calls differs from the result with a fresh dict")
        obs.check(gerr <= 1e-10 * gsc, "shareddict_grad:" + mech,
                  "gradient with a bck_options dict used by earlier calls (%s) differs from the one with a fresh dict by %.3e" % (seq[:i], gerr))
        ncmp += 1
    obs.count("shared_dict_calls_compared", ncmp)
    obs.nontrivial = ncmp >= 2


def _monitor_only(e):
    return isinstance(e, HarnessBug)


def run_case(desc):
    obs = Obs(desc)
    g = desc["group"]
    if g == "shareddict":
        run_shareddict(desc, obs)
        obs.count("group_shareddict")
        return obs.result()
    if g == "custom":
        run_custom(desc, obs)
    elif g == "names":
        run_names(desc, obs)
    elif g == "special":
        run_special(desc, obs)
    elif g == "bad":
        run_bad(desc, obs)
    elif g == "classes":
        run_classes(desc, obs)
    else:
        raise HarnessBug("unknown group")
    obs.count("group_%s" % g)
    return obs.result()
