"""C20 - Packer round-trips nested structures (reference-model monitor + call-history monitor)."""
import copy
import random

import torch

from vf.common import Obs, sub_seed

LEVEL = "exploration"
RULE = ("random nested structures (lists, dicts, attribute objects, opaque tuples, non-tensor leaves, aliased tensors, "
        "aliased containers) generated from the case seed, plus every set partition of <=5 tensor slots over fixed "
        "skeletons; each case drives a random history of get_/construct_ calls on ONE Packer and compares every "
        "result with a 60-line reference model; non-trivial = structure has >=2 tensor slots and >=1 successful "
        "reconstruction was compared slot by slot")
RULE += ("; group extra (vf/c20_extra.py): structures without any tensor (rebuilds are fresh copies, wrong lengths rejected), the caller modifying a returned listing")
REQUIRED_COUNTERS = {"quick": {"extra_empty_structures": 20, "extra_listmut_histories": 20}, "thorough": {"extra_empty_structures": 200, "extra_listmut_histories": 200}}
MIN_NONTRIVIAL = {"quick": 300, "thorough": 3000}
ASSUMPTIONS = ["single dtype per structure (float64): the flat interface concatenates, mixed dtypes are outside the property",
               "container aliasing is generated only with consistent tensors for the non-unique interface",
               "no cyclic structures (extraction would not terminate; not claimed by the property)"]
BUDGET = {"quick": {"worker_timeout": 600, "case_timeout": 60}, "thorough": {"worker_timeout": 2400, "case_timeout": 60}}

SHAPES = [(), (2,), (1, 3), (2, 2), (3,), (1,), (2, 1, 2), (0,), (2, 0)]     # incl. empty tensors (they all share the null data pointer)
DICT_KINDS = ("D", "OD", "DD", "DS")     # dict, OrderedDict, defaultdict, a dict subclass that also has instance attributes
CONT_KINDS = ("L", "O", "O2") + DICT_KINDS


class DictSub(dict):
    """a dict subclass carrying an instance attribute (non-tensor): it must be handled as the dict it is"""

    def __init__(self, *a, **k):
        dict.__init__(self, *a, **k)
        self.note = "dictsub"


class Node:  # attribute-bearing object
    pass


class Node2:
    def __init__(self):
        pass


def partitions(n):
    """all set partitions of range(n) as restricted-growth strings"""
    def rec(prefix, m):
        if len(prefix) == n:
            yield list(prefix)
            return
        for k in range(m + 1):
            yield from rec(prefix + [k], max(m, k + 1) if k == m else m)
    yield from rec([], 0)


def cases(seed, tier):
    out = []
    nrand = 1500 if tier == "quick" else 20000
    for i in range(nrand):
        out.append({"group": "random", "seed": sub_seed(seed, "c20", i), "maxc": 3 + i % 10, "maxslots": 1 + i % 10,
                    "nops": 4 + i % 9})
    # exhaustive aliasing partitions over fixed skeletons
    nmax = 4 if tier == "quick" else 5
    for n in range(1, nmax + 1):
        for p in partitions(n):
            for sk in range(4 if tier == "quick" else 6):
                out.append({"group": "partition", "partition": p, "skeleton": sk,
                            "seed": sub_seed(seed, "c20p", n, sk, *p), "nops": 8})
    # scripted histories that exercise both modes of both interfaces on one Packer, in both orders
    scripts = [["get_flat:u", "get_flat:a", "c_flat:a", "c_flat:u", "c_flat:a", "c_list:u", "c_list:a", "c_flat:u"],
               ["get_flat:a", "get_flat:u", "c_flat:u", "c_flat:a", "c_list:a", "c_flat:u", "c_list:u", "c_flat:a"],
               ["get_list:u", "c_list:u", "get_list:a", "c_list:a", "c_list:u", "get_flat:a", "c_flat:a", "get_flat:u", "c_flat:u", "c_flat:a"],
               ["get_flat:u", "c_flat:u", "bad_numel:u", "c_flat:u", "get_flat:a", "bad_len:a", "c_flat:a", "bad_shape:u", "c_list:u"]]
    nscr = 400 if tier == "quick" else 4000
    for i in range(nscr):
        out.append({"group": "scripted", "seed": sub_seed(seed, "c20s", i), "maxc": 2 + i % 6, "maxslots": 3 + i % 6,
                    "script": scripts[i % len(scripts)], "nops": len(scripts[i % len(scripts)])})
    # degenerate structures
    for k, spec in enumerate(["tensor", "int", "emptylist", "emptydict", "tupleonly", "obj_empty"]):
        out.append({"group": "degenerate", "spec": spec, "seed": sub_seed(seed, "c20d", k), "nops": 6})
    from vf import c20_extra
    out.extend(c20_extra.cases(seed, tier))
    return out


# ------------------------------------------------------------------------------------------ structure generation
def gen_random_desc(rng, maxc, maxslots):
    """returns a JSON-able description; tensors are referenced by label, containers can be referenced again"""
    state = {"ncont": 0, "nslots": 0, "nlabels": 0, "labels_shape": {}, "finished": []}

    def leaf():
        k = rng.randrange(7)
        if k == 0:
            return ["leaf", rng.randrange(100)]
        if k == 1:
            return ["leaf", rng.random()]
        if k == 2:
            return ["leaf", "s%d" % rng.randrange(10)]
        if k == 3:
            return ["leaf", None]
        if k == 4:
            return ["set", [rng.randrange(10) for _ in range(rng.randrange(3))]]
        if k == 5:
            # opaque tuple: may contain a tensor label (not listed by the Packer) and numbers
            items = [["leaf", rng.randrange(5)]]
            if state["nlabels"] and rng.random() < 0.5:
                items.append(["T", rng.randrange(state["nlabels"])])
            return ["tup", items]
        return ["leaf", True]

    def tensor_slot():
        if state["nlabels"] and rng.random() < 0.35:
            lab = rng.randrange(state["nlabels"])
        else:
            lab = state["nlabels"]
            state["nlabels"] += 1
            state["labels_shape"][lab] = rng.randrange(len(SHAPES))
        state["nslots"] += 1
        return ["T", lab]

    def node(depth):
        r = rng.random()
        can_cont = state["ncont"] < maxc and depth < 4
        can_slot = state["nslots"] < maxslots
        if state["finished"] and r < 0.08 and can_slot:
            # alias an already *completed* container (never an ancestor -> no cycles)
            j = rng.choice(state["finished"])
            return ["ref", j]
        if can_cont and r < 0.45:
            kind = rng.choice(["L", "D", "O", "O2", "L", "D", "O", "OD", "DD", "DS"])
            idx = state["ncont"]
            state["ncont"] += 1
            n = rng.randrange(0, 4)
            ch = []
            for i in range(n):
                key = "k%d" % i if kind != "L" else i
                ch.append([key, node(depth + 1)])
            state["finished"].append(idx)
            return [kind, idx, ch]
        if can_slot and r < 0.8:
            return tensor_slot()
        return leaf()

    top_kind = rng.choice(["L", "D", "O"])
    idx = state["ncont"]
    state["ncont"] += 1
    n = rng.randrange(1, 5)
    ch = []
    for i in range(n):
        key = "t%d" % i if top_kind != "L" else i
        ch.append([key, node(1)])
    desc = [top_kind, idx, ch]
    return desc, state["labels_shape"]


SKELETONS = [
    lambda s: ["L", 0, [[i, x] for i, x in enumerate(s)]],
    lambda s: ["D", 0, [["k%d" % i, x] for i, x in enumerate(s)]],
    lambda s: ["O", 0, [["a%d" % i, ["L", i + 1, [[0, x], [1, ["leaf", i]]]]] for i, x in enumerate(s)]],
    lambda s: ["D", 0, [["x", ["L", 1, [[i, x] for i, x in enumerate(s[:len(s) // 2])]]],
                        ["y", ["O2", 2, [["b%d" % i, x] for i, x in enumerate(s[len(s) // 2:])]]],
                        ["z", ["tup", [["leaf", 1]]]]]],
    lambda s: ["L", 0, [[0, ["D", 1, [["p", ["L", 2, [[i, x] for i, x in enumerate(s)]]]]]], [1, ["leaf", "end"]]]],
    lambda s: ["O", 0, [["first", s[0]], ["rest", ["L", 1, [[i, x] for i, x in enumerate(s[1:])]]], ["n", ["leaf", 3]]]],
]


def build(desc, tensors, conts):
    """instantiate a description; `tensors` maps label -> tensor object; `conts` maps container idx -> object"""
    k = desc[0]
    if k == "T":
        return tensors[desc[1]]
    if k == "leaf":
        return desc[1]
    if k == "set":
        return set(desc[1])
    if k == "tup":
        return tuple(build(d, tensors, conts) for d in desc[1])
    if k == "ref":
        return conts[desc[1]]
    if k == "L":
        obj = [build(c, tensors, conts) for _, c in desc[2]]
    elif k in DICT_KINDS:
        import collections
        obj = {"D": dict, "OD": collections.OrderedDict, "DD": lambda: collections.defaultdict(list), "DS": DictSub}[k]()
        for key, c in desc[2]:
            obj[key] = build(c, tensors, conts)
    else:
        obj = Node() if k == "O" else Node2()
        for key, c in desc[2]:
            setattr(obj, key, build(c, tensors, conts))
    conts[desc[1]] = obj
    return obj


def resolve(desc, table):
    """container table idx -> description (to follow refs)"""
    if desc[0] in CONT_KINDS:
        table[desc[1]] = desc
        for _, c in desc[2]:
            resolve(c, table)
    return table


def model_slots(desc, table, path=()):
    """reference model: depth-first list of (label, physical location) of tensor slots as the Packer must list them"""
    k = desc[0]
    if k == "T":
        return [(desc[1], path)]
    if k == "ref":
        return model_slots(table[desc[1]], table, path)
    if k in CONT_KINDS:
        out = []
        for key, c in desc[2]:
            sub = model_slots(c, table, ("c%d" % desc[1], key))
            out.extend(sub)
        return out
    return []


def walk_compare(desc, table, orig, new, slots_out, idmap, obs, mech, where="top"):
    """walk the description, the original object and the reconstruction together"""
    k = desc[0]
    if k == "ref":
        return walk_compare(table[desc[1]], table, orig, new, slots_out, idmap, obs, mech, where)
    if k == "T":
        if not isinstance(new, torch.Tensor):
            obs.violation(mech + ":slot_not_tensor", "slot %s holds %r" % (where, type(new)))
        slots_out.append(new)
        return
    if k in ("leaf", "set"):
        ok = type(new) is type(orig) and new == orig
        obs.check(ok, mech + ":leaf_changed", "non-tensor leaf at %s: %r -> %r" % (where, orig, new))
        if k == "set":
            obs.check(new is not orig, mech + ":leaf_not_copied", "mutable non-tensor leaf at %s is shared with the input" % where)
        return
    if k == "tup":
        ok = isinstance(new, tuple) and len(new) == len(orig)
        if ok:
            for a, b in zip(orig, new):
                if isinstance(a, torch.Tensor):
                    ok = ok and isinstance(b, torch.Tensor) and a.shape == b.shape and bool((a == b).all())
                else:
                    ok = ok and a == b
        obs.check(ok, mech + ":tuple_changed", "opaque tuple at %s changed: %r -> %r" % (where, orig, new))
        return
    # containers
    if type(new) is not type(orig):
        obs.violation(mech + ":container_type", "container at %s: %s -> %s" % (where, type(orig).__name__, type(new).__name__))
        return
    obs.check(new is not orig, mech + ":container_shared", "container at %s is the input's own object" % where)
    prev = idmap.get(id(orig))
    if prev is not None:
        obs.check(prev is new, mech + ":container_alias_lost", "aliased container at %s is no longer aliased" % where)
    idmap[id(orig)] = new
    if k == "L":
        if not obs.check(len(new) == len(orig), mech + ":list_len", "list at %s: len %d -> %d" % (where, len(orig), len(new))):
            return
        for key, c in desc[2]:
            walk_compare(c, table, orig[key], new[key], slots_out, idmap, obs, mech, "%s[%d]" % (where, key))
    elif k in DICT_KINDS:
        if not obs.check(list(new.keys()) == list(orig.keys()), mech + ":dict_keys", "dict keys at %s: %r -> %r" % (where, list(orig), list(new))):
            return
        if k == "DS":
            obs.check(vars(new) == vars(orig), mech + ":dictsub_attrs", "instance attributes of the dict subclass at %s changed" % where)
        for key, c in desc[2]:
            walk_compare(c, table, orig[key], new[key], slots_out, idmap, obs, mech, "%s[%r]" % (where, key))
    else:
        if not obs.check(list(vars(new).keys()) == list(vars(orig).keys()), mech + ":attr_keys", "attributes at %s changed" % where):
            return
        for key, c in desc[2]:
            walk_compare(c, table, getattr(orig, key), getattr(new, key), slots_out, idmap, obs, mech, "%s.%s" % (where, key))


def snapshot(desc, table, obj, seen=None):
    """deep structural snapshot incl. tensor identities/values and container identities"""
    k = desc[0]
    if k == "ref":
        return ("ref", id(obj))
    if k == "T":
        return ("T", id(obj), tuple(obj.shape), obj.detach().reshape(-1).tolist())
    if k == "leaf":
        return ("leaf", repr(obj))
    if k == "set":
        return ("set", id(obj), sorted(obj))
    if k == "tup":
        return ("tup", id(obj), tuple(("T", id(x), x.detach().reshape(-1).tolist()) if isinstance(x, torch.Tensor) else repr(x) for x in obj))
    if k == "L":
        return ("L", id(obj), len(obj), tuple(snapshot(c, table, obj[key]) for key, c in desc[2]))
    if k in DICT_KINDS:
        return (k, type(obj).__name__, id(obj), tuple(obj.keys()), tuple(snapshot(c, table, obj[key]) for key, c in desc[2]))
    return (k, id(obj), tuple(vars(obj).keys()), tuple(snapshot(c, table, getattr(obj, key)) for key, c in desc[2]))


def run_case(desc):
    if desc.get("group") == "extra":
        from vf import c20_extra
        return c20_extra.run_case(desc)
    import xitorch
    obs = Obs(desc)
    rng = random.Random(desc["seed"])
    dt = torch.float64
    # ---------------- build the structure
    if desc["group"] in ("random", "scripted"):
        sdesc, labshape = gen_random_desc(rng, desc["maxc"], desc["maxslots"])
    elif desc["group"] == "partition":
        p = desc["partition"]
        labshape = {lab: rng.randrange(len(SHAPES)) for lab in set(p)}
        sdesc = SKELETONS[desc["skeleton"]]([["T", lab] for lab in p])
    else:
        labshape = {0: 1}
        sdesc = {"tensor": ["T", 0], "int": ["leaf", 5], "emptylist": ["L", 0, []], "emptydict": ["D", 0, []],
                 "tupleonly": ["L", 0, [[0, ["tup", [["T", 0], ["leaf", 1]]]]]], "obj_empty": ["O", 0, []]}[desc["spec"]]
    tensors = {}
    nshared = 0
    for lab in sorted(labshape):
        si = labshape[lab]
        same = [j for j in tensors if labshape[j] == si]
        if same and rng.random() < 0.25:
            # a DISTINCT tensor object sharing memory, shape and strides with an earlier one (detached alias): the Packer must
            # still treat it as its own tensor
            tensors[lab] = tensors[rng.choice(same)].detach()
            nshared += 1
        else:
            tensors[lab] = torch.randn(SHAPES[si], dtype=dt)
    if nshared:
        obs.count("distinct_tensors_sharing_memory", nshared)
    table = resolve(sdesc, {})
    orig = build(sdesc, tensors, {})
    slots = model_slots(sdesc, table)            # [(label, physical location)]
    labels = [s[0] for s in slots]
    nslots = len(labels)
    first = {}
    uniq_labels = []
    inv = []
    for lab in labels:
        if lab not in first:
            first[lab] = len(uniq_labels)
            uniq_labels.append(lab)
        inv.append(first[lab])
    # physical-location groups: slots reached twice through an aliased container
    loc_first = {}
    loc_group = []
    for i, (lab, loc) in enumerate(slots):
        loc_first.setdefault(loc, i)
        loc_group.append(loc_first[loc])
    obs.note(structure=sdesc, slot_labels=labels)
    obs.count("slots_total", nslots)
    if any(g != i for i, g in enumerate(loc_group)):
        obs.count("cases_with_aliased_container")
    if len(uniq_labels) < nslots:
        obs.count("cases_with_aliased_tensor")

    snap_before = snapshot(sdesc, table, orig)
    packer = xitorch.Packer(orig)
    internal = getattr(packer, "_obj", None)
    snap_int_before = snapshot(sdesc, table, internal) if internal is not None else None

    called = {("list", True): False, ("list", False): False, ("flat", True): False, ("flat", False): False}
    earlier = []   # (new object, expected slot tensors/values, kind) re-verified at the end
    ops_done = []
    compared = 0

    def expected_list(unique):
        labs = uniq_labels if unique else labels
        return [tensors[l] for l in labs]

    def check_reconstruction(new, supplied, unique, flat, tag):
        nonlocal compared
        got = []
        walk_compare(sdesc, table, orig, new, got, {}, obs, "rebuild")
        if len(got) != nslots:
            obs.violation("rebuild:slot_count", "%s: %d tensor slots in the rebuilt structure, model has %d" % (tag, len(got), nslots))
            return
        for i in range(nslots):
            want = supplied[inv[i]] if unique else supplied[loc_group[i]]
            if flat:
                ok = isinstance(got[i], torch.Tensor) and got[i].shape == want.shape and bool((got[i] == want).all())
            else:
                ok = got[i] is want
            obs.check(ok, "rebuild:slot_content:%s:%s" % ("unique" if unique else "all", "flat" if flat else "list"),
                      "%s: slot %d does not hold supplied tensor %d" % (tag, i, inv[i] if unique else i))
        # aliasing: slots with the same label must be one object again (unique interface), and slots with the
        # same physical location always
        for i in range(nslots):
            j = inv[i] if unique else None
            if unique:
                k0 = labels.index(uniq_labels[j])
                obs.check(got[i] is got[k0], "rebuild:alias_lost", "%s: aliased slots %d and %d are different objects" % (tag, i, k0))
        compared += 1
        earlier.append((new, [g for g in got], tag))

    nops = desc["nops"]
    for step in range(nops):
        if desc.get("script"):
            op, u_ = desc["script"][step].split(":")
            unique = u_ == "u"
        else:
            op = rng.choice(["get_list", "get_flat", "c_list", "c_flat", "c_list", "c_flat", "bad_len", "bad_shape", "bad_numel"])
            unique = rng.random() < 0.5
        ops_done.append("%s(%s)" % (op, "u" if unique else "a"))
        nexp = len(uniq_labels) if unique else nslots
        try:
            if op == "get_list":
                res = packer.get_param_tensor_list(unique=unique)
                called[("list", unique)] = True
                exp = expected_list(unique)
                ok = isinstance(res, list) and len(res) == len(exp) and all(a is b for a, b in zip(res, exp))
                obs.check(ok, "list_order:%s" % ("unique" if unique else "all"),
                          "get_param_tensor_list(unique=%s) returned %d tensors, model %d, or wrong order/identity" % (unique, len(res), len(exp)))
                obs.count("get_list_calls")
            elif op == "get_flat":
                res = packer.get_param_tensor(unique=unique)
                called[("flat", unique)] = True
                called[("list", unique)] = True
                exp = expected_list(unique)
                if len(exp) == 0:
                    obs.check(res is None, "flat_none", "no tensors but get_param_tensor returned %r" % (res,))
                else:
                    want = torch.cat([e.reshape(-1) for e in exp])
                    ok = isinstance(res, torch.Tensor) and res.numel() == want.numel() and bool((res.reshape(-1) == want).all())
                    obs.check(ok, "flat_content:%s" % ("unique" if unique else "all"), "get_param_tensor(unique=%s) is not the concatenation in model order" % unique)
                obs.count("get_flat_calls")
            elif op == "c_list":
                supplied = [torch.randn_like(t) for t in expected_list(unique)]
                if not unique:
                    supplied = [supplied[loc_group[i]] for i in range(nslots)]
                prereq = called[("list", unique)]
                try:
                    new = packer.construct_from_tensor_list(list(supplied), unique=unique)
                except Exception as e:
                    if prereq:
                        obs.exc_violation("construct_list_rejected_after_get:%s" % ("unique" if unique else "all"), e, ops=ops_done)
                    else:
                        obs.count("rejections_without_prerequisite")
                    continue
                obs.count("construct_list_calls")
                if nexp == 0:
                    # nothing to fill in: structure must equal the input's
                    got = []
                    walk_compare(sdesc, table, orig, new, got, {}, obs, "rebuild_empty") if new is not internal else None
                    obs.count("empty_reconstructions")
                else:
                    check_reconstruction(new, supplied, unique, False, "step %d %s" % (step, ops_done[-1]))
            elif op == "c_flat":
                exp = expected_list(unique)
                prereq = called[("flat", unique)]
                tot = sum(e.numel() for e in exp)
                if len(exp) == 1:
                    a = torch.randn_like(exp[0])
                    supplied = [a]
                else:
                    a = torch.randn(tot, dtype=dt)
                    supplied, off = [], 0
                    for e in exp:
                        supplied.append(a[off:off + e.numel()].reshape(e.shape))
                        off += e.numel()
                if not unique and any(g != i for i, g in enumerate(loc_group)):
                    # make the flat vector consistent for slots that are the same physical location
                    if len(exp) > 1:
                        parts = [supplied[loc_group[i]] for i in range(nslots)]
                        a = torch.cat([p_.reshape(-1) for p_ in parts])
                        supplied = parts
                try:
                    new = packer.construct_from_tensor(a, unique=unique)
                except Exception as e:
                    if prereq:
                        obs.exc_violation("construct_flat_rejected_after_get:%s" % ("unique" if unique else "all"), e, ops=ops_done)
                    else:
                        obs.count("rejections_without_prerequisite")
                    continue
                obs.count("construct_flat_calls")
                if nexp == 0:
                    obs.count("empty_reconstructions")
                else:
                    check_reconstruction(new, supplied, unique, True, "step %d %s" % (step, ops_done[-1]))
            elif op in ("bad_len", "bad_shape", "bad_numel"):
                exp = expected_list(unique)
                if not called[("flat", unique)] or len(exp) == 0:
                    continue
                if op == "bad_len":
                    bad = [torch.randn_like(t) for t in exp] + [torch.randn(2, dtype=dt)]
                    if rng.random() < 0.5 and len(exp) > 1:
                        bad = bad[:len(exp) - 1]
                    call = lambda: packer.construct_from_tensor_list(bad, unique=unique)
                elif op == "bad_shape":
                    bad = [torch.randn_like(t) for t in exp]
                    j = rng.randrange(len(bad))
                    bad[j] = torch.randn(tuple(bad[j].shape) + (2,), dtype=dt)
                    call = lambda: packer.construct_from_tensor_list(bad, unique=unique)
                else:
                    tot = sum(e.numel() for e in exp)
                    call = lambda: packer.construct_from_tensor(torch.randn(tot + 1 + rng.randrange(3), dtype=dt), unique=unique)
                try:
                    r = call()
                    obs.violation("bad_input_accepted:%s" % op, "%s with unique=%s returned %r instead of raising" % (op, unique, type(r)), ops=ops_done)
                except Exception:
                    obs.count("bad_inputs_rejected")
        except Exception as e:
            obs.exc_violation("op:%s" % op, e, ops=ops_done)

    # ---------------- quiescent-point invariants
    snap_after = snapshot(sdesc, table, orig)
    obs.check(snap_after == snap_before, "input_modified", "the caller's structure changed (identity/value/keys)", ops=ops_done)
    if internal is not None:
        obs.check(getattr(packer, "_obj", None) is internal and snapshot(sdesc, table, internal) == snap_int_before,
                  "packer_modified", "the Packer's internal copy changed after construct_* calls", ops=ops_done)
    try:
        res = packer.get_param_tensor_list(unique=False)
        obs.check(len(res) == nslots and all(a is tensors[l] for a, l in zip(res, labels)),
                  "packer_modified:tensor_list", "the Packer lists different tensors after the history", ops=ops_done)
    except Exception as e:
        obs.exc_violation("final_get_list", e)
    # earlier reconstructions must not have been touched by later ones
    for new, got_then, tag in earlier:
        got_now = []
        o2 = Obs()
        walk_compare(sdesc, table, orig, new, got_now, {}, o2, "recheck")
        same = len(got_now) == len(got_then) and all(a is b for a, b in zip(got_now, got_then)) and not o2.viol
        obs.check(same, "earlier_result_modified", "a structure returned earlier (%s) was modified by a later call" % tag, ops=ops_done)
    obs.note(ops=ops_done, reconstructions_compared=compared)
    obs.count("reconstructions_compared", compared)
    obs.nontrivial = nslots >= 2 and compared >= 1
    return obs.result()

TECHNIQUE = "runtime reference-model monitor + call-history monitor over generated structures"
LEVEL_TEXT = ("Held on every generated structure/history of the run: random nested structures with tensor and container aliasing "
              "plus all set partitions of <=5 slots over fixed skeletons, each driven through a random history of Packer calls and "
              "compared slot by slot with an independent reference model; input, Packer and earlier results re-snapshotted at the "
              "quiescent point. Not a proof: only generated structures (<=12 containers, <=10 slots, nesting <=4) are decided.")
LEVEL_NOTE = "Trusts the reference model in vf/props/c20.py and torch tensor identity/equality."
