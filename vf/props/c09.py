"""C09 - a function gives the same results however its parameters are supplied.

Reference-model monitor: for one mathematical function (vf/funcs.py) the pure-function form with explicit tensors is the
reference; every other accepted representation, built on *fresh* leaf tensors with the same values, is run through the same
real functional and must return the same value, first- and second-order leaf gradients."""
import random

import torch

from vf.common import Obs, sub_seed, HarnessBug, WarnLog
from vf import funcs

LEVEL = "exploration"
TECHNIQUE = ("runtime reference-model monitor: every accepted function representation vs the explicit-parameter pure function, "
             "same leaves, through every functional; values, 1st- and 2nd-order leaf gradients by random contractions")
LEVEL_TEXT = ("Held on every generated (functional, representation, leaf-derivation, requires-grad mask, size) combination of the run: "
              "18 functional/method variants (rootfinder, equilibrium, minimize, solve_ivp, quad, mcquad, jac, hess) x 18 representations "
              "(pure with interleaved non-tensor params, scripted, nn.Module flat/nested/tied/mixed-with-explicit, EditableModule "
              "flat/container-held/aliased/holding an nn.Module/mixed, single and multiple siblings incl. shared tensors); the value and "
              "the first- and second-order gradients w.r.t. the underlying leaves must equal those of the pure-function form to 1e-8 "
              "relative (1e-6 for iterative solvers).")
LEVEL_NOTE = ("The reference is xitorch itself on the pure-function form (whose correctness is the subject of C03-C08, C12-C17); "
              "only the parameter plumbing differs between the two runs. Trusts torch.autograd.")
RULE = ("full product functional x representation, with leaf-derivation {leaf, derived non-leaf} (non-leaf only where the representation "
        "can hold non-Parameters), a seeded requires-grad mask over the three leaves (at least one True), dimension d in {2,3,4,7} (7 > 5 makes the implicit backward use a Krylov solver through the Jacobian operator); "
        "non-trivial = the representation differs from 'pure', both runs returned, at least one first-order and one second-order "
        "leaf gradient was non-zero and compared")
RULE += ('; group r6 (vf/c09_r6.py): solve_ivp with a tuple / list state (two components of different shapes) for 17 representations x 5 methods, '
         'initial state requiring grad or not; an nn.Module OBJECT as the callable (directly or through make_sibling) with no hook / weight-norm style '
         'forward pre-hook / output-transforming forward hook / both, 11 functionals, optional in-place step on g before the call')
RULE += ('; group history (vf/c09_extra.py): sibling made once and reused after requires_grad flags changed (3 stages), failing call followed by a normal one, holders rebound between two calls with one backward through both')
MIN_NONTRIVIAL = {"quick": 900, "thorough": 5000}
ASSUMPTIONS = ["contractive / convex problem families (|s|<=0.5, |W|~0.5) so every iterative method converges to 1e-11",
               "mh sampler: both runs start from the same torch seed (forward and backward), so they see the same chain",
               "tolerances: 1e-8 relative to the gradient scale for direct functionals, 1e-6 for iterative ones "
               "(their stopping tolerance is 1e-11)"]
BUDGET = {"quick": {"worker_timeout": 900, "case_timeout": 180}, "thorough": {"worker_timeout": 3300, "case_timeout": 300}}
REQUIRED_COUNTERS = {"quick": {"ivp_seqstate_compared": 25, "ivp_seqstate_y0_requires_grad": 5, "module_object_compared": 40, "module_object_hook_runs": 500, "sibling_rebind_compared": 15, "repeat_backward_compared": 60, "extra_shared_object_compared": 20, "late_backward_compared": 30, "history_grad2_compared": 150, "abort_reuse_compared": 40, "refreeze_stages": 100, "second_order_compared": 1500, "objparams_substitutions": 5000},
                     "thorough": {"ivp_seqstate_compared": 300, "ivp_seqstate_y0_requires_grad": 80, "module_object_compared": 200, "module_object_hook_runs": 3000, "sibling_rebind_compared": 150, "repeat_backward_compared": 240, "extra_shared_object_compared": 200, "late_backward_compared": 300, "history_grad2_compared": 1500, "abort_reuse_compared": 400, "refreeze_stages": 1000, "second_order_compared": 9000, "objparams_substitutions": 30000}}

FNAMES = list(funcs.FUNCTIONALS) + ["mcquad:mh"]


def cases(seed, tier):
    out = []
    k = 0
    reps_per = 4 if tier == "quick" else 24
    for fname in FNAMES:
        for rep in funcs.REPS:
            if rep == "pure":
                continue
            for r in range(reps_per):
                rng = random.Random(sub_seed(seed, "c09", fname, rep, r))
                derived = (rep not in funcs.NN_REPS) and rng.random() < 0.6
                rg = [rng.random() < 0.75 for _ in range(3)]
                if not any(rg):
                    rg[rng.randrange(3)] = True
                if tier == "quick" and r == 0:
                    rg = [True, True, True] if rng.random() < 0.5 else rg
                out.append({"group": fname.split(":")[0], "functional": fname, "rep": rep, "derived": bool(derived), "rg": [int(x) for x in rg],
                            "d": rng.choice([2, 3, 4, 7]), "s": rng.choice([0.3, 0.4, 0.5]),
                            "seed": sub_seed(seed, "c09s", k)})
                k += 1
    # metamorphic relations of the backward pass that need no reference model: linearity in the cotangent (incl. tiny, exactly cancelling
    # and zero cotangents) and the double-backward Jacobian-vector product against a central finite difference of the forward
    for fname in funcs.FUNCTIONALS:
        for rep in ("pure", "em_flat", "nn_nested", "pure_nontensor"):
            for r in range(1 if tier == "quick" else 4):
                rng = random.Random(sub_seed(seed, "c09mm", fname, rep, r))
                out.append({"group": "meta", "functional": fname, "rep": rep, "derived": rep == "em_flat" and r % 2 == 1, "rg": [1, 1, 1],
                            "d": rng.choice([2, 3, 7]), "s": 0.4, "seed": sub_seed(seed, "c09s", k)})
                k += 1
    # histories on ONE object: the functional is called, the object's containers are rebound to freshly derived tensors (what every
    # training-loop iteration does), and the functional is called again - the second call must still see the object's current tensors
    for fname in funcs.FUNCTIONALS:
        for holder in ("list", "dict", "subobject", "nnmodule", "attribute"):
            for r in range(1 if tier == "quick" else 4):
                rng = random.Random(sub_seed(seed, "c09rb", fname, holder, r))
                out.append({"group": "rebind", "functional": fname, "rep": "rebind_" + holder, "holder": holder, "derived": True, "rg": [1, 1, 1],
                            "d": rng.choice([2, 3, 7]), "s": 0.4, "ncalls_before": rng.choice([1, 2]), "seed": sub_seed(seed, "c09s", k)})
                k += 1
    # histories: a sibling made once and reused after requires_grad flags changed; a failed call followed by a normal one
    from vf import c09_extra
    out.extend(c09_extra.cases(seed, tier))
    # round 6: solve_ivp with tuple / list states for every representation; an nn.Module OBJECT (with forward pre-hooks / hooks) as the callable
    from vf import c09_r6
    out.extend(c09_r6.cases(seed, tier))
    # mcquad takes TWO functions: f and log p as methods of one object sharing a tensor (monitor of vf/c16_extra.py: explicit weighted mean on
    # the same leaves)
    from vf import c16_extra
    out.extend(dict(d, group="mc_shared") for d in c16_extra.cases(seed, tier) if d.get("kind") == "shared_obj")
    return out


class SubstCounter(object):
    """counts how often xitorch substituted object tensors (PureFunction.set_objparams with non-identical tensors)"""

    def __init__(self):
        self.n = 0

    def __enter__(self):
        import xitorch._core.pure_function as pf
        self._pf = pf
        self._orig = pf.PureFunction.set_objparams
        outer = self

        def set_objparams(this, objparams):
            if not pf._check_identical_objs(objparams, this._cur_objparams):
                outer.n += 1
            return outer._orig(this, objparams)
        pf.PureFunction.set_objparams = set_objparams
        return self

    def __exit__(self, *a):
        self._pf.PureFunction.set_objparams = self._orig


def _run_side(fname, rep, leaves, derived, s, d, dtype, seed):
    """returns (outputs list, leaves list in LEAF_NAMES order [+ p leaves])"""
    if fname.startswith("mcquad"):
        tg = torch.Generator().manual_seed(seed + 17)
        pleaves_src = getattr(_run_side, "_pl", None)
        eff = funcs.effective(leaves["f"], derived)
        effp = funcs.effective(leaves["p"], derived)
        bf = funcs.build(rep, funcs.core_mcf, 1, eff, s)
        bp = funcs.build(rep if rep != "jit" else "pure", funcs.core_logp, 1, effp, s)
        out = funcs.run_mcquad(bf, bp, d, dtype, "mh", seed)
        return [out], [leaves["f"][k] for k in funcs.LEAF_NAMES] + [leaves["p"][k] for k in funcs.LEAF_NAMES]
    F = funcs.FUNCTIONALS[fname]
    eff = funcs.effective(leaves, derived)
    built = funcs.build(rep, F.core, F.nlead, eff, s)
    out = F.run(built, d, dtype, None)
    outs = list(out) if isinstance(out, (tuple, list)) else [out]
    return outs, [leaves[k] for k in funcs.LEAF_NAMES]


def _grads(outs, leaves, cots, cots2, seed, is_mc):
    """first- and second-order contractions; None -> zeros"""
    L = sum((o * c).sum() for o, c in zip(outs, cots))
    req = [l for l in leaves if l.requires_grad]
    if is_mc:
        torch.manual_seed(seed + 1)
    g = torch.autograd.grad(L, req, create_graph=True, allow_unused=True)
    g1 = [torch.zeros_like(l) if gi is None else gi for gi, l in zip(g, req)]
    L2 = sum((gi * c).sum() for gi, c in zip(g1, cots2) if gi.requires_grad)
    if isinstance(L2, torch.Tensor) and L2.requires_grad:
        if is_mc:
            torch.manual_seed(seed + 2)
        gg = torch.autograd.grad(L2, req, allow_unused=True)
        g2 = [torch.zeros_like(l) if gi is None else gi for gi, l in zip(gg, req)]
    else:
        g2 = None
    return [x.detach() for x in g1], (None if g2 is None else [x.detach() for x in g2])


def _rebind_object(holder, core, nlead, s):
    """an EditableModule keeping its three tensors in the given kind of holder, with a method to rebind the holders"""
    import xitorch

    class Sub(object):
        pass

    class Mod(torch.nn.Module):
        pass

    class E(xitorch.EditableModule):
        def rebind(self, a, b, W):
            if holder == "list":
                self.h = [a, b, W]
            elif holder == "dict":
                self.h = {"a": a, "b": b, "W": W}
            elif holder == "subobject":
                self.h = Sub()
                self.h.a, self.h.b, self.h.W = a, b, W
            elif holder == "nnmodule":
                self.h = Mod()
                # non-leaf tensors are plain attributes of the module; leaves would be Parameters
                self.h.a, self.h.b, self.h.W = a, b, W
            else:
                self.a, self.b, self.W = a, b, W

        def get(self):
            if holder == "list":
                return self.h[0], self.h[1], self.h[2]
            if holder == "dict":
                return self.h["a"], self.h["b"], self.h["W"]
            if holder in ("subobject", "nnmodule"):
                return self.h.a, self.h.b, self.h.W
            return self.a, self.b, self.W

        def fwd(self, *lead):
            a, b, W = self.get()
            return core(*lead, a, b, W, s)

        def getparamnames(self, methodname, prefix=""):
            if methodname != "fwd":
                raise KeyError(methodname)
            names = {"list": ["h[0]", "h[1]", "h[2]"], "dict": ["h['a']", "h['b']", "h['W']"], "subobject": ["h.a", "h.b", "h.W"],
                     "nnmodule": ["h.a", "h.b", "h.W"], "attribute": ["a", "b", "W"]}[holder]
            return [prefix + n for n in names]
    return E()


def run_rebind(desc):
    obs = Obs(desc)
    fname, holder, d, s = desc["functional"], desc["holder"], desc["d"], desc["s"]
    dtype = torch.float64
    tg = torch.Generator().manual_seed(desc["seed"])
    F = funcs.FUNCTIONALS[fname]
    lv_ref = funcs.make_leaves(d, tg, dtype)
    lv_rep = funcs.clone_leaves(lv_ref)
    mech = "%s:rebind_%s" % (fname, holder)
    tol = 1e-6 if F.iterative else 1e-8
    # reference: pure function on the final derived tensors
    try:
        with WarnLog():
            built_ref = funcs.build("pure", F.core, F.nlead, funcs.effective(lv_ref, True), s)
            out_ref = F.run(built_ref, d, dtype, None)
            outs_ref = list(out_ref) if isinstance(out_ref, (tuple, list)) else [out_ref]
    except Exception as e:
        raise HarnessBug("reference (pure function) run failed for %s: %s: %s" % (fname, type(e).__name__, e))
    obj = _rebind_object(holder, F.core, F.nlead, s)
    built = funcs.Built(obj.fwd, (), [("e", obj)], ())
    try:
        with WarnLog():
            for i in range(desc["ncalls_before"]):
                # earlier iterations: other derived tensors (a perturbed derivation), results dropped
                a, b, W = funcs.effective(lv_rep, True)
                obj.rebind(a * (1.0 + 0.1 * (i + 1)), b + 0.05, W * 0.9)
                o = F.run(built, d, dtype, None)
                oo = list(o) if isinstance(o, (tuple, list)) else [o]
                g0 = torch.autograd.grad(sum(x.sum() for x in oo), [lv_rep[k] for k in funcs.LEAF_NAMES], allow_unused=True)
                del o, oo, g0
            # the iteration that is compared: containers rebound to the tensors derived from the current leaves
            obj.rebind(*funcs.effective(lv_rep, True))
            out = F.run(built, d, dtype, None)
            outs = list(out) if isinstance(out, (tuple, list)) else [out]
    except Exception as e:
        obs.exc_violation("forward:" + mech, e)
        obs.nontrivial = True
        return obs.result()
    scale = max(1.0, max(float(o.detach().abs().max()) for o in outs_ref))
    verr = max(float((a.detach() - b.detach()).abs().max()) for a, b in zip(outs_ref, outs))
    obs.check(verr <= tol * scale, "value:" + mech, "value after rebinding the object's containers differs from the pure-function form by %.3e" % verr)
    cots = [torch.randn(o.shape, generator=tg, dtype=dtype) for o in outs_ref]
    leaves_ref = [lv_ref[k] for k in funcs.LEAF_NAMES]
    leaves_rep = [lv_rep[k] for k in funcs.LEAF_NAMES]
    cots2 = [torch.randn(l.shape, generator=tg, dtype=dtype) for l in leaves_ref]
    try:
        g1_ref, g2_ref = _grads(outs_ref, leaves_ref, cots, cots2, desc["seed"], False)
    except Exception as e:
        raise HarnessBug("reference backward failed for %s: %s: %s" % (fname, type(e).__name__, e))
    try:
        g1, g2 = _grads(outs, leaves_rep, cots, cots2, desc["seed"], False)
    except Exception as e:
        obs.exc_violation("backward:" + mech, e)
        obs.nontrivial = True
        return obs.result()
    gs = max(1.0, max(float(g.abs().max()) for g in g1_ref))
    for n, a, b in zip(funcs.LEAF_NAMES, g1_ref, g1):
        err = float((a - b).abs().max())
        obs.check(err <= tol * gs, "grad1:" + mech, "first-order gradient w.r.t. leaf %s differs by %.3e after the containers were rebound" % (n, err), leaf=n)
    obs.count("first_order_compared", 3)
    if g2_ref is not None and g2 is not None:
        gs2 = max(1.0, max(float(g.abs().max()) for g in g2_ref))
        for n, a, b in zip(funcs.LEAF_NAMES, g2_ref, g2):
            err = float((a - b).abs().max())
            obs.check(err <= 10 * tol * gs2, "grad2:" + mech, "second-order gradient w.r.t. leaf %s differs by %.3e after the containers were rebound" % (n, err), leaf=n)
        obs.count("second_order_compared", 3)
    else:
        obs.check((g2_ref is None) == (g2 is None), "grad2_presence:" + mech, "second-order graph present for one side only")
    obs.count("rebind_histories")
    obs.nontrivial = True
    return obs.result()


def run_meta(desc):
    obs = Obs(desc)
    fname, rep, d, s = desc["functional"], desc["rep"], desc["d"], desc["s"]
    dtype = torch.float64
    tg = torch.Generator().manual_seed(desc["seed"])
    F = funcs.FUNCTIONALS[fname]
    lv0 = funcs.make_leaves(d, tg, dtype)
    mech = "%s:%s" % (fname, rep)

    # the implicit backward of the optimisers solves a linear system: an absolute tolerance far below the tiny cotangent is requested
    # (with the default atol=1e-8 a cotangent of 1e-10 is legitimately answered by zero)
    extra = {"bck_options": {"rtol": 1e-10, "atol": 1e-30}} if fname.split(":")[0] in ("rootfinder", "equilibrium", "minimize") else None

    def forward(lv):
        built = funcs.build(rep, F.core, F.nlead, funcs.effective(lv, desc["derived"]), s)
        out = F.run(built, d, dtype, extra)
        return list(out) if isinstance(out, (tuple, list)) else [out]

    def grad_for(cots):
        lv = funcs.clone_leaves(lv0)
        outs = forward(lv)
        L = sum((o * c).sum() for o, c in zip(outs, cots))
        leaves = [lv[k] for k in funcs.LEAF_NAMES]
        if not (isinstance(L, torch.Tensor) and L.requires_grad):
            return [torch.zeros_like(l) for l in leaves]
        g = torch.autograd.grad(L, leaves, allow_unused=True)
        return [torch.zeros_like(l) if gi is None else gi.detach() for gi, l in zip(g, leaves)]
    try:
        with WarnLog():
            outs0 = [o.detach() for o in forward(funcs.clone_leaves(lv0))]
            C1 = [torch.randn(o.shape, generator=tg, dtype=dtype) for o in outs0]
            C2 = [torch.randn(o.shape, generator=tg, dtype=dtype) for o in outs0]
            g1, g2 = grad_for(C1), grad_for(C2)
            sc = max(1.0, max(float(x.abs().max()) for x in g1 + g2))
            # adaptive integrators choose the steps of the backward (augmented) integration from the cotangent itself: linearity in the
            # cotangent holds up to their tolerance (rtol=1e-8 here) only, as for the iterative solvers
            tol = 1e-6 if (F.iterative or fname in ("solve_ivp:rk45", "solve_ivp:rk23")) else 1e-9
            # (a) linear combination
            g12 = grad_for([0.7 * a - 1.3 * b for a, b in zip(C1, C2)])
            err = max(float((x - (0.7 * a - 1.3 * b)).abs().max()) for x, a, b in zip(g12, g1, g2))
            obs.check(err <= tol * sc, "cot_linear:" + mech, "backward is not linear in the cotangent: g(0.7 C1 - 1.3 C2) differs from 0.7 g(C1) - 1.3 g(C2) by %.3e" % err)
            # (b) tiny cotangent (scale 1e-10): the gradient must scale with it (relative comparison)
            gt = grad_for([1e-10 * a for a in C1])
            err = max(float((x * 1e10 - a).abs().max()) for x, a in zip(gt, g1))
            obs.check(err <= max(tol, 1e-5) * sc, "cot_tiny:" + mech, "g(1e-10 C) * 1e10 differs from g(C) by %.3e (scale %.2e)" % (err, sc))
            # (c) a cotangent whose entries cancel exactly (sum == 0) = difference of two one-sided cotangents
            Ca = [torch.zeros_like(o) for o in outs0]
            Cb = [torch.zeros_like(o) for o in outs0]
            flat = outs0[0].reshape(-1)
            if flat.numel() >= 2:
                # the last two entries (for a trajectory: two components at the SAME, final time), so the cancellation is local
                Ca[0].reshape(-1)[flat.numel() - 1] = 1.0
                Cb[0].reshape(-1)[flat.numel() - 2] = 1.0
                ga, gb = grad_for(Ca), grad_for(Cb)
                gc = grad_for([a - b for a, b in zip(Ca, Cb)])
                err = max(float((x - (a - b)).abs().max()) for x, a, b in zip(gc, ga, gb))
                obs.check(err <= tol * max(1.0, max(float(x.abs().max()) for x in ga + gb)), "cot_cancel:" + mech,
                          "g(e_last - e_before_last) differs from g(e_last) - g(e_before_last) by %.3e (cotangent whose entries cancel exactly)" % err)
            # (c') several backward passes through ONE graph (retain_graph): every pass gives what the first one gives
            lvr = funcs.clone_leaves(lv0)
            outs_r = forward(lvr)
            Lr = sum((o * c_).sum() for o, c_ in zip(outs_r, C1))
            leaves_r = [lvr[k] for k in funcs.LEAF_NAMES]
            if isinstance(Lr, torch.Tensor) and Lr.requires_grad:
                passes = [torch.autograd.grad(Lr, leaves_r, retain_graph=True, allow_unused=True) for _ in range(3)]
                for kpass in (1, 2):
                    err = max(float(((a if a is not None else torch.zeros_like(l)) - (b if b is not None else torch.zeros_like(l))).abs().max())
                              for a, b, l in zip(passes[kpass], passes[0], leaves_r))
                    obs.check(err <= 1e-12 * sc, "repeat_backward:" + mech, "backward pass number %d through the same graph differs from the first one by %.3e" % (kpass + 1, err))
                obs.count("repeat_backward_compared")
            # (d) zero cotangent -> zero gradient
            gz = grad_for([torch.zeros_like(o) for o in outs0])
            obs.check(all(float(x.abs().max()) == 0.0 for x in gz), "cot_zero:" + mech, "a zero cotangent gives a non-zero gradient")
            # (e) Jacobian-vector product by the double-backward trick (first-level cotangent exactly zero) vs central finite difference
            lv = funcs.clone_leaves(lv0)
            outs = forward(lv)
            leaves = [lv[k] for k in funcs.LEAF_NAMES]
            vs = [torch.zeros_like(o).requires_grad_() for o in outs]
            U = [torch.randn(l.shape, generator=tg, dtype=dtype) for l in leaves]
            g = torch.autograd.grad(outs, leaves, grad_outputs=vs, create_graph=True, allow_unused=True)
            have = [(gi, u) for gi, u in zip(g, U) if gi is not None and gi.requires_grad]
            jvp = torch.autograd.grad([gi for gi, _ in have], vs, grad_outputs=[u for _, u in have], allow_unused=True) if have else [None] * len(vs)
            jvp = [torch.zeros_like(o) if j is None else j.detach() for j, o in zip(jvp, outs)]
            eps = 1e-5
            lp = {k: torch.nn.Parameter(lv0[k].detach() + eps * u) for k, u in zip(funcs.LEAF_NAMES, U)}
            lm = {k: torch.nn.Parameter(lv0[k].detach() - eps * u) for k, u in zip(funcs.LEAF_NAMES, U)}
            with torch.no_grad():
                yp = [o.detach() for o in forward(lp)]
                ym = [o.detach() for o in forward(lm)]
            fd = [(a - b) / (2 * eps) for a, b in zip(yp, ym)]
            jsc = max(1.0, max(float(x.abs().max()) for x in fd))
            err = max(float((a - b).abs().max()) for a, b in zip(jvp, fd))
            # solve_ivp differentiates the continuous problem with the (backward) integrator: its gradient equals the derivative of the
            # discrete forward only up to the discretisation error of the method on this coarse grid
            # (and the finite difference of a forward that is only converged to its default tolerance 1e-6 is not usable: skipped)
            jtol = {"solve_ivp:euler": None, "solve_ivp:rk4": 5e-3, "solve_ivp:rk38": 5e-3, "solve_ivp:rk23": 1e-4, "solve_ivp:rk45": 1e-5,
                    "rootfinder:default": None, "minimize:gd": 2e-3}.get(fname, 2e-4 if F.iterative else 1e-6)
            obs.check(jtol is None or err <= jtol * jsc, "jvp_trick:" + mech,
                      "Jacobian-vector product by double backward (zero first-level cotangent) differs from the central finite difference of the forward by %.3e (scale %.2e)" % (err, jsc))
            # (f) Hessian-vector product of a loss that is NONLINEAR in the output (the cotangent then depends on the leaves) by double
            # backward vs central finite difference of the first-order gradient
            def nl_grad(lvx, create):
                o = forward(lvx)
                Lnl = sum(torch.exp(0.3 * x).sum() + 0.5 * (x * x).sum() for x in o)
                lvs = [lvx[k] for k in funcs.LEAF_NAMES]
                gx = torch.autograd.grad(Lnl, lvs, create_graph=create, allow_unused=True)
                return [torch.zeros_like(l) if gi is None else gi for gi, l in zip(gx, lvs)], lvs
            if jtol is not None:
                lvh = funcs.clone_leaves(lv0)
                gh, lvs = nl_grad(lvh, True)
                Hs = sum((gi * u).sum() for gi, u in zip(gh, U) if gi.requires_grad)
                hv = torch.autograd.grad(Hs, lvs, allow_unused=True) if isinstance(Hs, torch.Tensor) and Hs.requires_grad else [None] * len(lvs)
                hv = [torch.zeros_like(l) if h is None else h.detach() for h, l in zip(hv, lvs)]
                gp, _ = nl_grad(lp, False)
                gm, _ = nl_grad(lm, False)
                hfd = [(a.detach() - b.detach()) / (2 * eps) for a, b in zip(gp, gm)]
                hsc = max(1.0, max(float(x.abs().max()) for x in hfd))
                err = max(float((a - b).abs().max()) for a, b in zip(hv, hfd))
                obs.check(err <= 20 * jtol * hsc, "hvp_nonlinear_loss:" + mech,
                          "Hessian-vector product of a loss nonlinear in the output (double backward) differs from the finite difference of the gradient by %.3e (scale %.2e)" % (err, hsc))
    except Exception as e:
        from vf.common import last_repo_frame
        if last_repo_frame(e.__traceback__) is None and not isinstance(e, RuntimeError):
            raise
        obs.exc_violation("meta:" + mech, e)
        obs.nontrivial = True
        return obs.result()
    obs.count("metamorphic_relations_checked", 6)
    obs.nontrivial = True
    return obs.result()


def run_case(desc):
    if desc.get("group") == "meta":
        return run_meta(desc)
    if desc.get("group") == "rebind":
        return run_rebind(desc)
    if desc.get("group") == "history":
        from vf import c09_extra
        return c09_extra.run_case(desc)
    if desc.get("group") == "r6":
        from vf import c09_r6
        return c09_r6.run_case(desc)
    if desc.get("group") == "mc_shared":
        from vf import c16_extra
        return c16_extra.run_shared(desc)
    obs = Obs(desc)
    fname, rep, derived, d, s = desc["functional"], desc["rep"], desc["derived"], desc["d"], desc["s"]
    dtype = torch.float64
    tg = torch.Generator().manual_seed(desc["seed"])
    is_mc = fname.startswith("mcquad")
    rg = tuple(bool(x) for x in desc["rg"])
    if is_mc:
        lv_ref = {"f": funcs.make_leaves(d, tg, dtype, rg), "p": funcs.make_leaves(d, tg, dtype, rg)}
        lv_rep = {k: funcs.clone_leaves(v) for k, v in lv_ref.items()}
    else:
        lv_ref = funcs.make_leaves(d, tg, dtype, rg)
        lv_rep = funcs.clone_leaves(lv_ref)
    iterative = (not is_mc) and funcs.FUNCTIONALS[fname].iterative
    tol = 1e-6 if iterative else 1e-8
    mech = "%s:%s%s" % (fname, rep, ":derived" if derived else "")

    # ---- reference: explicit-parameter pure function
    try:
        with WarnLog() as wl_ref:
            outs_ref, leaves_ref = _run_side(fname, "pure", lv_ref, derived, s, d, dtype, desc["seed"])
    except Exception as e:  # the pure form is not what this property is about
        raise HarnessBug("reference (pure function) run failed for %s: %s: %s" % (fname, type(e).__name__, e))
    # ---- the representation under test
    with SubstCounter() as sc:
        try:
            with WarnLog() as wl_rep:
                outs_rep, leaves_rep = _run_side(fname, rep, lv_rep, derived, s, d, dtype, desc["seed"])
        except Exception as e:
            obs.exc_violation("forward:%s" % mech, e)
            obs.nontrivial = True
            return obs.result()
        obs.count("functional_%s" % fname.split(":")[0])
        obs.count("rep_%s" % rep)
        # ---- values
        ok_shape = len(outs_ref) == len(outs_rep) and all(a.shape == b.shape for a, b in zip(outs_ref, outs_rep))
        obs.check(ok_shape, "value_shape:%s" % mech, "output structure differs: %s vs %s" % ([tuple(o.shape) for o in outs_rep], [tuple(o.shape) for o in outs_ref]))
        if not ok_shape:
            obs.nontrivial = True
            return obs.result()
        scale = max(1.0, max(float(o.detach().abs().max()) for o in outs_ref))
        verr = max(float((a.detach() - b.detach()).abs().max()) for a, b in zip(outs_ref, outs_rep))
        obs.check(verr <= tol * scale, "value:%s" % mech, "value differs from the pure-function form by %.3e (scale %.2e)" % (verr, scale))
        obs.check(bool(wl_ref.convergence) == bool(wl_rep.convergence), "warning:%s" % mech,
                  "convergence warnings differ: pure %s, representation %s" % (wl_ref.convergence[:1], wl_rep.convergence[:1]))
        # ---- gradients
        cots = [torch.randn(o.shape, generator=tg, dtype=dtype) for o in outs_ref]
        nreq = sum(1 for l in leaves_ref if l.requires_grad)
        cots2 = [torch.randn(l.shape, generator=tg, dtype=dtype) for l in leaves_ref if l.requires_grad]
        try:
            g1_ref, g2_ref = _grads(outs_ref, leaves_ref, cots, cots2, desc["seed"], is_mc)
        except Exception as e:
            raise HarnessBug("reference (pure function) backward failed for %s: %s: %s" % (fname, type(e).__name__, e))
        try:
            g1_rep, g2_rep = _grads(outs_rep, leaves_rep, cots, cots2, desc["seed"], is_mc)
        except Exception as e:
            obs.exc_violation("backward:%s" % mech, e)
            obs.nontrivial = True
            return obs.result()
    obs.count("objparams_substitutions", sc.n)
    names = [n for n, l in zip(list(funcs.LEAF_NAMES) * 2, leaves_ref) if l.requires_grad]
    gscale = max(1.0, max(float(g.abs().max()) for g in g1_ref))
    nz1 = any(float(g.abs().max()) > 1e-12 for g in g1_ref)
    for n, a, b in zip(names, g1_ref, g1_rep):
        err = float((a - b).abs().max())
        obs.check(err <= tol * gscale, "grad1:%s" % mech, "first-order gradient w.r.t. leaf %s differs by %.3e (scale %.2e)" % (n, err, gscale), leaf=n)
    obs.count("first_order_compared", len(names))
    nz2 = False
    obs.check((g2_ref is None) == (g2_rep is None), "grad2_presence:%s" % mech,
              "second-order graph %s for the pure form but %s for the representation" % ("absent" if g2_ref is None else "present",
                                                                                        "absent" if g2_rep is None else "present"))
    if g2_ref is not None and g2_rep is not None:
        g2scale = max(1.0, max(float(g.abs().max()) for g in g2_ref))
        nz2 = any(float(g.abs().max()) > 1e-12 for g in g2_ref)
        for n, a, b in zip(names, g2_ref, g2_rep):
            err = float((a - b).abs().max())
            obs.check(err <= 10 * tol * g2scale, "grad2:%s" % mech, "second-order gradient w.r.t. leaf %s differs by %.3e (scale %.2e)" % (n, err, g2scale), leaf=n)
        obs.count("second_order_compared", len(names))
    obs.note(value_err=verr, nleaves=nreq, substitutions=sc.n)
    obs.nontrivial = nz1 and nz2
    return obs.result()
