"""C13 - quad gradients in parameters and limits (reference-model monitor: derivative of the SAME discrete rule in plain torch,
Leibniz terms at the limits, first and second order)."""
import math
import random

import torch

from vf.common import Obs, sub_seed, WarnLog, HarnessBug

LEVEL = "exploration"
TECHNIQUE = ("runtime reference-model monitor: autograd gradients of quad (first order and Hessian-vector products through the graph-recording "
             "backward) against a plain-torch re-implementation of the same n-point rule with scipy nodes (n of the forward call or of "
             "bck_options), Leibniz boundary terms +f(xu)/-f(xl) evaluated directly on the integrand")
LEVEL_TEXT = ("Held on every generated call of the run: 17 integrand families (incl. integrands linear in a parameter, tuple outputs, decaying "
              "integrands on infinite ranges, and 8 multi-element integrands whose output shape follows the abscissa - stack / cat / outer "
              "product along the first or last axis - under every pair of limit forms number / 0-dim / shape (1,)) x functions / nn.Module / EditableModule methods with and without a parameter the integrand "
              "does not use x forward n in {2,3,5,7,20,100,default} x bck_options {absent, {}, other n} x limits as python floats / ints / "
              "tensors with and without requires_grad (also float32 tensors with the float64 integrand) / +-inf x random subsets of grad-requiring tensors (incl. none) x first and second order "
              "(mixed limit/parameter terms); every gradient agrees with the reference to 1e-11 (relative to max(1,|ref|)); tensors that do "
              "not influence the integrand get zero or None.")
LEVEL_NOTE = ("float64 integrands only (a tensor limit may be float32; the opposite pairing is not generated); the reference assumes the x=tan(t) substitution for infinite limits (named in the property's anchors); "
              "infinite limits are gradient leaves only in first-order cases (d/dx of exp(-x^2) at inf is 0*inf in any autograd).")
RULE = ("seeded sampling over family x function kind x n x bck_options x limit forms x grad-requiring subset x order, plus stratified "
        "directed classes (number limits, no grad-requiring parameter, small n without/with bck_options, unused parameter, second order of "
        "integrands linear in a parameter, output shape following the abscissa x all 25 pairs of limit forms x order); non-trivial = forward and all requested backward passes returned, every leaf was compared, and "
        "at least one leaf has a reference gradient above 1e-6")
MIN_NONTRIVIAL = {"quick": 1800, "thorough": 18000}
ASSUMPTIONS = [
    "float64; finite limits in [-2.5, 3.5] with |xu-xl| in [0.3, 2.5] (both orientations); parameters: rates/widths 0.3..2, offsets N(0,0.7)",
    "comparison tolerance 1e-11*max(1,|reference|) per leaf (largest deviation seen on the repaired tree: see evidence samples; >= 100x margin); "
    "the mutations tried change a gradient by >= 1e-6 relative in the cases counted as rule_discriminates",
    "option propagation is decided only by cases whose reference with the intended n differs from the n=100 reference by > 1e-7 "
    "(counter rule_discriminates); the other cases cannot tell the two rules apart and say so",
    "infinite limits: Gaussian and exponential decay only (f(+-inf) = 0 exactly); an infinite limit requires grad only in first-order cases",
    "a tensor that does not influence the integrand may get None or zeros (both accepted)",
    "a tensor limit of another precision: float32 limit (0-dim, or shape (1,) with parameters that have a dimension) with a float64 integrand; "
    "the gradient returned for such a leaf is rounded to float32 by autograd, so it is compared to 1e-5*max(1,|reference|) (largest deviation "
    "seen 6e-3 of that); the Hessian-vector directions of such leaves are float32-representable and every other leaf keeps 1e-11",
    "integrands whose output shape follows the abscissa: the result is compared element by element in row-major order (its shape, which follows "
    "the upper limit's, is not part of the statement); these families are used on finite ranges only",
]
BUDGET = {"quick": {"worker_timeout": 900, "case_timeout": 120}, "thorough": {"worker_timeout": 3300, "case_timeout": 300}}
_REQ = {"extra_late_rebind_histories": 20, "extra_abort_injected": 20, "number_limit_cases": 400, "no_grad_param_cases": 100, "unused_param_cases": 400, "bck_n_cases": 500, "rule_discriminates": 250,
        "second_order_cases": 350, "second_order_linear_param": 200, "inf_limit_cases": 100, "limit_leaf_compared": 700,
        "param_leaf_compared": 1500, "kind_func": 250, "kind_nnmod": 250, "kind_editmod": 250, "tuple_output_cases": 80,
        "mixed_second_order_terms": 300, "mixed_shape_limit_cases": 200,
        # integrands whose output shape follows the abscissa (stack / cat / outer product): reached at all, with a limit LEAF whose shape is not
        # that of the other limit (lower / upper), the same at second order, and with a python number as a limit
        "outshape_cases": 300, "outshape_xl_leaf_other_shape": 60, "outshape_xu_leaf_other_shape": 60,
        "outshape_other_shape_second_order": 40, "outshape_number_limit": 100,
        # a float32 tensor limit with a float64 integrand: reached, as a gradient leaf, as a gradient leaf at second order
        "lim32_cases": 100, "lim32_leaf_cases": 60, "lim32_leaf_second_order": 40}
REQUIRED_COUNTERS = {"quick": dict(_REQ), "thorough": {k: 10 * v for k, v in _REQ.items()}}
INF = float("inf")
RTOL = 1e-11
RTOL32 = 1e-5      # gradient returned for a float32 leaf (a limit of another precision): rounded to float32 (6e-8 relative) by autograd

FAMS = {
    # name: (parameter names, {name: kind of value}, formula)
    "expax": (["a"], lambda x, P: torch.exp(P["a"] * x)),
    "sinab": (["a", "b"], lambda x, P: torch.sin(P["a"] * x + P["b"])),
    "rat": (["a", "b"], lambda x, P: 1 / (1 + (P["a"] * x) ** 2) + P["b"] * x),
    "linamp": (["a", "b"], lambda x, P: P["a"] * torch.cos(x) + P["b"]),
    "lead": (["a", "b", "W"], lambda x, P: P["a"] * torch.sin(x * P["b"]) + 0.4 * x * torch.matmul(P["W"], P["a"])),
    "scalar": (["a", "b"], lambda x, P: P["a"] * torch.exp(-P["b"] * x * x)),
    "tuple": (["a", "b"], lambda x, P: (torch.cos(P["a"] * x + P["b"]), P["b"] * torch.sin(P["a"] * x))),
    "gauss": (["amp", "mu", "w"], lambda x, P: P["amp"] * torch.exp(-(x - P["mu"]) ** 2 / (2 * P["w"] * P["w"]))),
    "expdecay": (["amp", "lam"], lambda x, P: P["amp"] * torch.exp(-P["lam"] * x)),
}
FINITE_FAMS = ["expax", "sinab", "rat", "linamp", "lead", "scalar", "tuple", "gauss", "expdecay"]
LINEAR_IN = {"linamp": ["a", "b"], "lead": ["a"], "scalar": ["a"], "gauss": ["amp"], "expdecay": ["amp"], "rat": ["b"], "tuple": []}


# ---- integrands with SEVERAL output elements whose output SHAPE FOLLOWS THE ABSCISSA (x 0-dim -> (k,), x of shape (1,) -> (k,1) or (1,k), ...):
# the result y takes the shape of the integrand at the quadrature points (which follow xu), while the boundary terms of the backward evaluate
# the integrand at each limit as the caller gave it - so cotangent and f(limit) have the same elements in the same order but other shapes
def _moments(x, P):
    w = torch.exp(-P["a"] * x)
    return torch.stack([w, x * w + P["b"], x * x * w * P["b"]])


SHAPE_FAMS = {
    # stacked / concatenated along the FIRST axis: (k,) for a 0-dim x, (k, 1) for x of shape (1,)
    "moments": (["a", "b"], _moments),
    "cat0": (["a", "b"], lambda x, P: torch.cat([(P["a"] * x)[None], torch.exp(P["b"] * x)[None], (x * x)[None]], dim=0)),
    # along the LAST axis: (k,) / (1, k)
    "stacklast": (["a", "b"], lambda x, P: torch.stack([torch.sin(P["a"] * x + P["b"]), torch.cos(P["a"] * x) * P["b"], P["a"] * x * x, x], dim=-1)),
    "catlast": (["a", "b"], lambda x, P: torch.cat([torch.sin(P["a"] * x)[..., None], (P["b"] * x * x)[..., None],
                                                    torch.cos(x + P["b"])[..., None]], dim=-1)),
    # outer products of a vector parameter with a function of x: shape(a) + shape(x) resp. shape(x) + shape(a)
    "outer": (["a", "b"], lambda x, P: torch.tensordot(P["a"], torch.sin(P["b"] * x) + x, dims=0)),
    "outerlead": (["a", "b"], lambda x, P: P["a"] * torch.exp(P["b"] * x)[..., None]),
    # an extra singleton axis after the stacked one: (k, 1) / (k, 1, 1)
    "stackmid": (["a", "b"], lambda x, P: torch.stack([torch.cos(P["a"] * x), P["b"] * x, torch.sin(x * P["b"] + P["a"])])[:, None]),
    # tuple output with a stacked component
    "tuplestack": (["a", "b"], lambda x, P: (torch.stack([torch.cos(P["a"] * x + P["b"]), x * P["a"]]), P["b"] * torch.sin(P["a"] * x))),
}
SHAPE_FAM_NAMES = list(SHAPE_FAMS)
FAMS.update(SHAPE_FAMS)
LINEAR_IN.update({"moments": ["b"], "cat0": ["a"], "stacklast": [], "catlast": ["b"], "outer": ["a"], "outerlead": ["a"], "stackmid": [], "tuplestack": []})
PSHAPES = {"outer": {"a": [3]}, "outerlead": {"a": [3]}}          # per-name parameter shapes (default: the case's pshape)
OUT_FORMS = ["num", "t0", "t0g", "t1", "t1g"]
# ---- a limit given as a tensor of ANOTHER PRECISION (float32) than the (float64) integrand.  The integrand's precision is what torch's type
# promotion makes of integrand(xl): a 0-dim float32 x never lowers it; a float32 x of shape (1,) does not either if the float64 parameters it is
# combined with have a dimension (families below with pshape [1] / [3]).  run_case verifies this promise (HarnessBug otherwise).
LIM32_T1_FAMS = ["expax", "sinab", "rat", "linamp", "lead", "tuple", "gauss", "expdecay"]


def _lim32_safe(d, form):
    if form in ("t0", "t0g"):
        return True
    return form in ("t1", "t1g") and d["pshape"] in ([1], [3]) and d["fam"] in LIM32_T1_FAMS


def _set_lim32(d, want):
    ok = [w for w in ("xl", "xu") if _lim32_safe(d, d["f" + w])]
    leaf = [w for w in ok if d["f" + w].endswith("g")]
    d["lim32"] = [w for w in want if w in ok] or leaf[:1] or ok[:1]
KINDS = ["func", "func_unused", "nnmod", "nnmod_unused", "editmod", "editmod_unused"]
NFWD = [2, 3, 5, 7, 20, 100, None]
NBCK = [None, None, "empty", 3, 6, 11, 40]
FIN_FORMS = ["num", "t0", "t0g", "t1g", "t1", "int"]


# ------------------------------------------------------------------------------------------------ case generation
def _finite_limits(rng, fxl, fxu):
    if "int" in (fxl, fxu):
        a = rng.randint(-2, 2)
        b = a + rng.choice([-2, -1, 1, 2])
        return float(a), float(b)
    L = rng.uniform(0.3, 2.5)
    xl = rng.uniform(-2.0, 1.0)
    xu = xl + L
    if rng.random() < 0.35:
        xl, xu = xu, xl
    return round(xl, 6), round(xu, 6)


def _mk(rng, seed, tag, i, **force):
    d = {"group": force.pop("group", "random"), "seed": sub_seed(seed, "c13s", tag, i)}
    fam = force.get("fam") or (rng.choice(SHAPE_FAM_NAMES) if rng.random() < 0.2 else rng.choice(FINITE_FAMS))
    names = FAMS[fam][0]
    d["fam"] = fam
    d["kind"] = force.get("kind") or rng.choice(KINDS)
    d["n"] = force["n"] if "n" in force else rng.choice(NFWD)
    d["nb"] = force["nb"] if "nb" in force else rng.choice(NBCK)
    d["order"] = force.get("order") or rng.choice([1, 1, 2])
    d["pshape"] = rng.choice([[], [1], [3]]) if fam not in ("lead", "scalar") else ([3] if fam == "lead" else [])
    if fam in SHAPE_FAMS:
        d["pshape"] = []          # scalar parameters (a vector one where PSHAPES says so): the output shape is to follow x, not a parameter
    infinite = force.get("inf", fam in ("gauss", "expdecay") and rng.random() < 0.7)
    if infinite:
        rk = "upper" if fam == "expdecay" else rng.choice(["both", "lower", "upper"])
        a = round(rng.uniform(-1, 1), 6)
        fin_form = rng.choice(["num", "t0", "t0g", "t1g"])
        inf_form = rng.choice(["num", "t0", "t0g"]) if d["order"] == 1 else rng.choice(["num", "t0"])
        if rk == "both":
            d["xl"], d["xu"], d["fxl"], d["fxu"] = "-inf", "inf", inf_form, rng.choice(["num", "t0"])
        elif rk == "lower":
            d["xl"], d["xu"], d["fxl"], d["fxu"] = "-inf", a, inf_form, fin_form
        else:
            d["xl"], d["xu"], d["fxl"], d["fxu"] = a, "inf", fin_form, inf_form
        if rng.random() < 0.25:
            d["xl"], d["xu"], d["fxl"], d["fxu"] = d["xu"], d["xl"], d["fxu"], d["fxl"]
        if d["n"] is not None and d["n"] < 20 and "n" not in force:
            d["n"] = rng.choice([20, 100, None, 7])
    else:
        d["fxl"] = force.get("fxl") or rng.choice(FIN_FORMS)
        d["fxu"] = force.get("fxu") or rng.choice(FIN_FORMS)
        d["xl"], d["xu"] = _finite_limits(rng, d["fxl"], d["fxu"])
    # which parameters are held by the object, which require grad, which is a python number
    if d["kind"].startswith("func"):
        d["held"] = []
    else:
        k = rng.randint(1, len(names))
        d["held"] = sorted(rng.sample(names, k))
    if "req" in force:
        d["req"] = list(force["req"])
    else:
        d["req"] = sorted(nm for nm in names if rng.random() < 0.65)
    d["pyparam"] = None
    if fam in ("sinab", "rat", "tuple", "linamp") and "b" not in d["held"] and "b" not in d["req"] and rng.random() < 0.3:
        d["pyparam"] = "b"
    d["u_req"] = bool(d["kind"].endswith("_unused") and rng.random() < 0.85)
    limit_leaf = d["fxl"].endswith("g") or d["fxu"].endswith("g")
    if not d["req"] and not limit_leaf and not d["u_req"]:
        d["req"] = [rng.choice(names)]
        if d["pyparam"] in d["req"]:
            d["pyparam"] = None
    d["explicit_method"] = rng.random() < 0.3
    d["lim32"] = []
    if "lim32" in force:
        _set_lim32(d, force["lim32"])
    elif rng.random() < 0.06:
        _set_lim32(d, rng.choice([["xl"], ["xu"], ["xl", "xu"]]))
    return d


def cases(seed, tier):
    out = []
    quick = tier == "quick"
    mult = 4 if quick else 40
    N = 330 * mult
    for i in range(N):
        rng = random.Random(sub_seed(seed, "c13", i))
        out.append(_mk(rng, seed, "r", i))
    # ---- directed strata (each one re-establishes one of the mechanisms named in the design)
    k = 0
    for i in range(60 * mult):      # python-number limits, parameter gradients must work
        rng = random.Random(sub_seed(seed, "c13num", i))
        fx = [("num", "num"), ("num", "t0g"), ("t0g", "num"), ("int", "int"), ("num", "t0"), ("t1g", "num"), ("int", "t0g")][i % 7]
        fam = rng.choice(["expax", "sinab", "rat", "linamp", "lead", "scalar", "tuple"])
        names = FAMS[fam][0]
        out.append(_mk(rng, seed, "num", i, group="number_limits", fam=fam, fxl=fx[0], fxu=fx[1], inf=False,
                       req=sorted(set([rng.choice(names)] + [nm for nm in names if rng.random() < 0.5]))))
    for i in range(40 * mult):      # no grad-requiring parameter at all: limits only
        rng = random.Random(sub_seed(seed, "c13nop", i))
        fx = [("t0g", "t0g"), ("t0g", "t0"), ("t0", "t0g"), ("t1g", "t1g"), ("t0g", "num"), ("num", "t1g")][i % 6]
        out.append(_mk(rng, seed, "nop", i, group="limits_only", fam=rng.choice(["expax", "sinab", "rat", "scalar", "tuple", "lead"]),
                       kind=rng.choice(["func", "nnmod", "editmod"]), fxl=fx[0], fxu=fx[1], inf=False, req=[]))
    for i in range(90 * mult):      # the rule of the backward pass: small n, with and without bck_options
        rng = random.Random(sub_seed(seed, "c13opt", i))
        fam = rng.choice(["expax", "sinab", "rat", "lead", "scalar", "tuple"])
        names = FAMS[fam][0]
        out.append(_mk(rng, seed, "opt", i, group="options", fam=fam, n=[2, 3, 5, 2, 3, 100, None][i % 7], inf=False,
                       nb=[None, None, "empty", 3, 2, 3, 5][i % 7], fxl=rng.choice(["t0", "t0g", "t1g"]), fxu=rng.choice(["t0", "t0g", "t1g"]),
                       req=sorted(set([names[0]] + [nm for nm in names if rng.random() < 0.5]))))
    for i in range(60 * mult):      # a tensor that does not influence the integrand
        rng = random.Random(sub_seed(seed, "c13un", i))
        out.append(_mk(rng, seed, "un", i, group="unused", kind=["func_unused", "nnmod_unused", "editmod_unused"][i % 3]))
    for i in range(60 * mult):      # second order where a parameter enters linearly (its own second derivative vanishes)
        rng = random.Random(sub_seed(seed, "c13lin", i))
        fam = rng.choice(["linamp", "lead", "scalar", "rat", "gauss", "expdecay"])
        lin = LINEAR_IN[fam]
        req = [rng.choice(lin)] if i % 2 == 0 else sorted(set(lin + [nm for nm in FAMS[fam][0] if rng.random() < 0.4]))
        out.append(_mk(rng, seed, "lin", i, group="linear_second", fam=fam, order=2, req=req,
                       n=rng.choice([3, 5, 7, 20]) if fam not in ("gauss", "expdecay") else rng.choice([20, 100])))
    # integrands whose output shape follows the abscissa x every pair of limit forms (number / 0-dim / shape (1,), requiring grad or not) x order
    for i in range(100 * mult):
        rng = random.Random(sub_seed(seed, "c13osh", i))
        fxl, fxu = OUT_FORMS[i % 5], OUT_FORMS[(i // 5) % 5]
        fam = SHAPE_FAM_NAMES[(i // 25) % len(SHAPE_FAM_NAMES)]
        names = FAMS[fam][0]
        out.append(_mk(rng, seed, "osh", i, group="outshape", fam=fam, fxl=fxl, fxu=fxu, inf=False, order=1 + (i // 200) % 2,
                       req=sorted(nm for nm in names if rng.random() < 0.6)))
    # a tensor limit of another precision than the integrand (float32 limit, float64 integrand), mostly a gradient leaf, mostly second order
    for i in range(40 * mult):
        rng = random.Random(sub_seed(seed, "c13l32", i))
        fx = [("t0g", "t0g"), ("t0g", "num"), ("num", "t0g"), ("t1g", "t0"), ("t0g", "t1g"), ("t1g", "t1g"), ("t0", "t0g"), ("t0g", "t0")][i % 8]
        out.append(_mk(rng, seed, "l32", i, group="limit_dtype", fxl=fx[0], fxu=fx[1], inf=False, order=[2, 2, 1, 2][(i // 8) % 4],
                       fam=rng.choice(LIM32_T1_FAMS + ["scalar", "moments", "stacklast", "outer"]), lim32=[["xl"], ["xu"], ["xl", "xu"]][(i // 32) % 3]))
    from vf import c13_extra
    out.extend(c13_extra.cases(seed, tier))
    return out


# ------------------------------------------------------------------------------------------------ building the call
def _limit(form, val, dt):
    v = {"inf": INF, "-inf": -INF}.get(val, val)
    if form == "num":
        return float(v), False
    if form == "int":
        if int(v) != v:
            raise HarnessBug("integer limit form with value %r" % (v,))
        return int(v), False
    if form in ("t0", "t0g"):
        return torch.tensor(float(v), dtype=dt, requires_grad=form == "t0g"), form == "t0g"
    if form in ("t1", "t1g"):
        return torch.tensor([float(v)], dtype=dt, requires_grad=form == "t1g"), form == "t1g"
    raise HarnessBug("limit form %s" % form)


def build_problem(desc):
    """returns fcn, params tuple, P (name -> value used by the reference), leaves (ordered dict name -> tensor), classes of the leaves"""
    import xitorch
    dt = torch.float64
    fam = desc["fam"]
    names, formula = FAMS[fam]
    tgen = torch.Generator().manual_seed(desc["seed"])
    sh0 = tuple(desc["pshape"])

    def draw(nm):
        sh = tuple(PSHAPES.get(fam, {}).get(nm, sh0))
        if nm in ("a", "lam"):
            return torch.rand(sh, generator=tgen, dtype=dt) * 1.2 + 0.3
        if nm == "b":
            if fam == "scalar":      # a rate
                return torch.rand(sh, generator=tgen, dtype=dt) * 1.2 + 0.3
            return torch.randn(sh, generator=tgen, dtype=dt) * 0.7
        if nm == "W":
            return torch.randn(sh + sh, generator=tgen, dtype=dt) * 0.5
        if nm == "amp":
            return torch.rand(sh, generator=tgen, dtype=dt) * 1.5 + 0.5
        if nm == "mu":
            return torch.rand(sh, generator=tgen, dtype=dt) * 2 - 1
        if nm == "w":
            return torch.rand(sh, generator=tgen, dtype=dt) * 1.2 + 0.6
        raise HarnessBug(nm)

    P = {}
    for nm in names:
        v = draw(nm)
        if desc.get("pyparam") == nm:
            P[nm] = round(float(v.reshape(-1)[0]), 6)
        else:
            P[nm] = v.requires_grad_(nm in desc["req"])
    kind = desc["kind"]
    held = list(desc["held"])
    explicit = [nm for nm in names if nm not in held]
    unused = kind.endswith("_unused")
    u = torch.randn((2,), generator=tgen, dtype=dt).requires_grad_(bool(desc.get("u_req"))) if unused else None
    leafclass = {}

    if kind.startswith("func"):
        if unused:
            def fcn(x, *args):
                return formula(x, dict(zip(explicit, args[:-1])))
            params = tuple(P[nm] for nm in explicit) + (u,)
        else:
            def fcn(x, *args):
                return formula(x, dict(zip(explicit, args)))
            params = tuple(P[nm] for nm in explicit)
    elif kind.startswith("nnmod"):
        class Mod(torch.nn.Module):
            def __init__(self):
                super().__init__()
                for nm in held:
                    setattr(self, nm, torch.nn.Parameter(P[nm].detach().clone(), requires_grad=nm in desc["req"]))
                if unused:
                    self.u = torch.nn.Parameter(u.detach().clone(), requires_grad=bool(desc.get("u_req")))

            def forward(self, x, *args):
                Q = dict(zip(explicit, args))
                for nm in held:
                    Q[nm] = getattr(self, nm)
                return formula(x, Q)
        mod = Mod()
        for nm in held:
            P[nm] = getattr(mod, nm)
        if unused:
            u = mod.u
        fcn = mod.forward
        params = tuple(P[nm] for nm in explicit)
    else:
        class EMod(xitorch.EditableModule):
            def __init__(self):
                for nm in held:
                    setattr(self, nm, P[nm])
                if unused:
                    self.u = u

            def forward(self, x, *args):
                Q = dict(zip(explicit, args))
                for nm in held:
                    Q[nm] = getattr(self, nm)
                return formula(x, Q)

            def getparamnames(self, methodname, prefix=""):
                return [prefix + nm for nm in held] + ([prefix + "u"] if unused else [])
        mod = EMod()
        fcn = mod.forward
        params = tuple(P[nm] for nm in explicit)

    leaves = {}
    for nm in names:
        if isinstance(P[nm], torch.Tensor) and P[nm].requires_grad:
            leaves[nm] = P[nm]
            leafclass[nm] = "objparam" if nm in held else "param"
    if unused and u.requires_grad:
        leaves["u"] = u
        leafclass["u"] = "unused"
    return fcn, params, P, leaves, leafclass, formula


def _nodes(n):
    from scipy.special import roots_legendre
    t, w = roots_legendre(n)
    return [float(v) for v in t], [float(v) for v in w]


def ref_rule_scalar(ufun, xl, xu, n):
    """sum_i w_i h u(x_i): the n-point Gauss-Legendre rule (scipy nodes) with FROZEN limits; x = tan(t) if a limit is infinite"""
    t, w = _nodes(n)
    if math.isinf(xl) or math.isinf(xu):
        tl, tu = math.atan(xl), math.atan(xu)
        h, m = 0.5 * (tu - tl), 0.5 * (tu + tl)
        acc = 0.0
        for ti, wi in zip(t, w):
            tt = m + h * ti
            acc = acc + ufun(torch.tensor(math.tan(tt), dtype=torch.float64)) * (wi * h / math.cos(tt) ** 2)
        return acc
    h, m = 0.5 * (xu - xl), 0.5 * (xu + xl)
    acc = 0.0
    for ti, wi in zip(t, w):
        acc = acc + ufun(torch.tensor(m + h * ti, dtype=torch.float64)) * (wi * h)
    return acc


def _zeros_if_none(gs, like):
    return [torch.zeros_like(p) if g is None else g for g, p in zip(gs, like)]


def _maxabs(t):
    return float(t.detach().abs().max()) if t.numel() else 0.0


# ------------------------------------------------------------------------------------------------ the monitor
def run_case(desc):
    if desc.get("group") == "extra":
        from vf import c13_extra
        return c13_extra.run_case(desc)
    from xitorch.integrate import quad
    obs = Obs(desc)
    dt = torch.float64
    fcn, params, P, leaves, leafclass, formula = build_problem(desc)
    lim32 = list(desc.get("lim32") or [])
    xlo, xl_leaf = _limit(desc["fxl"], desc["xl"], torch.float32 if "xl" in lim32 else dt)
    xuo, xu_leaf = _limit(desc["fxu"], desc["xu"], torch.float32 if "xu" in lim32 else dt)
    lim32 = [w for w, v in (("xl", xlo), ("xu", xuo)) if isinstance(v, torch.Tensor) and v.dtype == torch.float32]
    if lim32:
        # the generator's promise: the integrand stays float64 at such a limit (then the limit's precision DIFFERS from the integrand's)
        with torch.no_grad():
            for v in (xlo, xuo):
                if isinstance(v, torch.Tensor):
                    o = formula(v, P)
                    if any(c.dtype != dt for c in (o if isinstance(o, tuple) else (o,))):
                        raise HarnessBug("float32 limit makes the integrand %s" % [c.dtype for c in (o if isinstance(o, tuple) else (o,))])
    xlv, xuv = float(xlo), float(xuo)
    infinite = math.isinf(xlv) or math.isinf(xuv)
    if xl_leaf:
        leaves["xl"] = xlo
        leafclass["xl"] = "xl"
    if xu_leaf:
        leaves["xu"] = xuo
        leafclass["xu"] = "xu"
    if not leaves:
        raise HarnessBug("case without any gradient leaf")
    order = desc["order"]
    n, nb = desc["n"], desc["nb"]
    kw = {}
    if n is not None:
        kw["n"] = n
    if nb == "empty":
        kw["bck_options"] = {}
    elif nb is not None:
        kw["bck_options"] = {"n": nb} if desc["seed"] % 2 else {"n": nb, "method": "leggauss"}
    if desc.get("explicit_method"):
        kw["method"] = "leggauss"
    n_fwd = 100 if n is None else n
    n_bck = nb if isinstance(nb, int) else n_fwd
    number_limit = not isinstance(xlo, torch.Tensor) or not isinstance(xuo, torch.Tensor)
    param_leaves = [nm for nm in leaves if leafclass[nm] in ("param", "objparam", "unused")]
    used_param_leaves = [nm for nm in param_leaves if leafclass[nm] != "unused"]
    cfg = "%s:%s_%s:%s" % (desc["kind"], desc["fxl"], desc["fxu"], "bckn" if isinstance(nb, int) else "fwdn")
    outshape = desc["fam"] in SHAPE_FAMS
    if outshape:
        cfg += ":outshape_" + desc["fam"]
    if lim32:
        cfg += ":lim32_" + "_".join(lim32)
        obs.count("lim32_cases")
        if ("xl" in lim32 and xl_leaf) or ("xu" in lim32 and xu_leaf):
            obs.count("lim32_leaf_cases")
            if order == 2:
                obs.count("lim32_leaf_second_order")
    # ---- reach classes
    if number_limit:
        obs.count("number_limit_cases")
    if not used_param_leaves:
        obs.count("no_grad_param_cases")
    if desc["kind"].endswith("_unused"):
        obs.count("unused_param_cases")
    if isinstance(nb, int):
        obs.count("bck_n_cases")
    if infinite:
        obs.count("inf_limit_cases")
    shp = [tuple(v.shape) if isinstance(v, torch.Tensor) else () for v in (xlo, xuo)]
    if shp[0] != shp[1]:
        obs.count("mixed_shape_limit_cases")
    if desc["fam"] in ("tuple", "tuplestack"):
        obs.count("tuple_output_cases")
    if outshape:
        # the quadrature points (and with them y and the cotangent) take the shape of xu; the boundary terms see each limit as it was given
        obs.count("outshape_cases")
        if shp[0] != shp[1] and xl_leaf:
            obs.count("outshape_xl_leaf_other_shape")
        if shp[0] != shp[1] and xu_leaf:
            obs.count("outshape_xu_leaf_other_shape")
        if shp[0] != shp[1] and (xl_leaf or xu_leaf) and order == 2:
            obs.count("outshape_other_shape_second_order")
        if not isinstance(xlo, torch.Tensor) or not isinstance(xuo, torch.Tensor):
            obs.count("outshape_number_limit")
    obs.count("kind_" + desc["kind"].split("_")[0])
    obs.nontrivial = True

    # ---- forward (the monitored call)
    with WarnLog():
        try:
            y = quad(fcn, xlo, xuo, params=params, **kw)
        except Exception as e:  # noqa
            obs.exc_violation("forward:" + cfg, e)
            return obs.result()
    ys = tuple(y) if isinstance(y, (tuple, list)) else (y,)
    with torch.no_grad():
        probe = formula(torch.tensor(0.5, dtype=dt), P)
    probe = probe if isinstance(probe, tuple) else (probe,)
    good = len(ys) == len(probe) and all(isinstance(v, torch.Tensor) and v.dtype == dt and v.numel() == q.numel() for v, q in zip(ys, probe))
    if not obs.check(good, "forward:shape:" + cfg, "result has shapes %s, the integrand returns %s" % (
            [tuple(getattr(v, "shape", ())) for v in ys], [tuple(q.shape) for q in probe])):
        return obs.result()
    tgen = torch.Generator().manual_seed(desc["seed"] + 17)
    Cs = [torch.randn(v.shape, generator=tgen, dtype=dt) for v in ys]

    def ufun(x0):
        """cotangent-contracted integrand at a 0-dim x (plain torch, same leaves)"""
        out = formula(x0, P)
        comps = out if isinstance(out, tuple) else (out,)
        tot = 0.0
        for comp, C in zip(comps, Cs):
            tot = tot + torch.dot(comp.reshape(-1), C.reshape(-1))
        return tot

    # the forward value (cheap sanity; C12 decides the rule itself)
    with torch.no_grad():
        vref = ref_rule_scalar(ufun, xlv, xuv, n_fwd)
        vx = sum(torch.dot(v.reshape(-1), C.reshape(-1)) for v, C in zip(ys, Cs))
    obs.check(abs(float(vx) - float(vref)) <= 1e-10 * max(1.0, abs(float(vref))), "value:" + cfg,
              "contracted forward value %.15g, %d-point reference rule %.15g" % (float(vx), n_fwd, float(vref)))
    L = sum(torch.dot(v.reshape(-1), C.reshape(-1)) for v, C in zip(ys, Cs))
    if not obs.check(L.requires_grad, "forward:no_graph:" + cfg, "the result does not require grad although %s do" % sorted(leaves)):
        return obs.result()

    names = list(leaves)
    tens = [leaves[nm] for nm in names]
    # ---- first order through xitorch
    with WarnLog():
        try:
            g = torch.autograd.grad(L, tens, create_graph=(order == 2), allow_unused=True)
        except Exception as e:  # noqa
            obs.exc_violation("backward1:" + cfg, e, leaves=names)
            return obs.result()

    # ---- first-order reference
    pt = [leaves[nm] for nm in param_leaves]
    gref = {}
    gth = []
    if pt:
        R = ref_rule_scalar(ufun, xlv, xuv, n_bck)
        if isinstance(R, torch.Tensor) and R.requires_grad:
            gth = torch.autograd.grad(R, pt, create_graph=True, allow_unused=True)
        else:
            gth = [None] * len(pt)
        for nm, gi in zip(param_leaves, gth):
            gref[nm] = gi
    xld = torch.tensor(xlv, dtype=dt)
    xud = torch.tensor(xuv, dtype=dt)
    if xl_leaf:
        gref["xl"] = -ufun(xld).detach().reshape(xlo.shape)
    if xu_leaf:
        gref["xu"] = ufun(xud).detach().reshape(xuo.shape)
    # does the rule used for the backward differ measurably from the default n=100 rule?
    discriminates = False
    if pt and n_bck != 100:
        R100 = ref_rule_scalar(ufun, xlv, xuv, 100)
        if isinstance(R100, torch.Tensor) and R100.requires_grad:
            g100 = torch.autograd.grad(R100, pt, allow_unused=True)
            for a_, b_ in zip(g100, gth):
                if a_ is not None and b_ is not None and _maxabs(a_ - b_) > 1e-7 * max(1.0, _maxabs(b_)):
                    discriminates = True
    if discriminates:
        obs.count("rule_discriminates")
    worst1, anynonzero = 0.0, False
    for nm, gi in zip(names, g):
        cls = leafclass[nm]
        ref = gref.get(nm)
        key = "grad1:%s:%s" % (cls, cfg)
        obs.count("limit_leaf_compared" if cls in ("xl", "xu") else "param_leaf_compared")
        if ref is None:       # structurally without influence: zero or absent
            ok = gi is None or _maxabs(gi) == 0.0
            obs.check(ok, key, "tensor '%s' does not influence the integrand but got gradient of size %.3e" % (nm, 0.0 if gi is None else _maxabs(gi)))
            continue
        refd = ref.detach()
        if _maxabs(refd) > 1e-6:
            anynonzero = True
        if gi is None:
            obs.check(_maxabs(refd) <= RTOL, key, "no gradient for '%s', reference has size %.3e" % (nm, _maxabs(refd)))
            continue
        if not obs.check(tuple(gi.shape) == tuple(leaves[nm].shape), "grad1:shape:%s:%s" % (cls, cfg),
                         "gradient of '%s' has shape %s, the tensor has %s" % (nm, tuple(gi.shape), tuple(leaves[nm].shape))):
            continue
        d = _maxabs(gi.detach() - refd.reshape(gi.shape))
        tol = (RTOL32 if leaves[nm].dtype == torch.float32 else RTOL) * max(1.0, _maxabs(refd))
        worst1 = max(worst1, d / tol)
        what = ("-f(xl)" if cls == "xl" else "+f(xu)") if cls in ("xl", "xu") else "derivative of the %d-point rule" % n_bck
        obs.check(d <= tol, key, "gradient of '%s' differs from the %s by %.3e (tolerance %.1e; forward n=%s, bck_options=%s%s)" %
                  (nm, what, d, tol, n, nb, "; rule differs from the n=100 rule" if discriminates else ""), fam=desc["fam"], order=order)
    obs.note(worst_first_order_over_tol=worst1, n_fwd=n_fwd, n_bck=n_bck, leaves=names, discriminates=discriminates)

    if order == 2:
        obs.count("second_order_cases")
        lin = [nm for nm in used_param_leaves if nm in LINEAR_IN.get(desc["fam"], [])]
        if lin:
            obs.count("second_order_linear_param")
        # (directions for float32 leaves are float32-representable, so that no rounding enters the products for the other leaves)
        Vs = [torch.randn(p.shape, generator=tgen, dtype=dt) for p in tens]
        Vs = [Vi.float().double() if p.dtype == torch.float32 else Vi for Vi, p in zip(Vs, tens)]
        V = dict(zip(names, Vs))
        terms = [torch.dot(gi.reshape(-1).to(dt), Vi.reshape(-1)) for gi, Vi in zip(g, Vs) if gi is not None and gi.requires_grad]
        h = [None] * len(tens)
        if terms:
            with WarnLog():
                try:
                    h = torch.autograd.grad(sum(terms), tens, allow_unused=True)
                except Exception as e:  # noqa
                    obs.exc_violation("backward2:" + cfg, e, leaves=names, linear_in=lin)
                    return obs.result()
        # ---- second-order reference: pure-parameter terms from the rule, every term involving a limit from the integrand itself
        s_theta = 0.0
        for nm, gi in zip(param_leaves, gth):
            if gi is not None:
                s_theta = s_theta + torch.dot(gi.reshape(-1), V[nm].reshape(-1))
        if xu_leaf:
            s_theta = s_theta + V["xu"].reshape(()) * ufun(xud)
        if xl_leaf:
            s_theta = s_theta - V["xl"].reshape(()) * ufun(xld)
        href = {}
        if pt:
            if isinstance(s_theta, torch.Tensor) and s_theta.requires_grad:
                hp = torch.autograd.grad(s_theta, pt, allow_unused=True)
            else:
                hp = [None] * len(pt)
            for nm, hi in zip(param_leaves, hp):
                href[nm] = hi
        for nm, sign, xv in (("xl", -1.0, xlv), ("xu", 1.0, xuv)):
            if nm not in leaves:
                continue
            xx = torch.tensor(xv, dtype=dt, requires_grad=True)
            uu = ufun(xx)
            tot = torch.zeros((), dtype=dt)
            if uu.requires_grad:
                du = torch.autograd.grad(uu, [xx] + pt, allow_unused=True)
                if du[0] is not None:
                    tot = tot + V[nm].reshape(()) * du[0]
                for pn, dpi in zip(param_leaves, du[1:]):
                    if dpi is not None:
                        tot = tot + torch.dot(dpi.reshape(-1), V[pn].reshape(-1))
                        obs.count("mixed_second_order_terms")
            href[nm] = (sign * tot).detach().reshape(leaves[nm].shape)
        worst2 = 0.0
        for nm, hi in zip(names, h):
            cls = leafclass[nm]
            ref = href.get(nm)
            key = "grad2:%s:%s" % (cls, cfg)
            refmax = 0.0 if ref is None else _maxabs(ref)
            if refmax > 1e-6:
                anynonzero = True
            if hi is None:
                obs.check(refmax <= RTOL, key, "no second-order gradient for '%s', reference has size %.3e" % (nm, refmax), fam=desc["fam"])
                continue
            if ref is None:
                obs.check(_maxabs(hi) <= RTOL, key, "second-order gradient of size %.3e for '%s' which has no influence" % (_maxabs(hi), nm))
                continue
            d = _maxabs(hi.detach() - ref.detach().reshape(hi.shape))
            tol = (RTOL32 if leaves[nm].dtype == torch.float32 else RTOL) * max(1.0, refmax)
            worst2 = max(worst2, d / tol)
            obs.check(d <= tol, key, "second-order gradient (Hessian-vector product) for '%s' differs from the reference by %.3e "
                      "(tolerance %.1e; forward n=%s, bck_options=%s)" % (nm, d, tol, n, nb), fam=desc["fam"], linear_in=lin)
        obs.note(worst_second_order_over_tol=worst2)
    obs.nontrivial = anynonzero
    return obs.result()
