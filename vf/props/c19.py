"""C19 - calls do not keep tensors alive after their results are dropped.

Census monitor: with the cyclic collector disabled, after warm-up calls, the population of live torch.Tensor objects
(count and bytes of distinct storages, the project's own criterion in xitorch/_tests/utils.py) is sampled before and after
each of K repetitions of {call the functional; optionally backward / graph-recording backward / double backward; drop every
result}.  Growth in every repetition is a leak; a one-off growth (a lazily created cache) is not."""
import gc
import random

import torch

from vf.common import Obs, sub_seed, HarnessBug, WarnLog
from vf import funcs, gen

LEVEL = "exploration"
TECHNIQUE = ("runtime census monitor: live-tensor population (gc.get_objects with the cyclic collector disabled) sampled around "
             "repeated call/backward/drop histories of every functional")
LEVEL_TEXT = ("Every functional (rootfinder, equilibrium, minimize, solve_ivp, quad, mcquad, jac, hess via 17 method variants; solve with "
              "6 methods, symeig with 3 methods, svd; Interp1D and SQuad) x function / operator kinds x usage histories {forward only, "
              "forward+backward, forward+graph-recording backward, +double backward}, each repeated K=3 times after two warm-up calls "
              "in a process whose cyclic collector is switched off: the number of live tensors and their storage bytes must not grow "
              "with the number of repetitions.")
LEVEL_NOTE = ("Objects that are unreachable but only reclaimable by the cyclic collector count as alive - that is the property's "
              "criterion. Tensors created by torch itself and cached globally on first use are absorbed by the warm-up calls; a growth "
              "that appears in only one repetition is reported in the evidence but is not a violation.")
RULE = ("case = (functional/method, function or operator kind, history); non-trivial = the two warm-up calls and all K monitored "
        "repetitions of the history completed (each executes the real functional and, per history, its backward passes) and K+1 census "
        "samples were taken")
MIN_NONTRIVIAL = {"quick": 250, "thorough": 1200}
REQUIRED_COUNTERS = {"quick": {"census_samples": 1000, "singular_fallback_taken": 8, "kept_objects_checked": 40, "bigstate_retention_checked": 15},
                     "thorough": {"census_samples": 5000, "singular_fallback_taken": 20, "kept_objects_checked": 200, "bigstate_retention_checked": 80}}
RULE += ("; group held (vf/c19_extra.py): objects the user keeps across calls - a function wrapper made once, a Jacobian operator with a "
         "non-differentiable argument used as A of solve, float32 states of the adaptive integrators: growth census plus the set of tensors "
         "reachable from the kept object before / after the calls")
ASSUMPTIONS = ["the scripted-function representation is excluded (the TorchScript profiling executor keeps its own tensors for the first runs)",
               "K=3 repetitions after 2 warm-up calls; growth must be strictly positive in each of the last two repetitions to be called a leak",
               "single-threaded worker; the census is process-local and taken with gc disabled (gc.collect() only between cases)"]
BUDGET = {"quick": {"worker_timeout": 900, "case_timeout": 180}, "thorough": {"worker_timeout": 3300, "case_timeout": 400}}

HISTORIES = ("fwd", "fwd_bwd", "fwd_bwdcg", "fwd_bwdcg_bwd2")
REPS = [r for r in funcs.REPS if r != "jit"]
FNAMES = list(funcs.FUNCTIONALS) + ["mcquad:mh"]
K = 3


def cases(seed, tier):
    out = []
    k = 0
    quick = tier == "quick"
    for fname in FNAMES:
        for rep in REPS:
            rng = random.Random(sub_seed(seed, "c19", fname, rep))
            hs = list(HISTORIES) if not quick else [rng.choice(HISTORIES)]
            if quick and rep in ("pure", "nn_flat", "em_flat", "sib_single"):
                hs = list(HISTORIES)
            for h in hs:
                out.append({"group": "func", "functional": fname, "rep": rep, "history": h, "derived": (rep not in funcs.NN_REPS) and rng.random() < 0.5,
                            "d": rng.choice([2, 3]), "seed": sub_seed(seed, "c19s", k)})
                k += 1
    for method in ("exactsolve", "custom_exactsolve", "cg", "bicgstab", "gmres", "broyden1", None):
        for kind in ("dense", "mv", "mv_rmv", "herm_mv", "add"):
            for emode in ("none", "E", "EM"):
                rng = random.Random(sub_seed(seed, "c19solve", method, kind, emode))
                hs = list(HISTORIES) if not quick else [rng.choice(HISTORIES)]
                for h in hs:
                    out.append({"group": "solve", "method": method, "opkind": kind, "emode": emode, "history": h, "n": rng.choice([3, 6, 8]),
                                "seed": sub_seed(seed, "c19s", k)})
                    k += 1
    for fn in ("symeig", "svd"):
        for method in ("exacteig", "custom_exacteig", "davidson"):
            for kind in ("dense", "herm_mv"):
                for withM in ((False, True) if fn == "symeig" else (False,)):
                    for h in HISTORIES:
                        out.append({"group": fn, "method": method, "opkind": kind, "withM": withM, "history": h, "n": 6,
                                    "seed": sub_seed(seed, "c19s", k)})
                        k += 1
    # exactly singular shifted systems: the dense solver's fallback branch (taken by every symeig backward on a matrix whose
    # eigenvalues are exact, e.g. a diagonal one, and by solve with a shift equal to an eigenvalue)
    for kind in ("solve_shift_eq_eigenvalue", "symeig_diagonal_custom_exacteig", "symeig_diagonal_davidson"):
        for h in HISTORIES:
            for n in ((5, 16) if quick else (4, 5, 9, 16, 33)):
                out.append({"group": "singular", "kind": kind, "history": h, "n": n, "seed": sub_seed(seed, "c19s", k)})
                k += 1
    for cls in ("interp_linear", "interp_cspline", "squad_trapz", "squad_cspline", "squad_simpson"):
        for h in HISTORIES[:3]:
            out.append({"group": "sampled", "cls": cls, "history": h, "seed": sub_seed(seed, "c19s", k)})
            k += 1
    from vf import c19_extra
    out.extend(c19_extra.cases(seed, tier))
    return out


def census():
    n = 0
    seen = set()
    nbytes = 0
    for o in gc.get_objects():
        if isinstance(o, torch.Tensor):
            n += 1
            try:
                if o.is_sparse:
                    continue
                st = o.untyped_storage()
                p = st.data_ptr()
                if p not in seen:
                    seen.add(p)
                    nbytes += st.nbytes()
            except Exception:
                pass
    return n, nbytes


def _history(outs, leaves, history, tg, dtype, reseed=None):
    """consume the outputs according to the usage history; nothing is returned (all results dropped)"""
    if history == "fwd":
        return
    cots = [torch.randn(o.shape, generator=tg, dtype=o.dtype) for o in outs]
    L = sum((o * c).sum().real if o.is_complex() else (o * c).sum() for o, c in zip(outs, cots))
    if not (isinstance(L, torch.Tensor) and L.requires_grad):
        return
    if reseed is not None:
        torch.manual_seed(reseed)
    g = torch.autograd.grad(L, leaves, create_graph=(history != "fwd_bwd"), allow_unused=True)
    if history == "fwd_bwdcg_bwd2":
        L2 = sum((gi * gi).sum().real if gi.is_complex() else (gi * gi).sum() for gi in g if gi is not None and gi.requires_grad)
        if isinstance(L2, torch.Tensor) and L2.requires_grad:
            if reseed is not None:
                torch.manual_seed(reseed + 1)
            torch.autograd.grad(L2, leaves, allow_unused=True)


def make_call(desc):
    """returns a zero-argument callable performing one full history on persistent inputs"""
    g = desc["group"]
    dtype = torch.float64
    tg = torch.Generator().manual_seed(desc["seed"])
    h = desc["history"]
    if g == "func":
        fname, rep, d = desc["functional"], desc["rep"], desc["d"]
        if fname.startswith("mcquad"):
            lv = {"f": funcs.make_leaves(d, tg, dtype), "p": funcs.make_leaves(d, tg, dtype)}
            leaves = [lv["f"][k] for k in funcs.LEAF_NAMES] + [lv["p"][k] for k in funcs.LEAF_NAMES]
            # leaf-held tensors: the objects persist over the calls (a training loop); derived tensors are recomputed from the
            # leaves in every iteration, so the objects holding them are rebuilt per call
            persistent = None if desc["derived"] else (funcs.build(rep, funcs.core_mcf, 1, funcs.effective(lv["f"], False), 0.4),
                                                       funcs.build(rep, funcs.core_logp, 1, funcs.effective(lv["p"], False), 0.4))

            def call():
                bf, bp = persistent or (funcs.build(rep, funcs.core_mcf, 1, funcs.effective(lv["f"], True), 0.4),
                                        funcs.build(rep, funcs.core_logp, 1, funcs.effective(lv["p"], True), 0.4))
                out = funcs.run_mcquad(bf, bp, d, dtype, "mh", desc["seed"])
                _history([out], leaves, h, tg, dtype, reseed=desc["seed"] + 5)
            return call, (lv, persistent)
        F = funcs.FUNCTIONALS[fname]
        lv = funcs.make_leaves(d, tg, dtype)
        leaves = [lv[k] for k in funcs.LEAF_NAMES]
        persistent = None if desc["derived"] else funcs.build(rep, F.core, F.nlead, funcs.effective(lv, False), 0.4)

        def call():
            built = persistent or funcs.build(rep, F.core, F.nlead, funcs.effective(lv, True), 0.4)
            out = F.run(built, d, dtype, None)
            outs = list(out) if isinstance(out, (tuple, list)) else [out]
            _history(outs, leaves, h, tg, dtype)
        return call, (lv, persistent)
    if g in ("solve", "symeig", "svd"):
        import xitorch
        from xitorch.linalg import solve, symeig, svd
        n = desc["n"]
        rng = random.Random(desc["seed"])
        herm = g != "solve" or desc["opkind"] == "herm_mv"
        A0 = gen.make_matrix("spd" if (herm or g == "solve") else "nonherm", n, (), dtype, 6.0, rng, tg)
        leafA = A0.clone().requires_grad_()
        leafM = gen.make_matrix("spd", n, (), dtype, 3.0, rng, tg).requires_grad_()
        leaves = [leafA, leafM]
        kind = desc["opkind"]

        def mkA():
            Asym = 0.5 * (leafA + leafA.transpose(-2, -1))
            if kind == "dense":
                return xitorch.LinearOperator.m(Asym, is_hermitian=herm if g != "solve" else False)
            if kind == "add":
                return gen.leaf_operator("mv_rmv", 0.5 * Asym, None) + gen.leaf_operator("mv", 0.5 * Asym, None)
            return gen.leaf_operator(kind, Asym, None)
        if g == "solve":
            B = torch.randn(n, 2, generator=tg, dtype=dtype).requires_grad_()
            E = (-torch.rand(2, generator=tg, dtype=dtype)).requires_grad_()
            leaves = leaves + [B, E]
            emode, method = desc["emode"], desc["method"]

            def call():
                Aop = mkA()
                Mop = xitorch.LinearOperator.m(0.5 * (leafM + leafM.transpose(-2, -1)), is_hermitian=True) if emode == "EM" else None
                kw = {} if method is None else {"method": method}
                X = solve(Aop, B, E if emode != "none" else None, Mop, **kw)
                _history([X], leaves, h, tg, dtype)
            return call, (leaves,)
        if g == "symeig":
            method = desc["method"]

            def call():
                Aop = mkA()
                Mop = xitorch.LinearOperator.m(0.5 * (leafM + leafM.transpose(-2, -1)), is_hermitian=True) if desc["withM"] else None
                ev, evec = symeig(Aop, neig=2, M=Mop, method=method)
                _history([ev, (evec * evec.conj()).real.sum(-1)], leaves, h, tg, dtype)
            return call, (leaves,)
        method = desc["method"]
        R0 = (torch.randn(n, n - 2, generator=tg, dtype=dtype) + 2.0 * torch.eye(n, n - 2, dtype=dtype)).requires_grad_()
        leaves = [R0]

        def call():
            Aop = xitorch.LinearOperator.m(R0) if kind == "dense" else gen.leaf_operator("mv_rmv", R0 * 1.0, None)
            u, s, vh = svd(Aop, k=2, method=method)
            _history([s, (u * u).sum(-2), (vh * vh).sum(-1)], leaves, h, tg, dtype)
        return call, (leaves,)
    if g == "singular":
        import xitorch
        from xitorch.linalg import solve, symeig
        n = desc["n"]
        d = torch.arange(1, n + 1, dtype=dtype).requires_grad_()
        B = torch.ones(n, 2, dtype=dtype).requires_grad_()
        kind = desc["kind"]
        if kind == "solve_shift_eq_eigenvalue":
            E = torch.tensor([2.0, 2.5], dtype=dtype).requires_grad_()      # 2.0 is an eigenvalue of diag(1..n): A - 2 I is exactly singular

            def call():
                X = solve(xitorch.LinearOperator.m(torch.diag_embed(d)), B, E, method="exactsolve")
                X = torch.nan_to_num(X, nan=0.0, posinf=0.0, neginf=0.0) * 1e-12
                _history([X], [d, B, E], h, tg, dtype)
            return call, (d, B, E)
        method = "custom_exacteig" if kind.endswith("custom_exacteig") else "davidson"

        def call():
            ev, evec = symeig(xitorch.LinearOperator.m(torch.diag_embed(d), is_hermitian=True), neig=2, method=method)
            _history([ev, (evec * evec).sum(-1)], [d], h, tg, dtype)
        return call, (d,)
    if g == "sampled":
        from xitorch.interpolate import Interp1D
        from xitorch.integrate import SQuad
        x = torch.cumsum(torch.rand(9, generator=tg, dtype=dtype) + 0.2, 0)
        y = torch.randn(2, 9, generator=tg, dtype=dtype).requires_grad_()
        xq = (x[0] + (x[-1] - x[0]) * torch.rand(5, generator=tg, dtype=dtype)).requires_grad_()
        cls = desc["cls"]

        def call():
            if cls.startswith("interp"):
                out = Interp1D(x, y, method=cls.split("_")[1])(xq)
            else:
                out = SQuad(x, method=cls.split("_")[1]).cumsum(y, dim=-1)
            _history([out], [y, xq], h, tg, dtype)
        return call, (x, y, xq)
    raise HarnessBug("unknown group")


def run_case(desc):
    if desc.get("group") == "held":
        from vf import c19_extra
        return c19_extra.run_case(desc)
    obs = Obs(desc)
    mech_cfg = ":".join(str(desc.get(k)) for k in ("functional", "kind", "method", "opkind", "emode", "withM", "cls", "rep") if desc.get(k) is not None)
    mech = "%s:%s:%s" % (desc["group"], mech_cfg, desc["history"])
    call, keep = make_call(desc)
    try:
        with WarnLog():
            if desc["group"] == "singular":
                # reach counter (first warm-up call only - the census runs without this wrapper): was the singular fallback taken?
                orig_solve = torch.linalg.solve
                hits = [0]

                def counting_solve(*a, **k):
                    try:
                        return orig_solve(*a, **k)
                    except torch._C._LinAlgError:
                        hits[0] += 1
                        raise
                torch.linalg.solve = counting_solve
                try:
                    call()
                finally:
                    torch.linalg.solve = orig_solve
                obs.count("singular_fallback_taken", hits[0])
                if hits[0] == 0 and desc.get("kind") != "symeig_diagonal_davidson" and desc["history"] != "fwd":
                    raise HarnessBug("the exactly singular configuration did not reach the dense solver's fallback branch")
            else:
                call()
            call()          # warm-up: lazily created caches (torch and xitorch) are not what the property is about
    except Exception as e:
        obs.skip("history does not complete on this configuration (%s: %s)" % (type(e).__name__, str(e)[:60]))
        return obs.result()
    gc.collect()
    was_enabled = gc.isenabled()
    gc.disable()
    try:
        base = census()
        samples = [base]
        with WarnLog():
            for i in range(K):
                call()
                samples.append(census())
                obs.count("census_samples")
    finally:
        if was_enabled:
            gc.enable()
    gc.collect()
    after_collect = census()
    dn = [samples[i + 1][0] - samples[i][0] for i in range(K)]
    db = [samples[i + 1][1] - samples[i][1] for i in range(K)]
    obs.note(live_tensors=[s[0] for s in samples], live_bytes=[s[1] for s in samples], after_gc_collect=list(after_collect))
    leak = dn[-1] > 0 and dn[-2] > 0
    leak_bytes = db[-1] > 0 and db[-2] > 0
    obs.check(not leak, "tensor_growth:" + mech,
              "live tensors grow with every repetition (cyclic collector off): %s (+%s per call); gc.collect() afterwards brings it to %d"
              % ([s[0] for s in samples], dn, after_collect[0]))
    if not leak:
        obs.check(not leak_bytes, "storage_growth:" + mech, "live tensor storage grows with every repetition: %s bytes" % [s[1] for s in samples])
    if any(x != 0 for x in dn) and not leak:
        obs.count("one_off_growth_cases")
    obs.count("group_%s" % desc["group"])
    obs.count("history_%s" % desc["history"])
    obs.nontrivial = True
    return obs.result()
