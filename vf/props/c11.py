"""C11 - LinearOperator products are mutually consistent (dense shadow of every expression tree; class-history monitor)."""
import itertools
import random

import torch
import xitorch.grad

from vf.common import Obs, sub_seed
from vf import gen

LEVEL = "exploration"
RULE = ("group 'tree': random operator expression trees (depth<=3 quick / 4 thorough) over leaf kinds {mv, mv+rmv, mv+mm, all, "
        "dense, Hermitian-flagged matrix-free, Hermitian dense, Jacobian operator}, operand batch shapes from "
        "{(),(2,),(1,),(3,1),(1,2),(3,2)}, dtypes float32/float64/complex128; a dense shadow matrix is built with torch for the "
        "same expression and mv/mm/rmv/rmm/fullmatrix of the tree and of its .H are compared with it for input batches "
        "{(),(2,),(3,2),(1,)}; group 'history': fresh class hierarchies (parent mv-only, child and grandchild adding products, "
        "a class without _mv) instantiated in EVERY order; group 'errors': construction/shape/Hermiticity rejections. "
        "non-trivial = tree with >=1 composition node and all five products compared, or a history with >=2 classes")
MIN_NONTRIVIAL = {"quick": 400, "thorough": 5000}
EXHAUSTIVE_NOTE = "group 'history' enumerates all instantiation orders of each <=3-class hierarchy (plus the invalid class at every position)"
ASSUMPTIONS = ["dense shadow uses torch.matmul / + / conj-transpose only", "CPU only"]
BUDGET = {"quick": {"worker_timeout": 900, "case_timeout": 120}, "thorough": {"worker_timeout": 3000, "case_timeout": 300}}

OP_BATCHES = [(), (2,), (1,), (3, 1), (1, 2), (3, 2)]
X_BATCHES = [(), (2,), (3, 2), (1,)]
LEAFS = ["mv", "mv_rmv", "mv_mm", "all", "dense", "herm_mv", "dense_herm", "jac", "herm_all"]
CHILD_FEATURES = [("rmv",), ("mm",), ("rmm",), ("fullmatrix",), ("rmv", "mm"), ("rmv", "rmm", "mm", "fullmatrix")]


def cases(seed, tier):
    out = []
    ntree = 900 if tier == "quick" else 16000
    for i in range(ntree):
        dt = ["float64", "complex128", "float32"][i % 3] if i % 7 else "float64"
        out.append({"group": "tree", "seed": sub_seed(seed, "c11t", i), "depth": 1 + i % (3 if tier == "quick" else 4),
                    "dtype": dt, "flavour": "square_herm" if i % 4 == 3 else "general"})
    # class histories: exhaustive orders
    hid = 0
    for feats in CHILD_FEATURES:
        for gfeats in [None, ("mm",), ("rmv",), ("fullmatrix", "rmm")]:
            names = ["P", "C"] + (["G"] if gfeats is not None else [])
            for order in itertools.permutations(names):
                for npos in ([None] if tier == "quick" and hid % 3 else range(len(names) + 1)):
                    out.append({"group": "history", "child": list(feats), "grand": list(gfeats) if gfeats else None,
                                "order": list(order), "invalid_at": npos, "seed": sub_seed(seed, "c11h", hid),
                                "dtype": "complex128" if hid % 4 == 0 else "float64"})
                    hid += 1
    for k in range(12):
        out.append({"group": "errors", "which": k, "seed": sub_seed(seed, "c11e", k)})
    # distinct classes that share module and qualified name (factory-made / redefined classes) with different optional products,
    # every order of first instantiation
    capsets = [[], ["rmv"], ["mm"], ["rmv", "mm"], ["rmv", "mm", "rmm", "fullmatrix"], ["fullmatrix"]]
    sid = 0
    for a in range(len(capsets)):
        for b in range(len(capsets)):
            if a == b:
                continue
            for third in ([None] if tier == "quick" else [None] + list(range(len(capsets)))):
                caps = [capsets[a], capsets[b]] + ([capsets[third]] if third is not None else [])
                out.append({"group": "samename", "caps": caps, "seed": sub_seed(seed, "c11s", sid), "dtype": "complex128" if sid % 5 == 0 else "float64"})
                sid += 1
    # sums / differences whose matrix dimensions differ (also in the broadcast-looking way 1 vs n) must be rejected
    eid = 0
    for shp in ([(1, 4), (3, 4)], [(4, 1), (4, 3)], [(1, 1), (3, 3)], [(3, 4), (3, 5)], [(3, 4), (4, 4)], [(2, 1, 4), (3, 4)], [(3, 4), (2, 3, 1)],
                [(2, 3, 4), (3, 3, 4)]):
        for kinds in (["mv", "mv"], ["dense", "dense"], ["mv", "dense"], ["all", "mv_rmv"]):
            out.append({"group": "addshape", "shapes": [list(shp[0]), list(shp[1])], "kinds": kinds, "seed": sub_seed(seed, "c11a", eid)})
            eid += 1
    return out


# ------------------------------------------------------------------------------------------------ trees
def gen_tree(rng, depth, dtype, p, q, tgen, flavour="general"):
    """returns (operator, dense, descr, info) for a random expression of shape (p,q)"""
    import xitorch
    info = {"nodes": 0, "leaf_kinds": set()}

    def leaf(p, q):
        kinds = list(LEAFS)
        if p != q:
            kinds = [k for k in kinds if not k.startswith("herm") and k != "dense_herm"]
        kind = rng.choice(kinds)
        if flavour == "square_herm" and p == q and rng.random() < 0.7:
            kind = rng.choice(["herm_mv", "dense_herm", "herm_all"])
        if kind == "jac" and dtype.is_complex:
            kind = "mv_rmv"
        info["leaf_kinds"].add(kind)
        batch = rng.choice(OP_BATCHES)
        if kind == "jac":
            W = torch.randn(p, q, dtype=dtype, generator=tgen)
            x0 = torch.randn(q, dtype=dtype, generator=tgen).requires_grad_()

            def f(x, W):
                z = torch.matmul(W, x)
                return z + 0.1 * z * z
            op = xitorch.grad.jac(f, (x0, W), idxs=0)
            z = (W @ x0).detach()
            dense = (1 + 0.2 * z).unsqueeze(-1) * W
            return op, dense, ["jac", p, q]
        if kind == "mv" and rng.random() < 0.15:
            # a structurally zero block: its product is a fresh tensor of zeros that is not connected to the vector in autograd
            shape_ = (*batch, p, q)

            class ZeroOp(xitorch.LinearOperator):
                def __init__(self):
                    super().__init__(shape=shape_, dtype=dtype, device=torch.device("cpu"))

                def _mv(self, x):
                    bs = torch.broadcast_shapes(tuple(x.shape[:-1]), tuple(batch))
                    return torch.zeros(*bs, p, dtype=x.dtype)

                def _getparamnames(self, prefix=""):
                    return []
            info["leaf_kinds"].add("zero_mv")
            info["zero_leaves"] = info.get("zero_leaves", 0) + 1
            return ZeroOp(), torch.zeros(*batch, p, q, dtype=dtype), ["zero_mv", list(batch), p, q]
        mat = torch.randn(*batch, p, q, dtype=dtype, generator=tgen)
        if kind in ("herm_mv", "dense_herm", "herm_all"):
            mat = mat + mat.transpose(-2, -1).conj()
        op = gen.leaf_operator(kind, mat)
        return op, mat, [kind, list(batch), p, q]

    def node(d, p, q):
        if d == 0 or rng.random() < 0.15:
            return leaf(p, q)
        info["nodes"] += 1
        kind = rng.choice(["H", "add", "sub", "mul", "rmul", "matmul", "matmul"])
        if kind == "H":
            a, da, sa = node(d - 1, q, p)
            return a.H, da.transpose(-2, -1).conj(), ["H", sa]
        if kind in ("add", "sub"):
            a, da, sa = node(d - 1, p, q)
            b, db, sb = node(d - 1, p, q)
            if kind == "add":
                return a + b, da + db, ["add", sa, sb]
            return a - b, da - db, ["sub", sa, sb]
        if kind in ("mul", "rmul"):
            a, da, sa = node(d - 1, p, q)
            c = rng.choice([2, -3, 0.5, -1.25, 0, 1])
            return (a * c if kind == "mul" else c * a), da * c, [kind, c, sa]
        r = rng.choice([1, 2, 3, 4]) if flavour == "general" else p
        a, da, sa = node(d - 1, p, r)
        b, db, sb = node(d - 1, r, q)
        return a.matmul(b), torch.matmul(da, db), ["matmul", sa, sb]

    op, dense, descr = node(depth, p, q)
    return op, dense, descr, info


def tol_for(dtype):
    return 2e-4 if dtype in (torch.float32, torch.complex64) else 1e-9


def close(a, b, dtype):
    if tuple(a.shape) != tuple(b.shape):
        return False, "shape %s vs %s" % (tuple(a.shape), tuple(b.shape))
    scale = max(1.0, float(b.abs().max()) if b.numel() else 1.0)
    err = float((a - b).abs().max()) if b.numel() else 0.0
    return err <= tol_for(dtype) * scale, "maxerr %.3e scale %.3e" % (err, scale)


def check_products(op, D, obs, mech, dtype, rng, tgen, descr):
    """compare the five products of `op` with the dense shadow D (batched (.., p, q))"""
    p, q = D.shape[-2:]
    ob = tuple(D.shape[:-2])
    ok_all = True
    if not obs.check(tuple(op.shape) == tuple(D.shape), mech + ":shape", "operator shape %s, dense shadow %s" % (tuple(op.shape), tuple(D.shape)), tree=descr):
        ok_all = False
    xbs = rng.sample(X_BATCHES, 2)
    for xb in xbs:
        for name in ("mv", "rmv", "mm", "rmm"):
            r = rng.choice([1, 2, 3])
            nin = q if name in ("mv", "mm") else p
            Dm = D if name in ("mv", "mm") else D.transpose(-2, -1).conj()
            x = torch.randn(*xb, nin, dtype=dtype, generator=tgen) if name in ("mv", "rmv") else \
                torch.randn(*xb, nin, r, dtype=dtype, generator=tgen)
            want = torch.matmul(Dm, x.unsqueeze(-1)).squeeze(-1) if name in ("mv", "rmv") else torch.matmul(Dm, x)
            try:
                got = getattr(op, name)(x)
            except Exception as e:
                obs.exc_violation(mech + ":" + name, e, tree=descr, xbatch=list(xb))
                ok_all = False
                continue
            obs.count("products_compared")
            c, why = close(got, want, dtype)
            if not obs.check(c, "%s:%s:%s" % (mech, name, "shape" if why.startswith("shape") else "value"),
                             "%s(x) differs from dense shadow: %s" % (name, why), tree=descr, xbatch=list(xb)):
                ok_all = False
            if name == "mm" and c:
                # mm equals mv column by column
                try:
                    col = op.mv(x[..., 0])
                    c2, why2 = close(col, got[..., 0], dtype)
                    obs.check(c2, mech + ":mm_vs_mv", "mm(X)[...,0] != mv(X[...,0]): %s" % why2, tree=descr)
                except Exception as e:
                    obs.exc_violation(mech + ":mv_col", e, tree=descr)
    try:
        fm = op.fullmatrix()
        obs.count("products_compared")
        c, why = close(fm, D.expand(*fm.shape[:-2], p, q) if fm.dim() >= 2 and len(fm.shape) >= len(D.shape) else D, dtype)
        if not obs.check(c, "%s:fullmatrix:%s" % (mech, "shape" if why.startswith("shape") else "value"),
                         "fullmatrix() differs from dense shadow: %s" % why, tree=descr):
            ok_all = False
    except Exception as e:
        obs.exc_violation(mech + ":fullmatrix", e, tree=descr)
        ok_all = False
    return ok_all


def run_tree(desc, obs):
    rng = random.Random(desc["seed"])
    tgen = torch.Generator().manual_seed(desc["seed"])
    dtype = gen.rdtype(desc["dtype"])
    p, q = rng.choice([1, 2, 3, 4]), rng.choice([1, 2, 3, 4])
    if rng.random() < 0.4 or desc.get("flavour") == "square_herm":
        q = p
    try:
        op, D, descr, info = gen_tree(rng, desc["depth"], dtype, p, q, tgen, desc.get("flavour", "general"))
    except Exception as e:
        obs.exc_violation("tree:construct", e, depth=desc["depth"])
        obs.nontrivial = True
        return
    obs.note(tree=descr, shape=list(D.shape))
    for k in info["leaf_kinds"]:
        obs.count("leaf_" + k)
    ok = check_products(op, D, obs, "tree", dtype, rng, tgen, descr)
    try:
        opH = op.H
    except Exception as e:
        obs.exc_violation("tree:H", e, tree=descr)
        opH = None
    if opH is not None:
        ok = check_products(opH, D.transpose(-2, -1).conj(), obs, "treeH", dtype, rng, tgen, descr) and ok
        # Hermitian flag must be honest: a flagged operator's dense shadow is Hermitian
        if op.is_hermitian:
            herm = D.shape[-1] == D.shape[-2] and bool(torch.allclose(D, D.transpose(-2, -1).conj(), atol=1e-4 if dtype == torch.float32 else 1e-9))
            obs.check(herm, "tree:hermitian_flag", "operator claims is_hermitian but its matrix is not", tree=descr)
    obs.nontrivial = info["nodes"] >= 1
    if desc.get("flavour") == "square_herm":
        obs.count("trees_square_hermitian_flavour")
    if op.is_hermitian and info["nodes"] >= 1:
        obs.count("composite_trees_flagged_hermitian")
    obs.count("trees_with_composition", 1 if info["nodes"] >= 1 else 0)


# ------------------------------------------------------------------------------------------------ class histories
def run_history(desc, obs):
    import xitorch
    rng = random.Random(desc["seed"])
    tgen = torch.Generator().manual_seed(desc["seed"])
    dtype = gen.rdtype(desc["dtype"])
    counters = {"P": {}, "C": {}, "G": {}}
    P = gen.fresh_linop_class(("mv",), counters["P"])
    C = gen.fresh_linop_class(tuple(desc["child"]), counters["C"], base=P)
    classes = {"P": P, "C": C}
    defined = {"P": {"mv"}, "C": {"mv"} | set(desc["child"])}
    if desc["grand"] is not None:
        G = gen.fresh_linop_class(tuple(desc["grand"]), counters["G"], base=C)
        classes["G"] = G
        defined["G"] = defined["C"] | set(desc["grand"])
    # a class without _mv (only a _getparamnames and an __init__)
    N = type("VfNoMv", (xitorch.LinearOperator,), {
        "__init__": lambda self, mat: xitorch.LinearOperator.__init__(self, shape=mat.shape, dtype=mat.dtype),
        "_getparamnames": lambda self, prefix="": []})
    n = 3
    mats = {k: torch.randn(2, n, n, dtype=dtype, generator=tgen) for k in classes}
    insts = {}

    def try_invalid(tag):
        for attempt in range(2):
            try:
                N(mats["P"])
                obs.violation("history:no_mv_class_accepted:attempt%d" % (attempt + 1),
                              "a LinearOperator subclass without _mv was instantiated (%s, attempt %d)" % (tag, attempt + 1),
                              order=desc["order"])
            except RuntimeError:
                obs.count("invalid_class_rejections")
            except Exception as e:
                obs.exc_violation("history:no_mv_class", e)

    for i, name in enumerate(desc["order"]):
        if desc["invalid_at"] == i:
            try_invalid("before %s" % name)
        try:
            insts[name] = classes[name](mats[name])
        except Exception as e:
            obs.exc_violation("history:instantiate:%s" % name, e, order=desc["order"])
    if desc["invalid_at"] == len(desc["order"]):
        try_invalid("at end")
    # a second instance of each, in reverse order
    for name in reversed(desc["order"]):
        try:
            classes[name](mats[name])
        except Exception as e:
            obs.exc_violation("history:reinstantiate:%s" % name, e, order=desc["order"])

    for name, op in insts.items():
        D = mats[name]
        have = defined[name]
        flags = {"rmv": op.is_rmv_implemented, "mm": op.is_mm_implemented, "rmm": op.is_rmm_implemented,
                 "fullmatrix": op.is_fullmatrix_implemented}
        for f, val in flags.items():
            obs.check(bool(val) == (f in have), "history:flag:%s" % f,
                      "class %s %s _%s but is_%s_implemented=%s after instantiation order %s" % (
                          name, "defines" if f in have else "does not define", f, f, val, desc["order"]),
                      order=desc["order"], child=desc["child"], grand=desc["grand"])
        ctr = counters[name if name in counters else "P"]
        # the products must agree with the dense matrix and use the methods the class defines
        allc = {}
        for k in ("P", "C", "G"):
            for kk, vv in counters[k].items():
                allc[kk] = allc.get(kk, 0) + vv
        before = dict(allc)
        check_products(op, D, obs, "history:%s" % name, dtype, rng, tgen, {"class": name, "order": desc["order"]})
        try:
            check_products(op.H, D.transpose(-2, -1).conj(), obs, "historyH:%s" % name, dtype, rng, tgen,
                           {"class": name, "order": desc["order"]})
        except Exception as e:
            obs.exc_violation("history:H:%s" % name, e, order=desc["order"])
        after = {}
        for k in ("P", "C", "G"):
            for kk, vv in counters[k].items():
                after[kk] = after.get(kk, 0) + vv
        for f in ("rmv", "mm", "rmm", "fullmatrix"):
            used = after.get(f, 0) - before.get(f, 0)
            if f in have:
                obs.check(used > 0, "history:defined_product_unused:%s" % f,
                          "class %s defines _%s but it was never called by the public products (order %s)" % (name, f, desc["order"]),
                          order=desc["order"], child=desc["child"], grand=desc["grand"])
    obs.note(order=desc["order"], child=desc["child"], grand=desc["grand"], invalid_at=desc["invalid_at"])
    obs.count("histories")
    obs.nontrivial = len(insts) >= 2


# ------------------------------------------------------------------------------------------------ rejections
def run_errors(desc, obs):
    import xitorch
    tgen = torch.Generator().manual_seed(desc["seed"])
    k = desc["which"]
    dt = torch.float64
    A = gen.leaf_operator("mv", torch.randn(2, 3, 4, dtype=dt, generator=tgen))
    Bm = gen.leaf_operator("all", torch.randn(3, 4, dtype=dt, generator=tgen))

    def expect(exc_types, fn, what):
        try:
            r = fn()
            obs.violation("errors:accepted:%s" % what, "%s was accepted (returned %s)" % (what, type(r).__name__))
        except exc_types:
            obs.count("rejections_observed")
        except Exception as e:
            obs.violation("errors:wrong_exception:%s" % what, "%s raised %s instead of %s" % (what, type(e).__name__, exc_types))

    if k == 0:
        for op in (A, Bm, xitorch.LinearOperator.m(torch.randn(3, 4, dtype=dt, generator=tgen))):
            expect(RuntimeError, lambda: op.mv(torch.randn(3, dtype=dt)), "mv_wrong_length")
            expect(RuntimeError, lambda: op.mm(torch.randn(3, 2, dtype=dt)), "mm_wrong_length")
            expect(RuntimeError, lambda: op.rmv(torch.randn(4, dtype=dt)), "rmv_wrong_length")
            expect(RuntimeError, lambda: op.rmm(torch.randn(4, 2, dtype=dt)), "rmm_wrong_length")
    elif k == 1:
        m = torch.randn(3, 3, dtype=dt, generator=tgen)
        expect(RuntimeError, lambda: xitorch.LinearOperator.m(m, is_hermitian=True), "nonhermitian_matrix_flagged_hermitian")
        mc = torch.randn(3, 3, dtype=torch.complex128, generator=tgen)
        mc = mc + mc.transpose(-2, -1)  # symmetric, not Hermitian
        expect(RuntimeError, lambda: xitorch.LinearOperator.m(mc, is_hermitian=True), "complex_symmetric_flagged_hermitian")
        mh = m + m.T
        op = xitorch.LinearOperator.m(mh, is_hermitian=True)
        # (the property does not ask for `op.H is op` - an earlier version of this check did and raised a false alarm when the
        # adjoint of a dense Hermitian operator became a new object; what must hold is that .H describes the same matrix)
        obs.check(op.is_hermitian and op.H.is_hermitian and torch.equal(op.H.fullmatrix(), mh), "errors:hermitian_H",
                  "Hermitian operator's .H does not describe the same matrix")
        obs.check(xitorch.LinearOperator.m(mh).is_hermitian, "errors:auto_hermitian_detection", "Hermitian matrix not detected")
        obs.check(not xitorch.LinearOperator.m(m).is_hermitian, "errors:auto_hermitian_detection2", "non-Hermitian matrix flagged Hermitian")
        obs.check(not xitorch.LinearOperator.m(mc).is_hermitian, "errors:auto_hermitian_detection3", "complex symmetric matrix flagged Hermitian")
    elif k == 2:
        cls = gen.fresh_linop_class(("mv",))
        expect(RuntimeError, lambda: cls(torch.randn(3, 4, dtype=dt), is_hermitian=True), "nonsquare_flagged_hermitian")
        expect(RuntimeError, lambda: xitorch.LinearOperator.m(torch.randn(3, 4, dtype=dt), is_hermitian=True), "nonsquare_matrix_flagged_hermitian")
    elif k == 3:
        expect(RuntimeError, lambda: A.matmul(Bm), "matmul_shape_mismatch")
        expect(RuntimeError, lambda: A + gen.leaf_operator("mv", torch.randn(4, 3, dtype=dt)), "add_shape_mismatch")
        expect(RuntimeError, lambda: A - gen.leaf_operator("dense", torch.randn(3, 3, dtype=dt)), "sub_shape_mismatch")
    elif k == 4:
        for bad, nm in (("s", "str"), (None, "none"), (1 + 2j, "complex"), ([2.0], "list")):
            expect(TypeError, lambda: A * bad, "scale_by_%s" % nm)
            expect(TypeError, lambda: xitorch.LinearOperator.m(torch.randn(3, 3, dtype=dt)) * bad, "scale_matrix_by_%s" % nm)
    elif k == 5:
        ns = {"__init__": lambda self: xitorch.LinearOperator.__init__(self, shape=(3,)),
              "_mv": lambda self, x: x, "_getparamnames": lambda self, prefix="": []}
        cls = type("VfBadShape", (xitorch.LinearOperator,), ns)
        expect(RuntimeError, cls, "shape_with_one_dim")
    elif k == 6:
        ns = {"__init__": lambda self: None, "_mv": lambda self, x: x, "_getparamnames": lambda self, prefix="": []}
        cls = type("VfNoInit", (xitorch.LinearOperator,), ns)
        o = cls()
        expect(RuntimeError, lambda: o.mv(torch.randn(3)), "mv_without_super_init")
        expect(RuntimeError, lambda: o.mm(torch.randn(3, 2)), "mm_without_super_init")
    elif k == 7:
        # solve / symeig entry checks that belong to operator validation
        import xitorch.linalg as la
        expect(RuntimeError, lambda: la.solve(gen.leaf_operator("mv", torch.randn(3, 4, dtype=dt)), torch.randn(3, 1, dtype=dt)), "solve_nonsquare")
        expect(RuntimeError, lambda: la.solve(gen.leaf_operator("mv", torch.randn(3, 3, dtype=dt)), torch.randn(4, 1, dtype=dt)), "solve_mismatch")
        expect(RuntimeError, lambda: la.symeig(gen.leaf_operator("mv", torch.randn(3, 3, dtype=dt))), "symeig_nonhermitian")
    elif k == 8:
        # broadcasting failure of operand batch shapes must raise, not silently mis-shape
        a = gen.leaf_operator("mv", torch.randn(2, 3, 3, dtype=dt))
        try:
            r = a.mv(torch.randn(3, 3, dtype=dt, generator=tgen))  # batch (3,) vs (2,) cannot broadcast
            obs.violation("errors:accepted:batch_mismatch", "mv with incompatible batch shapes returned %s" % (tuple(r.shape),))
        except Exception:
            obs.count("rejections_observed")
    elif k == 9:
        # repr must not fail for any operator kind (used in error messages)
        m = torch.randn(3, 3, dtype=dt)
        ops = [A, Bm, A.H, xitorch.LinearOperator.m(m), A * 2, Bm + Bm, Bm.matmul(Bm.H)]
        for o in ops:
            try:
                s = repr(o)
                obs.check(isinstance(s, str) and len(s) > 0, "errors:repr", "empty repr")
            except Exception as e:
                obs.exc_violation("errors:repr", e)
    elif k == 10:
        # matmul of two dense-wrapped operators flagged hermitian although it is not
        m1 = torch.randn(3, 3, dtype=dt, generator=tgen)
        m2 = torch.randn(3, 3, dtype=dt, generator=tgen)
        expect(RuntimeError, lambda: xitorch.LinearOperator.m(m1).matmul(xitorch.LinearOperator.m(m2), is_hermitian=True), "dense_matmul_flagged_hermitian")
    elif k == 11:
        # scipy bridge agrees with products (real, unbatched)
        import numpy as np
        m = torch.randn(3, 4, dtype=dt, generator=tgen)
        for kind in ("mv", "all", "dense"):
            sp = gen.leaf_operator(kind, m).scipy_linalg_op()
            v = np.arange(4.0)
            w = np.arange(3.0)
            obs.check(np.allclose(sp.matvec(v), m.numpy() @ v), "errors:scipy_matvec", "scipy matvec differs (%s)" % kind)
            obs.check(np.allclose(sp.rmatvec(w), m.numpy().T @ w), "errors:scipy_rmatvec", "scipy rmatvec differs (%s)" % kind)
    obs.nontrivial = True


def run_samename(desc, obs):
    """classes made by a factory share __module__ and __qualname__: each must still behave according to the methods IT defines"""
    tgen = torch.Generator().manual_seed(desc["seed"])
    dtype = gen.rdtype(desc["dtype"])
    n = 3
    insts = []
    for i, caps in enumerate(desc["caps"]):
        counter = {}
        cls = gen.fresh_linop_class(("mv",) + tuple(caps), counter)
        cls.__name__ = "FactoryOp"
        cls.__qualname__ = "make_operator.<locals>.FactoryOp"
        cls.__module__ = "user_package.operators"
        D = torch.randn(2, n, n, dtype=dtype, generator=tgen)
        try:
            insts.append((cls(D), D, set(caps), counter, i))
        except Exception as e:
            obs.exc_violation("samename:instantiate", e, caps=desc["caps"])
    for op, D, have, counter, i in insts:
        flags = {"rmv": op.is_rmv_implemented, "mm": op.is_mm_implemented, "rmm": op.is_rmm_implemented, "fullmatrix": op.is_fullmatrix_implemented}
        for f, val in flags.items():
            obs.check(bool(val) == (f in have), "samename:flag:%s" % f,
                      "class #%d (%s _%s) reports is_%s_implemented=%s after same-named classes %s were instantiated"
                      % (i, "defines" if f in have else "does not define", f, f, val, desc["caps"]))
        x = torch.randn(2, n, dtype=dtype, generator=tgen)
        X = torch.randn(2, n, 2, dtype=dtype, generator=tgen)
        DH = D.transpose(-2, -1).conj()
        tol = 1e-10
        for name, fn, ref in (("mv", lambda: op.mv(x), torch.matmul(D, x.unsqueeze(-1)).squeeze(-1)), ("mm", lambda: op.mm(X), torch.matmul(D, X)),
                              ("rmv", lambda: op.rmv(x), torch.matmul(DH, x.unsqueeze(-1)).squeeze(-1)), ("rmm", lambda: op.rmm(X), torch.matmul(DH, X)),
                              ("fullmatrix", lambda: op.fullmatrix(), D)):
            before = dict(counter)
            try:
                out = fn()
            except Exception as e:
                obs.exc_violation("samename:%s" % name, e, caps=desc["caps"], index=i)
                continue
            obs.check(out.shape == ref.shape and float((out - ref).abs().max()) <= tol, "samename:%s:value" % name,
                      "%s of class #%d differs from its matrix after same-named classes %s" % (name, i, desc["caps"]))
            if name in have:
                obs.check(counter.get(name, 0) > before.get(name, 0), "samename:%s:own_method_ignored" % name,
                          "class #%d defines _%s but %s did not call it (same-named classes %s)" % (i, name, name, desc["caps"]))
            obs.count("products_compared")
    obs.nontrivial = len(insts) >= 2


def run_addshape(desc, obs):
    tgen = torch.Generator().manual_seed(desc["seed"])
    s1, s2 = (tuple(x) for x in desc["shapes"])
    for sign in ("+", "-"):
        A = gen.leaf_operator(desc["kinds"][0], torch.randn(*s1, dtype=torch.float64, generator=tgen))
        B = gen.leaf_operator(desc["kinds"][1], torch.randn(*s2, dtype=torch.float64, generator=tgen))
        what = "%s:%s%s%s" % ("x".join(desc["kinds"]), "x".join(map(str, s1)), sign, "x".join(map(str, s2)))
        try:
            C = (A + B) if sign == "+" else (A - B)
        except (RuntimeError, ValueError, TypeError, AssertionError):
            obs.count("rejections_observed")
            continue
        except Exception as e:
            obs.violation("addshape:wrong_exception", "%s raised %s" % (what, type(e).__name__))
            continue
        # the combination was accepted at construction: the statement only asks for *an error*, so a rejection on first use also counts;
        # what must not happen is that any product silently returns values
        produced = []
        for pname, fn in (("mv", lambda: C.mv(torch.ones(C.shape[-1], dtype=torch.float64))), ("fullmatrix", lambda: C.fullmatrix()),
                          ("rmv", lambda: C.rmv(torch.ones(C.shape[-2], dtype=torch.float64)))):
            try:
                fn()
                produced.append(pname)
            except Exception:
                pass
        if not produced:
            obs.count("rejected_on_first_use")
            continue
        obs.violation("addshape:accepted:%s" % ("matrixdims" if s1[-2:] != s2[-2:] else "batch"),
                      "operators of shapes %s %s %s were combined into an operator of shape %s and %s returned values"
                      % (s1, sign, s2, tuple(C.shape), produced), kinds=desc["kinds"])
    obs.counters["assertions_evaluated"] += 2
    obs.nontrivial = True


def run_case(desc):
    obs = Obs(desc)
    if desc["group"] == "samename":
        run_samename(desc, obs)
        return obs.result()
    if desc["group"] == "addshape":
        run_addshape(desc, obs)
        return obs.result()
    if desc["group"] == "tree":
        run_tree(desc, obs)
    elif desc["group"] == "history":
        run_history(desc, obs)
    else:
        run_errors(desc, obs)
    return obs.result()

TECHNIQUE = "runtime reference-model monitor (dense shadow of operator expression trees) + class-instantiation-history monitor"
LEVEL_TEXT = ("Held on every generated expression tree (all five products of the tree and of its adjoint compared with a dense shadow "
              "for several input batch shapes), on every instantiation order of each generated class hierarchy (exhaustive for <=3 "
              "classes) and on the listed rejection cases. Only trees of depth <=4 over the stated leaf kinds/batch shapes are decided.")
LEVEL_NOTE = "Trusts torch.matmul/conj/transposition as the dense reference and the fresh-class generator in vf/gen.py."
