"""C03 - rootfinder / equilibrium / minimize return a point meeting the stopping test (call-history spy + re-insertion
of the returned tensor + independent float64 reference on contraction families)."""
import math
import random

import torch

from vf.common import Obs, sub_seed, WarnLog, HarnessBug
from vf import gen, optfam

LEVEL = "exploration"
TECHNIQUE = ("runtime call-history spy on the user function + re-insertion of the returned tensor into the stopping test + "
             "independent float64 fixed-point reference on generated contraction families")
LEVEL_TEXT = ("Held on every generated call of the run: 3 entry points x 7 methods x 6 families (tanh, affine, complex non-holomorphic, "
              "complex holomorphic, quadratic, quartic objectives) x dims 1-12 x batch shapes (), (3,), (2,2) x float64/float32/complex128 x "
              "initial guesses {0, random, float64 solution, perturbed solution, bitwise-exact root} x f_tol/x_tol 1e-2..1e-12 x "
              "maxiter {default, forced small} x line search on/off x 4 parameter placements.  Every silent return is re-inserted into "
              "the user function (|f| < f_tol, |f - y| < f_tol, |grad| < f_tol, objective <= objective(y0)), located in the spy's "
              "call history, and compared with the float64 reference; well-posed classes must be silent.  Every recorded evaluation argument "
              "has the dtype and shape of the initial guess; single-precision guesses (float32, complex64) are drawn for every method.")
LEVEL_NOTE = ("Contraction constant <= 0.6 (Jacobian cond <= 4); gd with momentum and adam are held to a coarse agreement (2e-2) because "
              "their OR-type step test can fire at a turning point of the oscillation; tolerances below 200*eps*scale are not required to be reached.")
RULE = ("seeded sampling over entry point x method {newton, broyden1, broyden2, linearmixing, anderson_acc, gd, adam} x family x n in "
        "{1,2,3,5,8,12} x batch x dtype x q in {0.2,0.4,0.6} x y0 mode x (f_tol, x_tol, f_rtol/x_rtol) x maxiter x line_search x placement, "
        "plus directed exact-arithmetic cases (dyadic affine maps whose root is hit exactly after one step, constant maps, y0 a bitwise "
        "root for real and complex unknowns); non-trivial = the call returned and the spy recorded >= 3 evaluations of the user "
        "function (>= 2 iterations), or a directed case whose exact-root event (|f| == 0 in the history) was observed")
RULE += ('; the method name is spelled in lower / upper / title / alternating case (seeded)')
RULE += ('; group linsolver: newton with an explicit linear solver (solver_method exactsolve / bicgstab / gmres / cg, default or tight solver_kwargs)')
RULE += ('; group scalar0d: a single unknown given as a 0-dimensional real / complex tensor, every method')
RULE += ('; group after_raise: the monitored (maxiter-limited) call follows a call of the same solver from which an exception of the user function escaped')
RULE += ('; group prec: every method x entry point with float32 (and complex64) initial guesses and parameters: returned dtype/shape, dtype of every '
         'recorded evaluation argument, stopping test at single-precision tolerances')
MIN_NONTRIVIAL = {"quick": 1500, "thorough": 18000}
ASSUMPTIONS = [
    "families are y - h(y) with h a q-contraction, q <= 0.6 (holomorphic family: q <= 0.35 inside its invariant ball |y| <= 0.5; convex "
    "objectives: Hessian eigenvalues in [0.6, 1.4] + quartic 0.05*z^4)",
    "must-be-silent only when f_tol and x_tol >= 200*eps(dtype)*sqrt(N)*(1+|y*|)/(1-q), maxiter is left at its default (300 for broyden warm starts, "
    "3000/6000 for gd/adam); not for broyden1/2 on the holomorphic and quartic families (only locally contractive), not for gd/adam warm starts, "
    "not with f_rtol when y0 is the rounding-level solution (f_rtol is relative to |f(y0)|); an exception of broyden1/2 on these two families after an "
    "evaluated point left the contraction region (|y| > 0.5 resp. |z| > 1.5) is a diverged run, not a violation (counter raised_after_leaving_contraction_region)",
    "random initial guesses are N(0,1) per component (holomorphic family: |y0| = 0.4, quartic objective: |y0| = 1); warm starts are the float64 "
    "reference solution and that solution + 1e-7*N(0,1) (float32: 1e-3)",
    "float32 cases request f_tol, x_tol in {1e-2, 1e-3}",
    "group prec (precision of the initial guess): float32 guesses for all 7 methods x 3 entry points, complex64 guesses for the root-finding "
    "methods and anderson_acc on the two complex families; parameters have the guess's precision; starts zero / N(0,1); f_tol, x_tol in "
    "{1e-2, 1e-3, 1e-4} (must-be-silent only above the floor 200*eps32*sqrt(N)*(1+|y*|)/(1-q), same exemptions as above); gd/adam run with "
    "f_rtol=0, x_rtol in {1e-3, 1e-4} (must be silent) or with their default relative tolerances 1e-8 (below single-precision resolution: "
    "no silence demand); half of the cases hand xitorch a dtype-tolerant user function (parameters converted to the dtype of the argument)",
    "group linsolver: newton with solver_method in {exactsolve, bicgstab, gmres, cg (minimize only: SPD Hessian)}, solver_kwargs default or "
    "{rtol 1e-10, atol 1e-14}, real families, f_tol in {1e-4, 1e-6, 1e-9, 1e-12}; must-be-silent only for f_tol >= 10*atol of the inner solver "
    "(default atol 1e-8) and not for gmres (which announces its own non-convergence); an exception is a violation in every case",
    "group scalar0d: one unknown given as a 0-dimensional tensor (the n = 1 member of every family presented with shape ()), float64 / complex128, "
    "every method x entry point, starts zero / N(0,1), f_tol in {1e-6, 1e-9}; same oracles (the result must be 0-dimensional)",
    "gd/adam silence is only demanded where their relative stopping tests are attainable: the generated objectives have a non-zero minimiser and a "
    "non-zero minimum value (b != 0, or centre c != 0 for the exact-start cases); a minimum of value 0 AT the origin makes df < f_rtol*|f| and "
    "dx < x_rtol*|x| unreachable by construction (documented relative criteria, absolute ones default to 0) and is not generated",
    "group prec agreement tolerance for gd without momentum: 25*x_rtol*(1+|y*|) + floor (ten times the bound (0.7/0.3)*x_rtol*|y| of a 0.7-contraction); "
    "none for gd with momentum / adam (their OR-type step test can fire at a turning point)",
    "gd/adam are run with step sizes adapted to the known Hessian bounds (gd 0.3-0.5, adam 3e-2) and maxiter 3000/6000",
    "agreement tolerance: 100*f_tol/(1-q) for the root-finding methods and anderson_acc; 1e-6*(1+|y*|) for gd without momentum (x_rtol=1e-9); "
    "2e-2*(1+|y*|) for gd with momentum / adam with x_rtol=1e-9; none for gd/adam with their default relative tolerances",
    "objective clause slack: 2000*eps*(1+|F(y0)|), plus f_tol^2/(1-q) for the root-finding methods (what |grad| < f_tol implies)",
]
BUDGET = {"quick": {"worker_timeout": 900, "case_timeout": 120}, "thorough": {"worker_timeout": 3300, "case_timeout": 300}}
REQUIRED_COUNTERS = {
    "quick": {"extra_alias_compared": 40, "silent_results_checked": 1000, "warned_results": 150, "must_silent_cases": 900, "history_located": 900,
              "exact_root_after_step": 40, "exact_root_at_start": 60, "complex_cases": 300, "line_search_off": 400,
              "objective_clause_checked": 250, "reference_compared": 900, "user_function_evaluations": 60000,
              "forced_warning_path": 100, "method_gd": 50, "method_adam": 50, "method_anderson_acc": 60,
              # group "prec" (single-precision guesses, every method): calls that returned, per dtype x method
              "prec_float32_newton": 15, "prec_float32_broyden1": 15, "prec_float32_broyden2": 15, "prec_float32_linearmixing": 15,
              "prec_float32_anderson_acc": 5, "prec_float32_gd": 12, "prec_float32_adam": 12,
              "prec_complex64_newton": 10, "prec_complex64_broyden1": 10, "prec_complex64_broyden2": 10, "prec_complex64_linearmixing": 10,
              "prec_complex64_anderson_acc": 5, "prec_result_dtype_checked": 200, "prec_evaluation_arguments_checked": 3000,
              "prec_must_silent": 50, "prec_casting_user_function": 80,
              # group "linsolver" (newton with solver_method): calls made per linear solver, must-be-silent cases that returned
              "linsolver_exactsolve": 15, "linsolver_bicgstab": 30, "linsolver_gmres": 15, "linsolver_cg": 10, "linsolver_must_silent": 10,
              "scalar0d_real": 40, "scalar0d_complex": 20,
              "after_raise_exception_escaped": 25, "after_raise_then_warned": 15},
    "thorough": {"extra_alias_compared": 400, "silent_results_checked": 10000, "warned_results": 2000, "must_silent_cases": 8000, "history_located": 8000,
                 "exact_root_after_step": 400, "exact_root_at_start": 400, "complex_cases": 4000, "line_search_off": 5000,
                 "objective_clause_checked": 3000, "reference_compared": 9000, "user_function_evaluations": 800000,
                 "forced_warning_path": 1500, "method_gd": 600, "method_adam": 600, "method_anderson_acc": 800,
                 "prec_float32_newton": 150, "prec_float32_broyden1": 150, "prec_float32_broyden2": 150, "prec_float32_linearmixing": 150,
                 "prec_float32_anderson_acc": 50, "prec_float32_gd": 120, "prec_float32_adam": 120,
                 "prec_complex64_newton": 100, "prec_complex64_broyden1": 100, "prec_complex64_broyden2": 100,
                 "prec_complex64_linearmixing": 100, "prec_complex64_anderson_acc": 50, "prec_result_dtype_checked": 2000,
                 "prec_evaluation_arguments_checked": 30000, "prec_must_silent": 500, "prec_casting_user_function": 800,
                 "linsolver_exactsolve": 150, "linsolver_bicgstab": 300, "linsolver_gmres": 150, "linsolver_cg": 100,
                 "linsolver_must_silent": 100, "scalar0d_real": 300, "scalar0d_complex": 150,
                 "after_raise_exception_escaped": 250, "after_raise_then_warned": 150},
}

RF = ["newton", "broyden1", "broyden2", "linearmixing"]
METHODS = {"rootfinder": RF, "equilibrium": RF + ["anderson_acc"], "minimize": RF + ["gd", "adam"]}
TASK_FAMILIES = {"rootfinder": ["tanh", "affine", "cplx", "holo"], "equilibrium": ["tanh", "affine", "cplx", "holo"],
                 "minimize": ["quad", "quartic"]}
PLACEMENTS = ["explicit", "explicit_nt", "module", "editable"]
GD_CLASSES = ["plain_tight", "momentum_tight", "default_tol"]
PREC_DTYPES = ["float32", "complex64"]        # group "prec": single-precision initial guesses (complex64 on the complex families)
PREC_TOLS = [1e-2, 1e-3, 1e-4]


def cases(seed, tier):
    out = []
    N = 2400 if tier == "quick" else 30000
    sizes = [1, 2, 3, 5, 8, 12]
    tasks = ["rootfinder", "equilibrium", "minimize"]
    for i in range(N):
        rng = random.Random(sub_seed(seed, "c03", i))
        task = tasks[i % 3]
        methods = METHODS[task]
        d = {"group": task, "seed": sub_seed(seed, "c03s", i), "method": methods[(i // 3) % len(methods)]}
        d["family"] = rng.choice(TASK_FAMILIES[task])
        d["n"] = rng.choice(sizes)
        d["batch"] = rng.randrange(len(optfam.BATCHES))
        cplx = optfam.FAMILIES[d["family"]][1]
        d["dtype"] = "complex128" if cplx else rng.choice(["float64", "float64", "float64", "float32"])
        d["q"] = rng.choice([0.2, 0.4, 0.6])
        d["y0"] = rng.choice(["zero", "rand", "rand", "rand", "ref", "near"])
        if d["dtype"] == "float32":
            d["f_tol"] = rng.choice([1e-2, 1e-3])
            d["x_tol"] = rng.choice([None, 1e-2, 1e-3]) if d["method"] not in ("gd", "adam") else None
            if d["x_tol"] is None and d["method"] not in ("gd", "adam"):
                d["x_tol"] = 1e-3      # the default 1e-6 is below float32 resolution for |y| ~ 3
        else:
            d["f_tol"] = rng.choice([1e-4, 1e-6, 1e-9, 1e-12])
            d["x_tol"] = rng.choice([None, None, 1e-4, 1e-9, 1e-12])
        d["rtol"] = rng.choice([None, None, None, "f_rtol", "x_rtol"])
        d["maxiter"] = rng.choice([None, None, None, None, "small"])
        if d["y0"] in ("near", "ref") and d["method"] in ("broyden1", "broyden2") and d["maxiter"] is None:
            d["maxiter"] = "ample"     # a warm start that fails runs to maxiter (default 100*(N+1)): bound the cost
        d["ls"] = rng.choice([True, False]) if d["method"] in RF else None
        d["placement"] = rng.choice(PLACEMENTS)
        if d["method"] in ("gd", "adam"):
            d["gdclass"] = rng.choice(GD_CLASSES)
            if d["method"] == "adam" and d["y0"] in ("near", "ref"):
                d["gdclass"] = "default_tol"   # adam's normalised steps leave a warm start; x_rtol=1e-9 is then not reached in 6000 steps
            d["dtype"] = "float64"
            d["f_tol"], d["x_tol"], d["rtol"] = None, None, None
        # the method name as the caller spells it (names are case-insensitive)
        d["spell"] = rng.choice(["lower"] * 5 + ["upper", "title", "mixed"])
        out.append(d)
    # ---- directed: a far, badly scaled initial guess (|f(y0)| ~ 1e4 .. 1e8) with tight absolute tolerances: whatever the first
    # residual was, a silent return must meet f_tol at the returned point (no must-be-silent demand from such a start)
    kf = 0
    for task in tasks:
        for method in METHODS[task]:
            if method in ("gd", "adam"):
                continue
            for far in (1e4, 1e7, 1e8):
                for f_tol in (1e-9, 1e-12):
                    for rep in range(1 if tier == "quick" else 5):
                        rng = random.Random(sub_seed(seed, "c03far", kf))
                        fam = rng.choice([f for f in TASK_FAMILIES[task] if f in ("tanh", "affine", "quad")] or TASK_FAMILIES[task][:1])
                        out.append({"group": task, "seed": sub_seed(seed, "c03fars", kf), "method": method, "family": fam,
                                    "n": rng.choice([2, 3, 5]), "batch": rng.choice([0, 1, 2]), "dtype": "float64", "q": rng.choice([0.2, 0.4, 0.6]),
                                    "y0": "far", "far": far, "f_tol": f_tol, "x_tol": rng.choice([None, 1e-9]), "rtol": None, "maxiter": "ample",
                                    "ls": rng.choice([True, False]) if method in RF else None, "placement": rng.choice(PLACEMENTS)})
                        kf += 1
    # ---- directed: exact arithmetic.  (a) dyadic affine maps: newton / matched linearmixing land on the root exactly after one
    # step that is much larger than x_tol; (b) constant maps: one application of the map is the fixed point; (c) y0 is a bitwise root
    k = 0
    reps = 1 if tier == "quick" else 6
    for rep in range(reps):
        for task in ("rootfinder", "equilibrium"):
            for method in METHODS[task]:
                for n, batch in ((1, 0), (3, 0), (4, 1), (2, 2)):
                    for special in ("dyadic", "const"):
                        for ls in ((True, False) if method in RF else (None,)):
                            out.append({"group": "directed_exact_step", "task": task, "seed": sub_seed(seed, "c03e", k), "method": method,
                                        "family": "affine", "special": special, "n": n, "batch": batch, "dtype": "float64", "q": 0.5,
                                        "y0": "int", "f_tol": 1e-9, "x_tol": None, "rtol": None, "maxiter": None, "ls": ls,
                                        "placement": PLACEMENTS[k % 4]})
                            k += 1
        for task in ("rootfinder", "equilibrium", "minimize"):
            for method in METHODS[task]:
                for fam in TASK_FAMILIES[task]:
                    for n, batch in ((1, 0), (3, 1), (5, 2)):
                        cplx = optfam.FAMILIES[fam][1]
                        out.append({"group": "directed_root_at_start", "task": task, "seed": sub_seed(seed, "c03r", k), "method": method,
                                    "family": fam, "special": "center" if task == "minimize" else "homog", "n": n, "batch": batch,
                                    "dtype": "complex128" if cplx else "float64", "q": 0.4, "y0": "exactroot", "f_tol": 1e-9,
                                    "x_tol": None, "rtol": None, "maxiter": None, "ls": (k % 2 == 0) if method in RF else None,
                                    "placement": PLACEMENTS[k % 4], "gdclass": GD_CLASSES[k % 3] if method in ("gd", "adam") else None})
                        k += 1
    # ---- precision of the initial guess: single-precision real AND complex guesses (parameters of the same precision) for EVERY method
    # of every entry point (the main loop above draws float32 for the root-finding methods on the real families only, never for gd / adam,
    # never complex64).  Oracles: dtype / shape of the result, dtype of every recorded evaluation argument, the stopping test with
    # tolerances a single-precision run can reach (must-be-silent only above the attainability floor)
    kp = 0
    for task in tasks:
        for method in METHODS[task]:
            for dname in PREC_DTYPES:
                cplx = dname == "complex64"
                fams = [f for f in TASK_FAMILIES[task] if optfam.FAMILIES[f][1] == cplx]
                if not fams:
                    continue
                gdm = method in ("gd", "adam")
                for rep in range((24 if gdm else 10) if tier == "quick" else (240 if gdm else 100)):
                    rng = random.Random(sub_seed(seed, "c03p", kp))
                    d = {"group": "prec", "task": task, "seed": sub_seed(seed, "c03ps", kp), "method": method, "family": rng.choice(fams),
                         "n": rng.choice(sizes), "batch": rng.randrange(len(optfam.BATCHES)), "dtype": dname, "q": rng.choice([0.2, 0.4, 0.6]),
                         "y0": rng.choice(["zero", "rand", "rand"]), "f_tol": rng.choice(PREC_TOLS), "x_tol": rng.choice(PREC_TOLS),
                         "rtol": rng.choice([None, None, "f_rtol", "x_rtol"]), "maxiter": rng.choice([None] * 5 + ["small"]),
                         "ls": rng.choice([True, False]) if method in RF else None, "placement": rng.choice(PLACEMENTS),
                         "spell": rng.choice(["lower"] * 5 + ["upper", "title", "mixed"]), "cast": rng.random() < 0.5}
                    if method in ("gd", "adam"):
                        d.update(gdclass=rng.choice(["single_xrtol", "single_xrtol", "default_tol"]), x_rtol=rng.choice([1e-3, 1e-4]),
                                 momentum=rng.choice([True, False]), f_tol=None, x_tol=None, rtol=None)
                    out.append(d)
                    kp += 1
    # ---- newton with an explicitly chosen linear solver for its steps (option solver_method / solver_kwargs): direct, and the iterative
    # solvers of xitorch.linalg.solve whose default absolute tolerance (1e-8) is ABOVE tight f_tol requests; cg only where the Jacobian is the
    # symmetric positive definite Hessian (minimize)
    kl = 0
    for task in tasks:
        sms = ["exactsolve", "bicgstab", "bicgstab", "gmres"] + (["cg", "cg"] if task == "minimize" else [])
        for sm in sms:
            for rep in range(6 if tier == "quick" else 60):
                rng = random.Random(sub_seed(seed, "c03l", kl))
                fam = rng.choice([f for f in TASK_FAMILIES[task] if not optfam.FAMILIES[f][1]])
                out.append({"group": "linsolver", "task": task, "seed": sub_seed(seed, "c03ls", kl), "method": "newton", "family": fam,
                            "n": rng.choice(sizes), "batch": rng.randrange(len(optfam.BATCHES)), "dtype": "float64", "q": rng.choice([0.2, 0.4, 0.6]),
                            "y0": rng.choice(["zero", "rand", "rand"]), "f_tol": rng.choice([1e-4, 1e-6, 1e-6, 1e-9, 1e-12]),
                            "x_tol": rng.choice([None, None, 1e-4, 1e-9]), "rtol": None, "maxiter": None, "ls": rng.choice([True, False]),
                            "placement": rng.choice(PLACEMENTS), "spell": "lower", "solver_method": sm,
                            "solver_kw": rng.choice([None, None, "tight"]) if sm != "exactsolve" else None})
                kl += 1
    # ---- a single unknown given as a 0-dimensional tensor (shape () instead of (1,)), real and complex, every method
    k0 = 0
    for rep in range(1 if tier == "quick" else 8):
        for task in tasks:
            for method in METHODS[task]:
                for fam in TASK_FAMILIES[task]:
                    for mode in ("zero", "rand"):
                        rng = random.Random(sub_seed(seed, "c030", k0))
                        gdm = method in ("gd", "adam")
                        out.append({"group": "scalar0d", "task": task, "seed": sub_seed(seed, "c030s", k0), "method": method, "family": fam, "n": 1,
                                    "batch": 0, "dtype": "complex128" if optfam.FAMILIES[fam][1] else "float64", "q": rng.choice([0.2, 0.4, 0.6]),
                                    "y0": mode, "f_tol": None if gdm else rng.choice([1e-6, 1e-9]), "x_tol": None, "rtol": None, "maxiter": None,
                                    "ls": rng.choice([True, False]) if method in RF else None, "placement": rng.choice(PLACEMENTS),
                                    "spell": "lower", "gdclass": rng.choice(GD_CLASSES) if gdm else None})
                        k0 += 1
    # ---- history: an exception of the USER's function escaped from an earlier call of the same solver (the function raises at its k-th
    # evaluation, e.g. an iterate outside its domain); the following call is stopped early by maxiter and must still warn or meet the test
    ka = 0
    for rep in range(2 if tier == "quick" else 20):
        for task in tasks:
            for method in METHODS[task]:
                rng = random.Random(sub_seed(seed, "c03a", ka))
                gdm = method in ("gd", "adam")
                out.append({"group": "after_raise", "task": task, "seed": sub_seed(seed, "c03as", ka), "method": method,
                            "family": rng.choice(TASK_FAMILIES[task]), "n": rng.choice([2, 3, 5, 8]), "batch": rng.randrange(len(optfam.BATCHES)),
                            "dtype": "float64", "q": rng.choice([0.4, 0.6]), "y0": "rand", "f_tol": None if gdm else rng.choice([1e-9, 1e-12]),
                            "x_tol": None, "rtol": None, "maxiter": "small", "ls": rng.choice([True, False]) if method in RF else None,
                            "placement": rng.choice(PLACEMENTS), "spell": "lower", "gdclass": rng.choice(GD_CLASSES) if gdm else None,
                            "raise_at": rng.choice([1, 2, 3])})
                if optfam.FAMILIES[out[-1]["family"]][1]:
                    out[-1]["dtype"] = "complex128"
                ka += 1
    from vf import c03_extra
    out.extend(c03_extra.cases(seed, tier))
    return out


def _norm(t):
    return float(torch.linalg.vector_norm(t.detach().reshape(-1)))


def _spell(name, how):
    if how == "upper":
        return name.upper()
    if how == "title":
        return name.title()
    if how == "mixed":
        return "".join(c.upper() if i % 2 else c for i, c in enumerate(name))
    return name


class _UserFunctionError(Exception):
    pass


def _call_with_failing_function(obs, fn, prob, y0, method, opts, raise_at):
    """the history before the monitored call: the same solver is called with a user function that raises at its `raise_at`-th evaluation;
    the exception must come out (that is all that is asked of this call)"""
    pres = optfam.present(prob, "explicit", spy=False)
    calls = [0]

    def failing(y, *params):
        calls[0] += 1
        if calls[0] >= raise_at:
            raise _UserFunctionError("the user's function cannot be evaluated at this point")
        return pres.fcn(y, *params)
    o2 = dict(opts)
    o2.pop("maxiter", None)
    try:
        with WarnLog():
            fn(failing, y0.clone(), params=pres.params, method=method, **o2)
        obs.count("after_raise_no_exception")
    except _UserFunctionError:
        obs.count("after_raise_exception_escaped")
    except Exception as e:      # the solver turned the user's exception into another one: recorded, not judged here
        obs.count("after_raise_other_exception")
        obs.note(pre_call_exception="%s: %s" % (type(e).__name__, str(e)[:120]))


def _left_region(prob, log):
    """did a recorded evaluation point lie outside the region where the family is a contraction (holo: |y| <= 0.5; quartic: |z| <= 1.5)?"""
    for ya, _, _, _ in log:
        if prob.family == "holo":
            r, bound = _norm(ya), 0.5
        else:
            r, bound = _norm(ya - prob.theta["c"].to(ya.dtype) if "c" in prob.theta else ya), 1.5
        if not r <= bound:
            return True
    return False


class _ScalarProblem:
    """a one-unknown problem whose unknown is a 0-dimensional tensor: the same mathematics, y of shape () instead of (1,)"""

    def __init__(self, prob):
        if prob.yshape != (1,):
            raise HarnessBug("scalar presentation needs n = 1 without batch")
        self._p = prob
        self.yshape = ()

    def __getattr__(self, name):
        return getattr(self._p, name)

    def user_value(self, y, th=None, ex=None):
        out = self._p.user_value(y.reshape(1), th, ex)
        return out if self._p.task == "minimize" else out.reshape(())

    def objective(self, y, th, ex=None):
        return self._p.objective(y.reshape(1), th, ex)

    def stop_residual(self, y, th=None, ex=None):
        return self._p.stop_residual(y.reshape(1), th, ex).reshape(())

    def reference(self):
        y, rn = self._p.reference()
        return y.reshape(()), rn


class _CastingProblem:
    """the same problem, with a user function that converts its tensor parameters to the dtype of its argument"""

    def __init__(self, prob):
        self._p = prob

    def __getattr__(self, name):
        return getattr(self._p, name)

    def user_value(self, y, th=None, ex=None):
        th = self._p.theta if th is None else th
        th = {k: (v.to(y.dtype) if v.dtype != y.dtype and v.is_complex() == y.is_complex() else v) for k, v in th.items()}
        return self._p.user_value(y, th, ex)


def _check_arg_dtypes(obs, log, y0, cfg, ptag, prec):
    """history clause of the dtype statement: every point the user's function was evaluated at has the dtype (and shape) of the guess"""
    bad = [k for k, (ya, _, _, _) in enumerate(log) if ya.dtype != y0.dtype or tuple(ya.shape) != tuple(y0.shape)]
    obs.count("evaluation_arguments_dtype_checked", len(log))
    if prec:
        obs.count("prec_evaluation_arguments_checked", len(log))
    obs.check(not bad, "argdtype:%s%s" % (cfg, ptag),
              "the user's function was evaluated at %d of %d points whose dtype/shape differ from the initial guess (%s %s); first: #%d %s %s"
              % (len(bad), len(log), y0.dtype, tuple(y0.shape), bad[0] if bad else -1,
                 log[bad[0]][0].dtype if bad else None, tuple(log[bad[0]][0].shape) if bad else None))


def run_case(desc):
    if desc.get("group") == "alias":
        from vf import c03_extra
        return c03_extra.run_case(desc)
    from xitorch.optimize import rootfinder, equilibrium, minimize
    obs = Obs(desc)
    task = desc.get("task", desc["group"])
    fn = {"rootfinder": rootfinder, "equilibrium": equilibrium, "minimize": minimize}[task]
    method, family = desc["method"], desc["family"]
    rng = random.Random(desc["seed"])
    tgen = torch.Generator().manual_seed(desc["seed"])
    dt = gen.rdtype(desc["dtype"])
    rdt = torch.float32 if dt in (torch.float32, torch.complex64) else torch.float64
    prec = desc["group"] == "prec"
    ptag = (":" + desc["dtype"]) if prec else ""       # mechanism keys of the precision group name the guess's dtype
    linsolver = desc["group"] == "linsolver"
    if linsolver:                                      # ... those of the linear-solver group the solver of newton's steps
        ptag = ":%s%s" % (desc["solver_method"], ":tightkw" if desc["solver_kw"] else "")
    eps = torch.finfo(rdt).eps
    batch = optfam.BATCHES[desc["batch"]]
    special = desc.get("special")
    prob = optfam.make_problem(family, task, desc["n"], batch, dt, desc["q"], tgen, special=special)
    if desc["group"] == "scalar0d":
        prob = _ScalarProblem(prob)
        ptag = ":0dim"
        obs.count("scalar0d_%s" % ("complex" if dt.is_complex else "real"))
    q = optfam.contraction_bound(prob)
    # a dtype-tolerant user function (it converts its parameters to the dtype of the point it is given, as `A.to(y) @ y` would): on a tree
    # whose iterates keep the guess's dtype the conversion is the identity; where they do not, the call does not die of a dtype mismatch
    # inside the user's function and the dtype oracles decide
    pres = optfam.present(_CastingProblem(prob) if desc.get("cast") else prob, desc["placement"])
    if desc.get("cast"):
        obs.count("prec_casting_user_function")
    N = 1
    for s in prob.yshape:
        N *= s
    yref, ref_res = prob.reference()
    yref_n = _norm(yref)
    # ---- initial guess
    mode = desc["y0"]
    if mode == "zero":
        y0 = torch.zeros(prob.yshape, dtype=dt)
    elif mode == "rand":
        y0 = torch.randn(prob.yshape, dtype=dt, generator=tgen)
        if family == "holo":
            y0 = 0.4 * y0 / max(_norm(y0), 1e-30)
        elif family == "quartic":
            y0 = y0 / max(_norm(y0), 1e-30)     # the quartic's gradient map is a contraction only for |z| <~ 1.5
    elif mode == "ref":
        y0 = yref.to(dt).clone()
    elif mode == "near":
        pert = torch.randn(prob.yshape, dtype=dt, generator=tgen)
        y0 = (yref + (1e-7 if rdt == torch.float64 else 1e-3) * pert.to(yref.dtype)).to(dt)
    elif mode == "far":
        y0 = float(desc["far"]) * torch.randn(prob.yshape, dtype=dt, generator=tgen)
    elif mode == "int":
        y0 = torch.randint(-6, 7, prob.yshape, generator=tgen).to(dt)
        y0.reshape(-1)[0] = 9.0
    elif mode == "exactroot":
        y0 = prob.theta["c"].detach().clone() if special == "center" else torch.zeros(prob.yshape, dtype=dt)
    else:
        raise HarnessBug("y0 mode %s" % mode)
    y0_is_root = _norm(prob.stop_residual(y0)) == 0.0
    if mode == "exactroot" and not y0_is_root:
        raise HarnessBug("directed exact-root start is not a bitwise root")
    # ---- options
    opts = {}
    gd = method in ("gd", "adam")
    f_tol = x_tol = None
    gdclass = desc.get("gdclass")
    if not gd:
        f_tol = desc["f_tol"]
        opts["f_tol"] = f_tol
        if desc["x_tol"] is not None:
            opts["x_tol"] = desc["x_tol"]
        x_tol = desc["x_tol"] if desc["x_tol"] is not None else 1e-6
        if desc["rtol"] == "f_rtol":
            opts["f_rtol"] = 1e3      # relative to |f(y0)|: a conjunct that is satisfied whenever f_tol is (|f(y0)| is O(1) or 0)
        elif desc["rtol"] == "x_rtol":
            opts["x_rtol"] = 1e-1
        if desc["ls"] is not None:
            opts["line_search"] = desc["ls"]
        if desc["maxiter"] == "small":
            opts["maxiter"] = rng.choice([1, 2, 3, 4])
        elif desc["maxiter"] == "ample":
            opts["maxiter"] = 300
        if linsolver:
            opts["solver_method"] = desc["solver_method"]
            obs.count("linsolver_%s" % desc["solver_method"])
            if desc["solver_kw"] == "tight":
                opts["solver_kwargs"] = {"rtol": 1e-10, "atol": 1e-14}
    else:
        if method == "gd":
            if gdclass == "plain_tight":
                opts.update(step=0.5, gamma=0.0, f_rtol=0.0, x_rtol=1e-9, maxiter=3000)
            elif gdclass == "momentum_tight":
                opts.update(step=0.3, f_rtol=0.0, x_rtol=1e-9, maxiter=3000)
            elif gdclass == "single_xrtol":
                # single precision: a relative step tolerance the iteration can reach (>= 800*eps32); OR-type test, f_rtol switched off
                opts.update(step=0.5 if not desc["momentum"] else 0.3, f_rtol=0.0, x_rtol=desc["x_rtol"], maxiter=3000)
                if not desc["momentum"]:
                    opts["gamma"] = 0.0
            else:
                opts.update(step=0.3, maxiter=3000)
        else:
            if gdclass == "default_tol":
                opts.update(step=3e-2, maxiter=6000)
            elif gdclass == "single_xrtol":
                opts.update(step=3e-2, f_rtol=0.0, x_rtol=desc["x_rtol"], maxiter=6000)
            else:
                opts.update(step=3e-2, f_rtol=0.0, x_rtol=1e-9, maxiter=6000)
        if desc["maxiter"] == "small":
            opts["maxiter"] = rng.choice([1, 2, 3, 5])
    cfg = "%s:%s" % (task, method)
    lsname = {True: "ls", False: "nols", None: "-"}[desc["ls"]]
    if desc["group"] == "after_raise":
        ptag = ":after_raise"
        _call_with_failing_function(obs, fn, prob, y0, method, opts, desc["raise_at"])
    # ---- the monitored call
    y0_in = y0.clone()
    with WarnLog() as wl:
        try:
            y = fn(pres.fcn, y0_in, params=pres.params, method=_spell(method, desc.get("spell")), **opts)
        except Exception as e:
            if family in ("holo", "quartic") and method in ("broyden1", "broyden2") and _left_region(prob, pres.log):
                # these two families are contractions only near the solution and broyden's long first steps can leave that region (the class
                # exempt from must-be-silent, see ASSUMPTIONS): what the solver does with a diverging iteration (here: it raises once the
                # iterates overflow) is outside the statement
                obs.count("raised_after_leaving_contraction_region")
                obs.note(raised="%s: %s" % (type(e).__name__, str(e)[:120]))
                obs.nontrivial = len(pres.log) >= 3
                return obs.result()
            obs.exc_violation("call:%s:%s:%s%s" % (cfg, family, "y0root" if y0_is_root else mode, ptag), e, dtype=str(dt),
                              special=special, n=desc["n"], batch=list(batch))
            _check_arg_dtypes(obs, pres.log, y0, cfg, ptag, prec)
            obs.nontrivial = True
            obs.count("raised")
            return obs.result()
    log = pres.log
    nev = len(log)
    warned = bool(wl.convergence)
    obs.count("user_function_evaluations", nev)
    obs.count("method_%s" % method)
    obs.count("task_%s" % task)
    obs.count("family_%s" % family)
    if dt.is_complex:
        obs.count("complex_cases")
    if desc["ls"] is False:
        obs.count("line_search_off")
    if not all((not ge) for (_, _, ge, _) in log) and task != "minimize":
        obs.count("evaluations_with_grad_enabled")
    # ---- shape / dtype (always, warned or not)
    obs.check(tuple(y.shape) == tuple(y0.shape), "shape:%s%s" % (cfg, ptag), "returned shape %s, y0 has %s" % (tuple(y.shape), tuple(y0.shape)),
              warned=warned)
    obs.check(y.dtype == y0.dtype, "dtype:%s%s" % (cfg, ptag), "returned dtype %s, y0 has %s" % (y.dtype, y0.dtype), warned=warned)
    _check_arg_dtypes(obs, log, y0, cfg, ptag, prec)
    if prec:
        obs.count("prec_result_dtype_checked")
        obs.count("prec_%s_%s" % (desc["dtype"], method))
    obs.check(torch.equal(y0_in, y0), "y0_modified:%s" % cfg, "the initial guess tensor was modified in place")
    if tuple(y.shape) != tuple(y0.shape) or y.dtype != y0.dtype:
        obs.nontrivial = True
        return obs.result()
    yd = y.detach()
    # ---- history: where does the returned tensor occur among the recorded evaluations, and which value was recorded there
    hits = [k for k, (ya, _, _, _) in enumerate(log) if ya.shape == yd.shape and torch.equal(ya, yd)]
    exact_zero_events = 0
    for k, (ya, val, _, _) in enumerate(log):
        if task == "rootfinder" and _norm(val) == 0.0:
            exact_zero_events += 1
        elif task == "equilibrium" and _norm(val - ya) == 0.0:
            exact_zero_events += 1
    if task == "minimize" and y0_is_root:
        exact_zero_events += 1
    if exact_zero_events:
        if y0_is_root:
            obs.count("exact_root_at_start")
        else:
            obs.count("exact_root_after_step")
    rvec = prob.stop_residual(yd)
    rnorm = _norm(rvec)
    scale = 1.0 + yref_n
    obs.note(warned=warned, nev=nev, resid=rnorm, f_tol=f_tol, returned_eval_index_from_end=(nev - 1 - hits[-1]) if hits else None,
             err=_norm(yd.to(yref.dtype) - yref), y0_is_root=y0_is_root)
    if warned:
        obs.count("warned_results")
        obs.count("warned_%s" % method)
    else:
        obs.count("silent_results_checked")
        if not gd:
            # the stopping test on the RETURNED tensor (deterministic re-evaluation: no numerical slack beyond 1e-9 relative)
            obs.check(rnorm < f_tol * (1 + 1e-9), "residual:%s:%s%s" % (cfg, lsname, ptag),
                      "silent return but the stopping quantity at the returned tensor is %.3e >= f_tol %.1e" % (rnorm, f_tol),
                      family=family, y0=mode, nev=nev, dtype=str(dt), special=special)
            # ... and in the history: the returned tensor is one of the evaluated points and the value seen there met the test
            if obs.check(len(hits) > 0, "history:not_evaluated:%s" % cfg,
                         "the returned tensor is not the argument of any recorded evaluation (%d recorded)" % nev, family=family):
                obs.count("history_located")
                k = hits[-1]
                ya, val, _, _ = log[k]
                if task == "rootfinder":
                    seen = _norm(val)
                elif task == "equilibrium":
                    seen = _norm(val - ya)
                else:
                    seen = None
                if seen is not None:
                    obs.check(seen < f_tol, "history:returned_eval_fails_test:%s" % cfg,
                              "the returned tensor is evaluation #%d of %d whose recorded value has norm %.3e >= f_tol %.1e"
                              % (k, nev, seen, f_tol), family=family, index_from_end=nev - 1 - k)
                obs.count("returned_index_from_end_%s" % min(nev - 1 - k, 3))
        if task == "minimize":
            F0 = float(prob.objective(y0, prob.theta))
            F1 = float(prob.objective(yd, prob.theta))
            slack = 2000 * eps * (1 + abs(F0))
            if not gd:
                slack += f_tol ** 2 / (1 - q)
            obs.count("objective_clause_checked")
            obs.note(obj_ratio=(F1 - F0) / slack)
            obs.check(F1 <= F0 + slack, "objective:%s:%s%s" % (cfg, "y0_at_solution" if mode in ("ref", "near", "exactroot") else "y0_far", ptag),
                      "silent return with objective %.12e > objective at the initial guess %.12e (excess %.3e, slack %.1e)"
                      % (F1, F0, F1 - F0, slack), family=family, y0=mode, gdclass=gdclass, nev=nev)
        # ---- all methods return the same point: distance to the independent float64 reference
        err = _norm(yd.to(yref.dtype) - yref)
        if not gd:
            etol = 100 * f_tol / (1 - q) + 200 * eps * math.sqrt(N) * scale / (1 - q)
        elif method == "gd" and gdclass == "plain_tight":
            etol = 1e-6 * scale
        elif gdclass in ("momentum_tight", "plain_tight"):
            etol = 2e-2 * scale
        elif method == "gd" and gdclass == "single_xrtol" and not desc["momentum"]:
            # plain gradient descent with step 0.5 on Hessian eigenvalues in [0.6, 1.63] contracts by <= 0.7 per step: a step shorter than
            # x_rtol*|x| leaves an error <= (0.7/0.3)*x_rtol*|x|; ten times that plus the single-precision floor
            etol = 25 * desc["x_rtol"] * scale + 200 * eps * math.sqrt(N) * scale / (1 - q)
        else:
            etol = None
        if family == "holo" and _norm(yd) > 0.5:
            # the holomorphic map has further fixed points outside its invariant ball (uniqueness is only claimed inside);
            # a solver that left the ball and met the stopping test elsewhere satisfied the statement
            obs.count("holo_root_outside_ball")
            etol = None
        if etol is not None:
            obs.count("reference_compared")
            obs.note(ref_ratio=err / etol)
            obs.check(err <= etol, "reference:%s%s" % (cfg, ptag), "silent return differs from the float64 reference by %.3e > %.3e" % (err, etol),
                      family=family, y0=mode, gdclass=gdclass, nev=nev, resid=rnorm)
    # ---- must-be-silent classes
    floor = 200 * eps * math.sqrt(N) * scale / (1 - q)
    must = desc["maxiter"] in (None, "ample")
    if not gd:
        must = must and f_tol >= floor and x_tol >= floor
        if family in ("holo", "quartic") and method in ("broyden1", "broyden2"):
            # these two families are contractions only near the solution (|y| <= 0.5 resp. |z| <~ 1.5); broyden's default first
            # step has length >= 0.5*max(|y0|,1) and its early steps leave that region (1 non-convergent run in ~800 on the quartic)
            must = False
    else:
        must = must and mode != "near"
        if prec and gdclass == "default_tol":
            must = False     # the default relative tolerances 1e-8 are below single-precision resolution (only met when f or x stagnates bitwise)
    if mode == "ref" and desc["rtol"] == "f_rtol":
        must = False         # f_rtol is relative to |f(y0)|, which is at rounding level here
    if linsolver and desc["solver_method"] != "exactsolve":
        # the inner solver stops at |J dx + f| <= atol + rtol*|f| (defaults 1e-8, 1e-6): newton cannot push |f| below ~atol, so silence is
        # only demanded for f_tol >= 10*atol; gmres announces its own non-convergence on general matrices (its warning is truthful)
        inner_atol = 1e-14 if desc["solver_kw"] == "tight" else 1e-8
        must = must and f_tol >= 10 * inner_atol and desc["solver_method"] != "gmres"
        if must:
            obs.count("linsolver_must_silent")
    if mode == "far":
        must = False         # no convergence demand from a start 1e4..1e8 away; only "silent => the returned point meets the test"
        obs.count("far_start_cases")
    if must:
        obs.count("must_silent_cases")
        if prec:
            obs.count("prec_must_silent")
        obs.check(not warned, "not_silent:%s:%s:%s%s" % (cfg, family, "y0root" if y0_is_root else mode, ptag),
                  "contraction (q=%.2f) with attainable tolerances but the call warned: %s" % (q, wl.convergence[:1]),
                  dtype=str(dt), lsname=lsname, n=desc["n"], f_tol=f_tol, x_tol=x_tol, gdclass=gdclass, nev=nev)
    if desc["maxiter"] == "small" and warned:
        obs.count("forced_warning_path")
        if desc["group"] == "after_raise":
            obs.count("after_raise_then_warned")
    obs.nontrivial = nev >= 3 or (desc["group"].startswith("directed") and exact_zero_events > 0)
    return obs.result()
